"""F49 (C01): django mode - a slot nested in another slot's DEFAULT content is resolved against the outer component's
fills when the enclosing slot is filled and the fill prints the default through `{{ default_var }}`.
Run from the repo root: DJC_ROOT=<root> /venv/bin/python /verif/triage_notes/t45.py"""
import os, re, sys
ROOT = os.environ.get("DJC_ROOT", "/repo")
sys.path.insert(0, os.path.join(ROOT, "src")); sys.path.insert(0, ROOT)
from tests.django_test_setup import setup_test_config
setup_test_config({"autodiscover": False})
from django.template import Context, Template
from django.test import override_settings
from django_components import Component, registry

def norm(html):
    html = re.sub(r"<!-- _RENDERED [^>]*?-->", "", html)
    return re.sub(r"\s+", "", re.sub(r'\s*data-djc-id-\w+(="")?', "", html))

class A(Component):
    template = '{% load component_tags %}{% slot "a" %}[{% slot "inner" %}inner-default{% endslot %}]{% endslot %}'
class Outer(Component):
    template = ('{% load component_tags %}{% component "A" %}{% fill "a" default="d" %}X{{ d }}{% endfill %}'
                '{% fill "inner" %}INNER-FILL{% endfill %}{% endcomponent %}')
bad = []
for mode in ("django", "isolated"):
    with override_settings(COMPONENTS={"context_behavior": mode, "autodiscover": False}):
        registry.clear(); registry.register("A", A); registry.register("Outer", Outer)
        out = norm(Template('{% load component_tags %}{% component "Outer" / %}').render(Context()))
        if out != "X[INNER-FILL]":
            bad.append(f"[{mode}] expected X[INNER-FILL], got {out}")
print("\n".join(bad) or "all as expected")
sys.exit(1 if bad else 0)
