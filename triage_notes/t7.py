import sys
sys.path.insert(0, "/repo")
from tests.django_test_setup import setup_test_config
setup_test_config({"autodiscover": False})
from django.template import Template, Context
from django_components import Component, register, registry, types
@register("page")
class Page(Component):
    template = '{% component_css_dependencies %}<div>page</div>{% component_js_dependencies %}'
    css = ".x{}"
    js = "console.log(1)"
@register("wrapper")
class Wrapper(Component):
    template = '{% component "page" / %}'
print("page alone:\n", Page.render())
print("wrapped:\n", Wrapper.render())
