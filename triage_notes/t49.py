"""F53 (C04/C08): a document written with upper-case end tags (</HEAD>, </BODY>) gets no JS / CSS at all in document mode.
Run from the repo root: DJC_ROOT=<root> /venv/bin/python /verif/triage_notes/t49.py"""
import os, sys
ROOT = os.environ.get("DJC_ROOT", "/repo")
sys.path.insert(0, os.path.join(ROOT, "src")); sys.path.insert(0, ROOT)
from tests.django_test_setup import setup_test_config
setup_test_config({"autodiscover": False})
from django_components import Component, registry, render_dependencies
class Leaf(Component):
    template = "<b>leaf</b>"
    js = "console.log('leaf-js')"
    css = ".leaf{color:red}"
registry.clear(); registry.register("leaf", Leaf)
inner = Leaf.render(render_dependencies=False)
bad = []
for head, body in (("</head>", "</body>"), ("</HEAD>", "</BODY>"), ("</Head >", "</bOdY\n>")):
    page = f"<HTML><HEAD><TITLE>t</TITLE>{head}<BODY>{inner}{body}</HTML>"
    out = render_dependencies(page, type="document")
    ok = "leaf-js" in out and ".leaf{color:red}" in out and out.index(".leaf{color:red}") < out.index(head) and out.index("leaf-js") < out.index(body)
    if not ok:
        bad.append(f"{head!r}/{body!r}: js delivered={'leaf-js' in out} css delivered={'.leaf{color:red}' in out}")
print("\n".join(bad) or "all as expected")
sys.exit(1 if bad else 0)
