import sys, gc, traceback
sys.path.insert(0, "/repo")
from tests.django_test_setup import setup_test_config
setup_test_config({"autodiscover": False})
from django.template import Template, Context
from django_components import Component, register, registry, types
from django_components.perfutil import component as pc, provide as pp

def residue():
    return dict(ctx=len(pc.component_context_cache), rend=len(pc.component_renderer_cache), attrs=len(pc.child_component_attrs),
                prov=len(pp.provide_cache), refs=len(pp.provide_references), all=len(pp.all_reference_ids))

print("== C05: two sibling consumers under a page-level provide")
@register("inj")
class Inj(Component):
    template = "<div>{{ v }}</div>"
    def get_context_data(self):
        return {"v": self.inject("k").x}
try:
    out = Template('{% provide "k" x=1 %}{% component "inj" / %}{% component "inj" / %}{% endprovide %}').render(Context())
    print("OK", out)
except Exception as e:
    print("FAIL", type(e).__name__, str(e)[:200])
print(residue())

print("== C06: get_context_data raises at top-level")
@register("boom")
class Boom(Component):
    template = "x"
    def get_context_data(self):
        raise ValueError("boom")
for i in range(3):
    try:
        Boom.render()
    except ValueError as e:
        pass
print(residue())

print("== C06: nested child raises in get_context_data")
@register("outer")
class Outer(Component):
    template = '<p>{% component "boom" / %}</p>'
for i in range(3):
    try:
        Outer.render()
    except ValueError as e:
        pass
print(residue())
pc.component_context_cache.clear(); pc.component_renderer_cache.clear()

print("== C06: sibling ok + child raises during template render (filter error)")
@register("ok")
class Ok(Component):
    template = "<b>ok</b>"
@register("outer2")
class Outer2(Component):
    template = '<p>{% component "ok" / %}{{ 1|add:x|bad }}</p>'
@register("outer3")
class Outer3(Component):
    template = '<p>{% component "ok" / %}{% component "boom" / %}</p>'
for i in range(3):
    try:
        Outer3.render()
    except ValueError as e:
        pass
print(residue())
