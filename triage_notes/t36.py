"""F39/F40 candidates (C03): shadowing order of captured fill variables; dynamic component's live outer_context.
Run: cd <repo root> && DJC_ROOT=<root> /venv/bin/python /verif/triage_notes/t36.py"""
import os, re, sys
ROOT = os.environ.get("DJC_ROOT", "/repo")
sys.path.insert(0, os.path.join(ROOT, "src")); sys.path.insert(0, ROOT)
from tests.django_test_setup import setup_test_config
setup_test_config({"autodiscover": False})
from django.template import Context, Template
from django.test import override_settings
from django_components import Component, registry
from django_components.components.dynamic import DynamicComponent

def norm(html):
    html = re.sub(r"<!-- _RENDERED [^>]*?-->", "", html)
    html = re.sub(r'\s*data-djc-id-\w+(="")?', "", html)
    return re.sub(r"\s+", "", html)

class Box(Component):
    template = """{% load component_tags %}<box>{% slot "s" default %}D{% endslot %}</box>"""

def mk(tpl):
    class Parent(Component):
        template = "{% load component_tags %}" + tpl
        def get_context_data(self, xs):
            return {"xs": xs}
    return Parent

bad = []
for mode in ("django", "isolated"):
    with override_settings(COMPONENTS={"context_behavior": mode, "autodiscover": False}):
        registry.clear()
        registry.register("box", Box)
        registry.register("dynamic", DynamicComponent)
        # 1. with nearer than for (both outside the tag / both inside the tag)
        for name, tpl in {
            "for>with>component": '{% for x in xs %}{% with x="W" %}{% component "box" %}{% fill "s" %}{{ x }}{% endfill %}{% endcomponent %}{% endwith %}{% endfor %}',
            "component>for>with": '{% component "box" %}{% for x in xs %}{% with x="W" %}{% fill "s" %}{{ x }}{% endfill %}{% endwith %}{% endfor %}{% endcomponent %}',
        }.items():
            out = norm(Template("{% load component_tags %}" + tpl).render(Context({"xs": ["L"]})))
            if out != "<box>W</box>":
                bad.append(f"[{mode}] {name}: expected <box>W</box> got {out}")
        # 5. dynamic inside a parent template, with / for around it
        for name, tag in {"static": '{% component "box" %}', "dynamic": '{% component "dynamic" is="box" %}'}.items():
            registry.register("parent_" + name, mk('{% with w="W" %}' + tag + '{% fill "s" %}{{ w }}{% endfill %}{% endcomponent %}{% endwith %}'))
            out = norm(Template('{% load component_tags %}{% component "parent_' + name + '" xs=xs / %}').render(Context({"xs": ["L"]})))
            if out != "<box>W</box>":
                bad.append(f"[{mode}] with around {name} tag in parent template: expected <box>W</box> got {out}")
print("\n".join(bad) or "all as expected")
sys.exit(1 if bad else 0)
