import sys, time
sys.path.insert(0, "/repo/src")
from django_components.expression import is_dynamic_expression, DYNAMIC_EXPR_RE
for n in (100, 200, 400, 800):
    s = '"' + "{{a}}"*n + '"|upper'
    t=time.time(); r = is_dynamic_expression(s); print(len(s), r, round(time.time()-t,3))
