"""F22 (C03): a nested component's context snapshot shares the parent's top layer by reference.

A tag that binds a variable AFTER the {% component %} tag ({% firstof .. as x %}, {% url .. as x %}, {% now .. as x %} ...)
writes into the layer that the child's "snapshot" still aliases, so the deferred child render (fill and, in django mode,
the child's template) sees the later value instead of the value at the position of the tag.
Run: DJC_ROOT=/repo /venv/bin/python t20.py   (repo root + src are put on sys.path)
"""
import os
import sys

root = os.environ.get("DJC_ROOT", "/repo")
sys.path[:0] = [root, os.path.join(root, "src")]
from tests.django_test_setup import setup_test_config  # noqa: E402

mode = sys.argv[1] if len(sys.argv) > 1 else "django"
setup_test_config({"autodiscover": False, "context_behavior": mode})
from django.template import Context, Template  # noqa: E402

from django_components import Component, register, types  # noqa: E402


@register("inner")
class Inner(Component):
    template: types.django_html = "<i>tpl:{{ x }}|{% slot 'content' default %}{% endslot %}</i>"


@register("outer")
class Outer(Component):
    template: types.django_html = """
        {% firstof "a" as x %}
        {% component "inner" %}fill:{{ x }}{% endcomponent %}
        {% firstof "b" as x %}
    """


out = Template('{% load component_tags %}{% component "outer" / %}').render(Context({}))
print(mode, " ".join(out.split()))
ok = "fill:a" in out and ("tpl:a" in out if mode == "django" else "tpl:|" in out)
print("PASS" if ok else "FAIL: the child sees the binding made AFTER its tag")
sys.exit(0 if ok else 1)
