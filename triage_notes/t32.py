"""F35 (C16): a class WITHOUT its own Media and with several bases takes the `Media` it inherits through getattr() from its
first base - including that base's `extend` - as if it were its own: the files of the other bases are lost.
Run: DJC_ROOT=/repo /venv/bin/python t32.py
"""
import os
import sys

root = os.environ.get("DJC_ROOT", "/repo")
sys.path[:0] = [root, os.path.join(root, "src")]
from tests.django_test_setup import setup_test_config  # noqa: E402

setup_test_config({"autodiscover": False})
from django_components import Component  # noqa: E402


class A(Component):
    template = "a"

    class Media:
        extend = False
        js = ["a.js"]


class B(Component):
    template = "b"

    class Media:
        js = ["b.js"]


class C(A, B):
    pass


print("C.media._js =", C.media._js)
ok = sorted(C.media._js) == ["a.js", "b.js"]
print("PASS" if ok else "FAIL: C has no Media of its own, so it extends ALL its bases: expected a.js and b.js")
sys.exit(0 if ok else 1)
