"""F38 (C16): while merging the Media of the selected bases, the result is re-flattened into ONE list after every base
(`media_cls(js=merged._js, css=merged._css)`). A flattened list is a total order, so it invents constraints between files
that no declared list relates; mutually consistent declarations then come out in a contradicting order, with a spurious
MediaOrderConflictWarning.
Run: DJC_ROOT=/repo /venv/bin/python t35.py
"""
import os
import sys
import warnings

root = os.environ.get("DJC_ROOT", "/repo")
sys.path[:0] = [root, os.path.join(root, "src")]
from tests.django_test_setup import setup_test_config  # noqa: E402

setup_test_config({"autodiscover": False})
from django_components import Component  # noqa: E402


class B1(Component):
    template = "x"

    class Media:
        js = ["b.js"]


class B2(Component):
    template = "x"

    class Media:
        js = ["b.js", "a.js"]


class C(B1, B2):
    class Media:
        js = ["a.js"]


class P(B1, B2):          # deeper: P's memo must not fix an order between unrelated files either
    class Media:
        js = ["x.js"]


class Q(P):
    class Media:
        js = ["a.js", "x.js"]


with warnings.catch_warnings(record=True) as w:
    warnings.simplefilter("always")
    c, q = C.media._js, Q.media._js
print("C:", c, " Q:", q, " warnings:", [str(x.message)[:60] for x in w])
ok = c.index("b.js") < c.index("a.js") and q.index("b.js") < q.index("a.js") < q.index("x.js") and not w
print("PASS" if ok else "FAIL: the declared lists are mutually consistent (b before a [before x]) but the result contradicts them")
sys.exit(0 if ok else 1)
