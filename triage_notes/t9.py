import sys, time
sys.path.insert(0, "/repo")
from tests.django_test_setup import setup_test_config
setup_test_config({"autodiscover": False})
from django.template import Template, Context
from django_components import Component, register
from django_components.util.tag_parser import parse_tag
@register("x")
class X(Component):
    template = "x"
    def get_context_data(self, **kw): return {}
for d in (100, 400, 1200):
    src = '{% component "x" a=' + "["*d + "1" + "]"*d + ' / %}'
    try:
        t = Template(src)
        print(d, "parsed ok")
        t.render(Context())
        print(d, "rendered ok")
    except BaseException as e:
        print(d, type(e).__name__, str(e)[:80])
# timing scaling
for n in (2000, 4000, 8000):
    s = 'component "x" ' + " ".join(f'k{i}="v{i}"' for i in range(n//10))
    t=time.time(); parse_tag(s, None); print(len(s), round(time.time()-t,3))
