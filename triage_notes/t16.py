# F17 triage: a lone `%` outside a string inside a quoted tag -- does the scanner skip the real `%}`?
import sys
sys.path.insert(0, "/repo")
from tests.django_test_setup import setup_test_config
setup_test_config({"autodiscover": False})
from django_components.util.template_parser import parse_template
for src in ['{% a "x" 50% off %}<b>{{ v }}</b>{% c "q" %}', '{% a "x" 50 % %}T{{ v }}']:
    print(repr(src))
    try:
        for t in parse_template(src):
            print("  ", t.token_type.name, repr(t.contents), t.position)
    except Exception as e:
        print("  raised", type(e).__name__, e)
