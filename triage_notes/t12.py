import sys
sys.path.insert(0, "/repo")
from tests.django_test_setup import setup_test_config
setup_test_config({"autodiscover": False})
from django.template import Template, Context
from django.template.loader_tags import BlockContext
from django_components import Component, register
print("bool(BlockContext()) =", bool(BlockContext()))
seen = []
@register("c")
class C(Component):
    template = "<i>c</i>"
    def on_render_before(self, context, template):
        seen.append(template._djc_is_component_nested)
C.render()
Template('{% component "c" / %}').render(Context())
Template('{% extends "block.html" %}{% block body %}{% component "c" / %}{% endblock %}').render(Context())
print("values observed:", seen)
