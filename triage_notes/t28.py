"""F31 (C16): Component.media depends on what was accessed first. `.media` does not resolve the class's relative Media
paths (only `.template` / `.js` / `.css` do, through _resolve_media) and memoises the unresolved result.
Run: DJC_ROOT=/repo /venv/bin/python t28.py   (runs the two access orders in two fresh interpreters)
"""
import os
import subprocess
import sys

root = os.environ.get("DJC_ROOT", "/repo")
prog = r'''
import os, sys
root = sys.argv[1]
sys.path[:0] = [root, os.path.join(root, "src")]
from pathlib import Path
from tests.django_test_setup import setup_test_config
setup_test_config({"autodiscover": False, "dirs": [Path(root) / "tests" / "components"], "app_dirs": []})
from django_components import autodiscover
from tests.components.relative_file.relative_file import RelativeFileComponent as C
if sys.argv[2] == "template-first":
    C.template
print(C.media._js, C.media._css)
'''
outs = []
for order in ("media-first", "template-first"):
    r = subprocess.run([sys.executable, "-c", prog, root, order], capture_output=True, text=True)
    outs.append((r.stdout.strip() or r.stderr.strip().splitlines()[-1]))
    print(order, "->", outs[-1])
ok = outs[0] == outs[1]
print("PASS" if ok else "FAIL: Component.media depends on whether .template was read before it")
sys.exit(0 if ok else 1)
