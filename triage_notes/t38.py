"""F43 (C13): an attribute NAME with whitespace / '=' / '>' / '/' / quotes breaks out of the attribute.
Run from the repo root: DJC_ROOT=<root> /venv/bin/python /verif/triage_notes/t38.py"""
import os, sys
from html.parser import HTMLParser
ROOT = os.environ.get("DJC_ROOT", "/repo")
sys.path.insert(0, os.path.join(ROOT, "src")); sys.path.insert(0, ROOT)
from tests.django_test_setup import setup_test_config
setup_test_config({"autodiscover": False})
from django_components.attributes import attributes_to_string

class P(HTMLParser):
    def __init__(self):
        super().__init__(); self.tags = []
    def handle_starttag(self, tag, attrs):
        self.tags.append((tag, attrs))

bad = []
for name in ["x onclick=alert(1)", "a=b", "a/b", "a>b", 'a"b', "a'b", "a\tb", "a\nonload=x"]:
    try:
        out = attributes_to_string({name: "v", "id": "i"})
    except ValueError as e:
        continue  # refused: nothing emitted
    p = P(); p.feed(f"<div {out}></div>")
    got = p.tags[0][1] if p.tags else None
    if got != [(name.lower(), "v"), ("id", "i")]:
        bad.append(f"name {name!r}: emitted {out!r}, parsed as {p.tags}")
print("\n".join(bad) or "all as expected")
sys.exit(1 if bad else 0)
