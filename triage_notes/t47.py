"""F51 (C03, known): isolated mode - variables captured between the component tag and the fill are inserted BELOW the
enclosing component's layers of the fill's context, so a binding of the enclosing template shadows them.
Run from the repo root: DJC_ROOT=<root> /venv/bin/python /verif/triage_notes/t47.py"""
import os, re, sys
ROOT = os.environ.get("DJC_ROOT", "/repo")
sys.path.insert(0, os.path.join(ROOT, "src")); sys.path.insert(0, ROOT)
from tests.django_test_setup import setup_test_config
setup_test_config({"autodiscover": False})
from django.template import Context, Template
from django.test import override_settings
from django_components import Component, registry
def norm(html):
    html = re.sub(r"<!-- _RENDERED [^>]*?-->", "", html)
    return re.sub(r"\s+", "", re.sub(r'\s*data-djc-id-\w+(="")?', "", html))
BODY = '{% with a=1 %}{% component "inner" %}{% with a=2 %}{% fill "s" %}a={{ a }}{% endfill %}{% endwith %}{% endcomponent %}{% endwith %}'
class Inner(Component):
    template = '{% load component_tags %}{% slot "s" / %}'
class P(Component):
    template = '{% load component_tags %}' + BODY
bad = []
for mode in ("django", "isolated"):
    with override_settings(COMPONENTS={"context_behavior": mode, "autodiscover": False}):
        registry.clear(); registry.register("inner", Inner); registry.register("p", P)
        page = norm(Template('{% load component_tags %}' + BODY).render(Context()))
        comp = norm(Template('{% load component_tags %}{% component "p" / %}').render(Context()))
        if page != "a=2" or comp != "a=2":
            bad.append(f"[{mode}] body in a page: {page}; same body in a component template: {comp}; expected a=2 both")
print("\n".join(bad) or "all as expected")
sys.exit(1 if bad else 0)
