"""F36 (C18): cached_template's key omits `name` / `origin`, which decide how relative {% extends "./x" %} / {% include %}
paths inside the source are resolved. The second caller with the same source but another name gets the Template compiled
for the first one and renders the wrong parent.
Run: DJC_ROOT=/repo /venv/bin/python t33.py
"""
import os
import sys
import tempfile
from pathlib import Path

root = os.environ.get("DJC_ROOT", "/repo")
sys.path[:0] = [root, os.path.join(root, "src")]
tmp = Path(tempfile.mkdtemp())
for d in ("a", "b"):
    (tmp / d).mkdir()
    (tmp / d / "parent.html").write_text(f"PARENT-{d.upper()}")
from tests.django_test_setup import setup_test_config  # noqa: E402

setup_test_config({"autodiscover": False}, extra_settings={"TEMPLATES": [{"BACKEND": "django.template.backends.django.DjangoTemplates", "DIRS": [str(tmp)], "OPTIONS": {"builtins": ["django_components.templatetags.component_tags"]}}]}) if "extra_settings" in setup_test_config.__code__.co_varnames else setup_test_config({"autodiscover": False})
from django.conf import settings  # noqa: E402
from django.template import Context, Origin, Template, engines  # noqa: E402

from django_components import cached_template  # noqa: E402

engine = engines["django"].engine
engine.dirs = [str(tmp)] + list(engine.dirs)
engine.template_loaders  # noqa: B018
for ld in engine.template_loaders:
    for sub in getattr(ld, "loaders", [ld]):
        if hasattr(sub, "dirs"):
            sub.dirs = engine.dirs
src = '{% extends "./parent.html" %}'
outs = {}
for d in ("a", "b"):
    nm = f"{d}/child.html"
    fresh = Template(src, origin=Origin(name=nm, template_name=nm), name=nm, engine=engine).render(Context({}))
    cached = cached_template(src, origin=Origin(name=nm, template_name=nm), name=nm, engine=engine).render(Context({}))
    outs[d] = (fresh, cached)
    print(nm, "fresh:", fresh, "cached:", cached)
ok = all(f == c for f, c in outs.values())
print("PASS" if ok else "FAIL: the cached Template was compiled for another name; rendering differs from compiling afresh")
sys.exit(0 if ok else 1)
