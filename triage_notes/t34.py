"""F37 (C17): suffixes from static_files_allowed / static_files_forbidden are compiled as `<escaped suffix>$`, and `$` also
matches BEFORE a trailing newline: a file literally named "evil.css\\n" counts as ending in ".css" (exposed), and "mod.py\\n"
counts as ending in ".py". `\\Z` is the exact end.
Run: DJC_ROOT=/repo /venv/bin/python t34.py
"""
import os
import sys
import tempfile
from pathlib import Path

root = os.environ.get("DJC_ROOT", "/repo")
sys.path[:0] = [root, os.path.join(root, "src")]
from tests.django_test_setup import setup_test_config  # noqa: E402

tmp = Path(tempfile.mkdtemp()) / "components"
tmp.mkdir()
(tmp / "ok.css").write_text("x")
(tmp / "evil.css\n").write_text("x")
setup_test_config({"autodiscover": False, "dirs": [str(tmp)], "app_dirs": []})
from django_components.finders import ComponentsFileSystemFinder  # noqa: E402

f = ComponentsFileSystemFinder()
listed = sorted(p for p, _s in f.list([]))
print("list():", listed, " find('evil.css\\n'):", bool(f.find("evil.css\n")))
ok = listed == ["ok.css"] and not f.find("evil.css\n")
print("PASS" if ok else "FAIL: a file whose name does not END in an allowed suffix is exposed")
sys.exit(0 if ok else 1)
