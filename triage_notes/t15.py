# F14 triage: the linear is_dynamic_expression agrees with the original cubic regex (differential, random + crafted)
import re, random, sys, time
sys.path.insert(0, "/repo"); sys.path.insert(0, "/repo/src")
from django_components.expression import is_dynamic_expression
OLD = re.compile(r"^{start_quote}.*?(?:{var_tag}|{block_tag}|{comment_tag}).*?{end_quote}$".format(
    var_tag=r"(?:\{\{.*?\}\})", block_tag=r"(?:\{%.*?%\})", comment_tag=r"(?:\{#.*?#\})",
    start_quote=r"(?P<quote>['\"])", end_quote=r"(?P=quote)"))
def old(v):
    if not isinstance(v, str) or not v or len(v) < 6: return False
    return bool(OLD.match(v))
random.seed(1)
alpha = ['"', "'", "{", "}", "%", "#", "a", " ", "\n", "{{", "}}", "{%", "%}", "{#", "#}"]
bad = 0; n = 0
for _ in range(300000):
    s = "".join(random.choice(alpha) for _ in range(random.randint(0, 12)))
    n += 1
    if old(s) != is_dynamic_expression(s):
        bad += 1; print("DIFF", repr(s), old(s), is_dynamic_expression(s))
        if bad > 5: break
print("compared", n, "disagreements", bad)
for k in (1000, 4000, 16000):
    v = '"' + "{{a}}" * (k // 5)   # not closed by a quote
    t = time.time(); is_dynamic_expression(v); print(len(v), round(time.time() - t, 4), "s")
