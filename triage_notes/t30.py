"""F33 (C08, known finding): the default-location scan for </head> / </body> runs AFTER the dependency placeholders were
substituted, so it also matches end tags that occur INSIDE the inserted JS/CSS. A component whose JS contains the text
'</head>' on a page that has {% component_js_dependencies %} but no CSS placeholder gets the CSS spliced into that script.
Run: DJC_ROOT=/repo /venv/bin/python t30.py
"""
import os
import sys

root = os.environ.get("DJC_ROOT", "/repo")
sys.path[:0] = [root, os.path.join(root, "src")]
from tests.django_test_setup import setup_test_config  # noqa: E402

setup_test_config({"autodiscover": False})
from django.template import Context, Template  # noqa: E402

from django_components import Component, register, render_dependencies, types  # noqa: E402


@register("c")
class C(Component):
    template: types.django_html = "<p>c</p>"
    js = "var s = '</head>';"
    css = ".c{color:red}"


page = "{% load component_tags %}<html><head>{% component_js_dependencies %}<title>t</title></head><body>{% component 'c' / %}</body></html>"
out = render_dependencies(Template(page).render(Context({})))
i_style, i_title = out.find("<style>.c{color:red}"), out.find("<title>")
script_ok = "var s = '</head>';</script>" in out
print(out[out.find("<head>"): out.find("<body>")][:400])
ok = script_ok and i_style > i_title
print("PASS" if ok else "FAIL: the CSS was inserted inside the inlined script (at the '</head>' text in the JS), not before the document's </head>")
sys.exit(0 if ok else 1)
