# F6b / F6c triage: stack entries left on a caller-held Context after a failed render
import sys
sys.path.insert(0, "/repo")
from tests.django_test_setup import setup_test_config
setup_test_config({"autodiscover": False})
from django.template import Template, Context
from django_components import Component, register, types

@register("boom")
class Boom(Component):
    template = "x"
    def get_context_data(self):
        raise ValueError("user error")

ctx = Context({"a": 1})
before = len(ctx.render_context.dicts)
try:
    Boom.render(context=ctx)
except ValueError:
    pass
print("F6b render_context layers before/after failed render:", before, len(ctx.render_context.dicts))

@register("holder")
class Holder(Component):
    template = "{% slot 'c' default / %}"

@register("bad")
class Bad(Component):
    template = "y"
    def get_context_data(self):
        raise KeyError("inner")

t = Template("{% component 'holder' %}{% with z=1 %}{% fill 'c' %}{% component 'bad' / %}{% endfill %}{% endwith %}{% endcomponent %}")
ctx2 = Context({"a": 1})
n0 = len(ctx2.dicts)
try:
    t.render(ctx2)
except KeyError:
    pass
print("F6c ctx.dicts layers before/after failed fill render:", n0, len(ctx2.dicts))
