# F3b triage: placeholder that is the root of a component with get_css_data -> id attribute precedes css attribute
import sys
sys.path.insert(0, "/repo")
from tests.django_test_setup import setup_test_config
setup_test_config({"autodiscover": False})
from django.template import Template, Context
from django_components import Component, register, types

@register("page")
class Page(Component):
    template = "{% component_css_dependencies %}<p>x</p>"
    css = ".a{}"
    def get_css_data(self, *a, **k):
        return {"color": "red"}

out = Page.render()
print(out)
print("placeholder survived:", 'name="CSS_PLACEHOLDER"' in out)
