"""F24 (C03): fills produced inside nested {% for %} loops of a component body keep the LIVE parentloop dict.

_extract_fill copies only the first level of `forloop`; `forloop.parentloop` stays the dict the outer ForNode keeps
mutating, so when the fill is rendered later (deferred) it reports the outer loop's FINAL counter.
Run: DJC_ROOT=/repo /venv/bin/python t21.py [django|isolated]
"""
import os
import sys

root = os.environ.get("DJC_ROOT", "/repo")
sys.path[:0] = [root, os.path.join(root, "src")]
from tests.django_test_setup import setup_test_config  # noqa: E402

mode = sys.argv[1] if len(sys.argv) > 1 else "django"
setup_test_config({"autodiscover": False, "context_behavior": mode})
from django.template import Context, Template  # noqa: E402

from django_components import Component, register, types  # noqa: E402


@register("slots4")
class Slots4(Component):
    template: types.django_html = "{% slot 'a1' / %};{% slot 'a2' / %};{% slot 'b1' / %};{% slot 'b2' / %}"


tpl = """{% load component_tags %}{% component "slots4" %}{% for o in outer %}{% for i in inner %}{% fill name=o|add:i %}{{ o }}{{ i }}:{{ forloop.counter }}/{{ forloop.parentloop.counter }}{% endfill %}{% endfor %}{% endfor %}{% endcomponent %}"""
out = Template(tpl).render(Context({"outer": ["a", "b"], "inner": ["1", "2"]}))
txt = out.split("-->")[-1]
print(mode, txt)
want = "a1:1/1;a2:2/1;b1:1/2;b2:2/2"
ok = want in out
print("PASS" if ok else f"FAIL: expected {want}")
sys.exit(0 if ok else 1)
