import sys
sys.path.insert(0, "/repo")
from tests.django_test_setup import setup_test_config
setup_test_config({"autodiscover": False})
from django.template import Template, Context
from django_components import Component, register
class MyErr(Exception): pass
@register("e1")
class E1(Component):
    template = "x"
    def get_context_data(self):
        raise MyErr(123)
try:
    E1.render()
except BaseException as e:
    print(type(e).__name__, repr(e)[:200])
@register("e2")
class E2(Component):
    template = "x"
    def get_context_data(self):
        raise KeyError(("a", 1))
try:
    E2.render()
except BaseException as e:
    print(type(e).__name__, repr(e)[:200])
