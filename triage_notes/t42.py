"""F46 (C16): `class Media: css = []` (the documented list form, empty) is skipped by the normalisation and reaches
Django's Media as a list: reading / rendering Component.media raises AttributeError.
Run from the repo root: DJC_ROOT=<root> /venv/bin/python /verif/triage_notes/t42.py"""
import os, sys
ROOT = os.environ.get("DJC_ROOT", "/repo")
sys.path.insert(0, os.path.join(ROOT, "src")); sys.path.insert(0, ROOT)
from tests.django_test_setup import setup_test_config
setup_test_config({"autodiscover": False})
from django_components import Component
bad = []
for empty in ([], (), ""):
    class A(Component):
        template = "x"
        class Media:
            css = empty
            js = ["a.js"]
    class B(A):
        class Media:
            css = ["b.css"]
    try:
        got = (A.media._js, A.media._css, B.media._css)
        if got != (["a.js"], {}, {"all": ["b.css"]}):
            bad.append(f"css={empty!r}: {got}")
    except Exception as e:
        bad.append(f"css={empty!r}: {type(e).__name__}: {e}")
print("\n".join(bad) or "all as expected")
sys.exit(1 if bad else 0)
