"""F25 (C06): component_error_message drops the first line of a multi-line user message on the FIRST annotation.

`components = [*component_path, *components]` is never empty (every caller passes a one-element path), so the branch that
keeps the whole message is dead and `split("\\n", 1)[-1]` always removes the first line - also when that line is the user's.
Run: DJC_ROOT=/repo /venv/bin/python t22.py
"""
import os
import sys

root = os.environ.get("DJC_ROOT", "/repo")
sys.path[:0] = [root, os.path.join(root, "src")]
from tests.django_test_setup import setup_test_config  # noqa: E402

setup_test_config({"autodiscover": False})
from django_components import Component, register, types  # noqa: E402


@register("boom")
class Boom(Component):
    template: types.django_html = "x"

    def get_context_data(self):
        raise ValueError("line one\nline two")


@register("outer")
class Outer(Component):
    template: types.django_html = "{% load component_tags %}{% component 'boom' / %}"


ok = True
for cls in (Boom, Outer):
    try:
        cls.render()
    except ValueError as e:
        msg = str(e)
        print(repr(msg))
        ok = ok and "line one" in msg and "line two" in msg and msg.count("An error occured") == 1
print("PASS" if ok else "FAIL: the first line of the user's message is lost")
sys.exit(0 if ok else 1)
