"""F47 (C06): a SUCCESSFUL render leaks the registries of a nested component whose placeholder did not make it into the
final HTML (here: replaced by {% filter cut:"<" %}{% filter truncatechars:9 %}).
Run from the repo root: DJC_ROOT=<root> /venv/bin/python /verif/triage_notes/t43.py"""
import os, sys
ROOT = os.environ.get("DJC_ROOT", "/repo")
sys.path.insert(0, os.path.join(ROOT, "src")); sys.path.insert(0, ROOT)
from tests.django_test_setup import setup_test_config
setup_test_config({"autodiscover": False})
from django_components import Component, registry
from django_components.perfutil.component import component_renderer_cache, child_component_attrs
from django_components.slots import component_context_cache
from django_components.perfutil.provide import provide_cache, provide_references, all_reference_ids

class Leaf(Component):
    template = "<b>leaf</b>"
class Page(Component):
    template = '{% load component_tags %}{% provide "k" v=1 %}{% filter cut:"<" %}{% filter truncatechars:9 %}{% component "leaf" / %}{% endfilter %}{% endfilter %}{% endprovide %}'
registry.clear(); registry.register("leaf", Leaf); registry.register("page", Page)
def sizes():
    return {"renderer": len(component_renderer_cache), "attrs": len(child_component_attrs), "ctx": len(component_context_cache),
            "provide": len(provide_cache), "refs": len(provide_references), "ids": len(all_reference_ids)}
before = sizes()
for _ in range(5):
    Page.render()
after = sizes()
print("before", before); print("after ", after)
sys.exit(0 if before == after else 1)
