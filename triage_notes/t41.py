"""F46 candidate (C15): two registries share the default Library; unregistering the last component of ONE registry
deletes the `component` tag although the other registry still has components that use it.
Run from the repo root: DJC_ROOT=<root> /venv/bin/python /verif/triage_notes/t41.py"""
import os, sys
ROOT = os.environ.get("DJC_ROOT", "/repo")
sys.path.insert(0, os.path.join(ROOT, "src")); sys.path.insert(0, ROOT)
from tests.django_test_setup import setup_test_config
setup_test_config({"autodiscover": False})
from django.template import Context, Template, TemplateSyntaxError
from django_components import Component, ComponentRegistry, registry

class A(Component):
    template = "A"
class B(Component):
    template = "B"

registry.clear()
registry.register("a", A)
other = ComponentRegistry()          # no library given: uses the default library, like `registry`
other.register("b", B)
assert other.library is registry.library
other.unregister("b")
bad = []
if "component" not in registry.library.tags:
    bad.append("the `component` tag is gone from the shared Library although the default registry still holds 'a'")
try:
    out = Template('{% load component_tags %}{% component "a" / %}').render(Context())
except TemplateSyntaxError as e:
    bad.append(f"rendering a component of the default registry now fails: {str(e)[:90]}")
print("\n".join(bad) or "all as expected")
sys.exit(1 if bad else 0)
