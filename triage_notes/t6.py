import sys, threading, time
sys.path.insert(0, "/repo")
from tests.django_test_setup import setup_test_config
setup_test_config({"autodiscover": False})
from django.template import Template, Context
from django.test import Client
from django_components import Component, register, registry, types
from django_components.cache import get_component_media_cache
import re

print("== C19: URL served after media-cache clear + re-render")
@register("js1")
class Js1(Component):
    template = "<div>x</div>"
    js = "console.log('js1')"
    css = ".a{}"
out = Js1.render()
urls = re.findall(r'/components/cache/[\w.]+', out)
print("first render has inline:", "console.log('js1')" in out)
get_component_media_cache().clear()
try:
    out2 = Js1.render(type="fragment")
    import base64, json
    m = re.search(r'<script type="application/json" data-djc>(.*?)</script>', out2)
    data = json.loads(m.group(1))
    tags = [base64.b64decode(t).decode() for t in data["toLoadJsTags"] + data["toLoadCssTags"]]
    print(tags)
    c = Client()
    for t in tags:
        u = re.search(r'(?:src|href)="([^"]+)"', t).group(1)
        r = c.get(u)
        print(u, r.status_code, r.get("Content-Type"), r.content[:40])
    r = c.post(u); print("POST", r.status_code)
    r = c.get("/components/cache/Nope_000000.js"); print("unknown", r.status_code)
    r = c.get("/components/cache/Js1_%s.xyz" % Js1._class_hash.split("_")[1]); print("bad kind", r.status_code)
except Exception as e:
    import traceback; traceback.print_exc()

print("== C14: depth")
@register("rec")
class Rec(Component):
    template = '{% if n %}{% component "rec" n=n|add:"-1" / %}{% else %}<b>leaf</b>{% endif %}'
    def get_context_data(self, n): return {"n": n}
for d in (50, 300, 1000, 2000):
    t = time.time()
    try:
        out = Rec.render(kwargs={"n": d})
        ids = re.findall(r'data-djc-id-(\w{6})', out)
        print(d, "ok ids on leaf:", len(ids), "distinct", len(set(ids)), round(time.time()-t,2), "s")
    except BaseException as e:
        print(d, "FAIL", type(e).__name__, str(e)[:100])
