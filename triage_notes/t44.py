"""F48 (C12): `{% component "a\\x00b" %}` as the FIRST component tag compiled in the process raised ValueError
('type name must not contain null characters'): the per-start-tag Node subclass was named after the component name taken
from the template text. Run from the repo root: DJC_ROOT=<root> /venv/bin/python /verif/triage_notes/t44.py"""
import os, sys
ROOT = os.environ.get("DJC_ROOT", "/repo")
sys.path.insert(0, os.path.join(ROOT, "src")); sys.path.insert(0, ROOT)
from tests.django_test_setup import setup_test_config
setup_test_config({"autodiscover": False})
from django.template import Template, TemplateSyntaxError
from django_components import Component, registry
try:
    Template('{% load component_tags %}{% component "a\x00b" %}{% endcomponent %}')
    print("compiled (the unknown name is reported at render time, as for any other name)")
except TemplateSyntaxError as e:
    print("TemplateSyntaxError", e)
except Exception as e:
    print("FAIL:", type(e).__name__, e); sys.exit(1)
