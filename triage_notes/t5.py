import sys, threading
sys.path.insert(0, "/repo")
from tests.django_test_setup import setup_test_config
setup_test_config({"autodiscover": False})
from django.template import Template, Context
from django_components import Component, register, registry, types
from django_components.perfutil import provide as pp, component as pc

a_registered = threading.Event(); b_failed = threading.Event()

@register("leaf")
class Leaf(Component):
    template = "<i>{{ v }}</i>"
    def get_context_data(self):
        return {"v": self.inject("k").x}

@register("a_outer")
class AOuter(Component):
    # nested leaf renders deferred, after A's get_context_data returned
    template = '<div>{% component "leaf" / %}</div>'
    def get_context_data(self):
        a_registered.set()          # A (and its reference) is registered now
        b_failed.wait(5)            # let thread B fail meanwhile
        return {}

@register("b_boom")
class BBoom(Component):
    template = "x"
    def get_context_data(self):
        a_registered.wait(5)
        raise ValueError("B fails")

res = {}
def run_a():
    try:
        res["a"] = Template('{% provide "k" x=1 %}{% component "a_outer" / %}{% endprovide %}').render(Context())
    except Exception as e:
        res["a"] = f"FAIL {type(e).__name__}: {str(e)[:120]}"
def run_b():
    try:
        res["b"] = Template('{% provide "k" x=2 %}{% component "b_boom" / %}{% endprovide %}').render(Context())
    except Exception as e:
        res["b"] = f"raised {type(e).__name__}"
    b_failed.set()
ta = threading.Thread(target=run_a); tb = threading.Thread(target=run_b)
ta.start(); tb.start(); ta.join(); tb.join()
print("A:", res["a"]); print("B:", res["b"])
print("solo A:", Template('{% provide "k" x=1 %}{% component "leaf" / %}{% endprovide %}').render(Context())[:80])
