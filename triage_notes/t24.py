"""F27 (C07): Component.as_view() creates ONE component instance that every request thread renders through, and the
per-render metadata (behind self.input / self.id / inject) lives on a stack owned by that instance. Two requests whose
renders overlap without being nested read each other's input.
Run: DJC_ROOT=/repo /venv/bin/python t24.py
"""
import os
import sys
import threading

root = os.environ.get("DJC_ROOT", "/repo")
sys.path[:0] = [root, os.path.join(root, "src")]
from tests.django_test_setup import setup_test_config  # noqa: E402

setup_test_config({"autodiscover": False})
from django.test import RequestFactory  # noqa: E402

from django_components import Component, types  # noqa: E402

a_in, b_done = threading.Event(), threading.Event()


class Page(Component):
    template: types.django_html = "<p>asked {{ asked }} saw {{ saw }}</p>"

    def get_context_data(self, who):
        if who == "A":
            a_in.set()          # A has pushed its metadata ...
            b_done.wait(5)      # ... and is pre-empted until B is inside its own get_context_data
        else:
            a_in.wait(5)
        saw = self.input.kwargs["who"]
        if who == "B":
            res = {"asked": who, "saw": saw}
            threading.Timer(0.2, b_done.set).start()   # let A continue while B is still rendering
            import time
            time.sleep(0.4)
            return res
        return {"asked": who, "saw": saw}

    def get(self, request, *args, **kwargs):
        return self.render_to_response(kwargs={"who": request.GET["who"]})


view = Page.as_view()
out = {}


def run(who):
    out[who] = view(RequestFactory().get("/", {"who": who})).content.decode()


ts = [threading.Thread(target=run, args=(w,)) for w in ("A", "B")]
[t.start() for t in ts]
[t.join() for t in ts]
print(out)
ok = "asked A saw A" in out["A"] and "asked B saw B" in out["B"]
print("PASS" if ok else "FAIL: a request saw the other request's input")
sys.exit(0 if ok else 1)
