# F20 triage (C05/C01/C03): dynamic component inside a component-level {% provide %} (deferred render uses the LIVE input context)
import sys
sys.path.insert(0, "/repo")
from tests.django_test_setup import setup_test_config
setup_test_config({"autodiscover": False, "context_behavior": sys.argv[1] if len(sys.argv) > 1 else "django"})
from django.template import Template, Context
from django_components import Component, register, types

@register("inj")
class Inj(Component):
    template = "<i>{{ v }}</i>"
    def get_context_data(self):
        return {"v": self.inject("k", "DEFAULT")}

@register("outer_plain")
class OuterPlain(Component):
    template = '{% provide "k" x=1 %}{% component "inj" / %}{% endprovide %}'

@register("outer_dyn")
class OuterDyn(Component):
    template = '{% provide "k" x=1 %}{% component "dynamic" is="inj" / %}{% endprovide %}'

print("plain  :", Template('{% component "outer_plain" / %}').render(Context()))
print("dynamic:", Template('{% component "outer_dyn" / %}').render(Context()))
print("page-level dynamic:", Template('{% provide "k" x=1 %}{% component "dynamic" is="inj" / %}{% endprovide %}').render(Context()))
