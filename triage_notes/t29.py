"""F32 (C12): a component tag whose argument opens a translation `_("abc"` without the closing parenthesis makes
Template(source) raise StopIteration (from Django's Token.split_contents, called by the registry's tag function)
instead of TemplateSyntaxError.
Run: DJC_ROOT=/repo /venv/bin/python t29.py
"""
import os
import sys

root = os.environ.get("DJC_ROOT", "/repo")
sys.path[:0] = [root, os.path.join(root, "src")]
from tests.django_test_setup import setup_test_config  # noqa: E402

setup_test_config({"autodiscover": False})
from django.template import Template, TemplateSyntaxError  # noqa: E402

from django_components import Component, register, types  # noqa: E402


@register("x")
class X(Component):
    template: types.django_html = "x"


ok = True
for src in ['{% component "x" _("abc" %}{% endcomponent %}', "{% component 'x' a=_('abc' %}{% endcomponent %}", '{% x _("abc" %}{% endx %}']:
    try:
        Template("{% load component_tags %}" + src)
        print(repr(src), "-> compiled")
    except TemplateSyntaxError as e:
        print(repr(src), "-> TemplateSyntaxError:", str(e)[:60])
    except BaseException as e:  # noqa
        ok = False
        print(repr(src), "->", type(e).__name__, str(e)[:60])
print("PASS" if ok else "FAIL: parsing must end in success or TemplateSyntaxError")
sys.exit(0 if ok else 1)
