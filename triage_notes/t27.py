"""F30 (C19): a crafted script kind makes the cache endpoint answer 500.
`/components/cache/<hash>.js:<input_hash>` is parsed by the two-part route as script_type="js:<input_hash>"; the cache key
`__components:<hash>:js:<input_hash>` is exactly the key of the variables script, so the lookup HITS and
_get_content_types("js:<input_hash>") raises ValueError -> server error instead of 404.
Run: DJC_ROOT=/repo /venv/bin/python t27.py
"""
import os
import re
import sys

root = os.environ.get("DJC_ROOT", "/repo")
sys.path[:0] = [root, os.path.join(root, "src")]
from tests.django_test_setup import setup_test_config  # noqa: E402

setup_test_config({"autodiscover": False})
from django.test import Client  # noqa: E402

from django_components import Component, register, types  # noqa: E402


@register("v")
class V(Component):
    template: types.django_html = "<p>v</p>"
    js = "console.log(1)"

    def get_js_data(self, *a, **k):
        return {"x": 1}


html = V.render(type="fragment")
import base64, json  # noqa: E402,E401
m = re.search(r'<script type="application/json" data-djc>(.*?)</script>', html, re.S)
data = json.loads(m.group(1)) if m else {}
urls = [base64.b64decode(u).decode() for u in data.get("toLoadJsTags", [])] if data else []
srcs = re.findall(r'src="([^"]+)"', " ".join(urls)) or re.findall(r"/components/cache/[^\"'<> ]+", html)
three = next((s for s in srcs if s.count(".") >= 2), None)
print("emitted:", srcs)
ok = three is not None
if ok:
    h, ih, kind = three.rsplit("/", 1)[1].split(".")
    crafted = f"/components/cache/{h}.{kind}:{ih}"
    c = Client(raise_request_exception=False)
    r1, r2 = c.get(three), c.get(crafted)
    print(three, "->", r1.status_code, "|", crafted, "->", r2.status_code)
    ok = r1.status_code == 200 and r2.status_code == 404
print("PASS" if ok else "FAIL: an unknown script kind must answer 404, never a server error")
sys.exit(0 if ok else 1)
