"""F52 (C08): bytes content that is not valid UTF-8 (a latin-1 page through the middleware) makes render_dependencies
raise UnicodeDecodeError in document mode when at least one placeholder kind is absent.
Run from the repo root: DJC_ROOT=<root> /venv/bin/python /verif/triage_notes/t48.py"""
import os, sys
ROOT = os.environ.get("DJC_ROOT", "/repo")
sys.path.insert(0, os.path.join(ROOT, "src")); sys.path.insert(0, ROOT)
from tests.django_test_setup import setup_test_config
setup_test_config({"autodiscover": False})
from django_components import Component, registry, render_dependencies

class Leaf(Component):
    template = "<b>leaf</b>"
    js = "console.log(1)"
registry.clear(); registry.register("leaf", Leaf)
inner = Leaf.render(render_dependencies=False)
page = b"<html><head><title>caf\xe9</title></head><body>\xe9\xff " + inner.encode() + b"</body></html>"
try:
    out = render_dependencies(page, type="document")
except Exception as e:
    print("FAIL:", type(e).__name__, e); sys.exit(1)
ok = isinstance(out, bytes) and b"caf\xe9" in out and b"\xe9\xff " in out and b"console.log(1)" in out and b"_RENDERED" not in out
print("ok" if ok else f"FAIL: {out[:200]!r}")
sys.exit(0 if ok else 1)
