import sys, os, tempfile, re
sys.path.insert(0, "/repo")
from tests.django_test_setup import setup_test_config
setup_test_config({"autodiscover": False})
from django.template import Template, Context
from django_components import Component, register, registry, types
from django_components.dependencies import render_dependencies, _insert_js_css_to_default_locations, wrap_component_js
from django_components.util.template_parser import parse_template

print("== C08 body-before-head offset")
html = "<x></body><y></head><z>"
print(repr(_insert_js_css_to_default_locations(html, js_content="[JS]", css_content="[CSS]")))

print("== C09 lineno from the second quoted tag")
src = '{% a "x" %}\n{% b "y" %}\n{% c "z" %}\n{{ v }}'
for t in parse_template(src):
    exp = 1 + src[:t.position[0]].count("\n")
    print(t.token_type.name, repr(t.contents), t.position, t.lineno, "expected", exp, "" if exp == t.lineno else "<-- WRONG")
print("-- multi-line tag with leading newline inside")
src = '{%\n a "x"\n %}\n{{ v }}'
for t in parse_template(src):
    exp = 1 + src[:t.position[0]].count("\n")
    print(t.token_type.name, repr(t.contents), t.position, t.lineno, "expected", exp, "" if exp == t.lineno else "<-- WRONG")

print("== C13 </SCRIPT> guard")
class Dummy: pass
try:
    print(wrap_component_js(Dummy, "a </SCRIPT><img src=x> b"))
except RuntimeError as e:
    print("refused")

print("== C04 non-ASCII class name")
Cafe = type("Café", (Component,), {"template": "<div>x</div>", "js": "console.log(1)", "__module__": __name__})
out = Cafe.render()
print(out[:300])

print("== C11 positional-only default omitted")
from django_components import BaseNode
from django.template import Library
lib = Library()
class PNode(BaseNode):
    tag = "ptag"
    def render(self, context, a=5, /):
        return f"a={a}"
PNode.register(lib)
from django.template import engines
eng = engines["django"].engine
eng.template_libraries["plib"] = lib
try:
    print(Template("{% load plib %}{% ptag %}").render(Context()))
except Exception as e:
    print("FAIL", type(e).__name__, e)
def ref(a=5, /): return f"a={a}"
print("python:", ref())
