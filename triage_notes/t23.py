"""F26 (C09): a {% verbatim %} tag that contains a quote is handed to the quote-aware scanner, and the stock lexer that
resumes after it is fresh: it has lost the verbatim state, so the block's content is tokenized ({{ a }} becomes a VAR token)
instead of staying TEXT as stock Django produces.
Run: DJC_ROOT=/repo /venv/bin/python t23.py
"""
import os
import sys

root = os.environ.get("DJC_ROOT", "/repo")
sys.path[:0] = [root, os.path.join(root, "src")]
from tests.django_test_setup import setup_test_config  # noqa: E402

setup_test_config({"autodiscover": False})
from django.template.base import DebugLexer  # noqa: E402

from django_components.util.template_parser import parse_template  # noqa: E402

ok = True
for src in ['{% verbatim "x" %}{{ a }}{% tag "q" %}{% endverbatim "x" %}{{ b }}', "{% verbatim 'v' %}\n{% if %}\n{% endverbatim 'v' %}{% firstof 'z' %}"]:
    stock = [(t.token_type.name, t.contents, t.position, t.lineno) for t in DebugLexer(src).tokenize()]
    ours = [(t.token_type.name, t.contents, t.position, t.lineno) for t in parse_template(src)]
    print(ours)
    if stock != ours:
        ok = False
        print("  stock:", stock)
print("PASS" if ok else "FAIL: token stream differs from stock Django although no %} lies inside a quoted string")
sys.exit(0 if ok else 1)
