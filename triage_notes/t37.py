"""F41/F42 (C03, known findings). Run from the repo root: DJC_ROOT=<root> /venv/bin/python /verif/triage_notes/t37.py
F41: a loop variable of a loop AROUND the component tag wins over a nearer {% with %} binding that is also outside the tag.
F42: 'django' mode + `only`: fill content sees no page variables."""
import os, re, sys
ROOT = os.environ.get("DJC_ROOT", "/repo")
sys.path.insert(0, os.path.join(ROOT, "src")); sys.path.insert(0, ROOT)
from tests.django_test_setup import setup_test_config
setup_test_config({"autodiscover": False})
from django.template import Context, Template
from django.test import override_settings
from django_components import Component, registry

class Box(Component):
    template = """{% load component_tags %}<box>{% slot "s" default %}D{% endslot %}</box>"""

def norm(html):
    html = re.sub(r"<!-- _RENDERED [^>]*?-->", "", html)
    return re.sub(r"\s+", "", re.sub(r'\s*data-djc-id-\w+(="")?', "", html))

bad = []
for mode in ("django", "isolated"):
    with override_settings(COMPONENTS={"context_behavior": mode, "autodiscover": False}):
        registry.clear(); registry.register("box", Box)
        t = '{% load component_tags %}{% for x in xs %}{% with x="W" %}{% component "box" %}{% fill "s" %}{{ x }}{% endfill %}{% endcomponent %}{% endwith %}{% endfor %}'
        out = norm(Template(t).render(Context({"xs": ["L"]})))
        if out != "<box>W</box>":
            bad.append(f"F41 [{mode}] for>with>component: expected <box>W</box> got {out}")
        t = '{% load component_tags %}{% component "box" only %}{% fill "s" %}{{ page }}{% endfill %}{% endcomponent %}'
        out = norm(Template(t).render(Context({"page": "P"})))
        if out != "<box>P</box>":
            bad.append(f"F42 [{mode}] only: expected <box>P</box> got {out}")
print("\n".join(bad) or "all as expected")
sys.exit(1 if bad else 0)
