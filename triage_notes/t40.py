"""F45 (C18): cached_template identified the Template class and the engine by IMPORT PATH only.
Run from the repo root: DJC_ROOT=<root> /venv/bin/python /verif/triage_notes/t40.py"""
import os, sys
ROOT = os.environ.get("DJC_ROOT", "/repo")
sys.path.insert(0, os.path.join(ROOT, "src")); sys.path.insert(0, ROOT)
from tests.django_test_setup import setup_test_config
setup_test_config({"autodiscover": False})
from django.template import Context, Template, Library
from django.template.engine import Engine
from django_components import cached_template
import types

bad = []
# (a) two engines of the same class with different builtins
def lib(prefix):
    l = Library()
    l.simple_tag(lambda v: f"{prefix}:{v}", name="show")
    m = types.ModuleType(f"lib_{prefix}"); m.register = l
    sys.modules[m.__name__] = m
    return m.__name__
ea = Engine(builtins=[lib("A")]); eb = Engine(builtins=[lib("B")])
src = "{% show 'v' %}"
ra = cached_template(src, engine=ea).render(Context())
rb = cached_template(src, engine=eb).render(Context())
fresh = Template(src, engine=eb).render(Context())
if rb != fresh:
    bad.append(f"engine: cached render {rb!r} != fresh compile {fresh!r} (first engine gave {ra!r})")
# (b) two Template classes made by one factory (same module + qualname)
def make(tag):
    class T(Template):
        def render(self, context):
            return f"{tag}:" + super().render(context)
    return T
Ta, Tb = make("a"), make("b")
xa = cached_template("t", Ta).render(Context())
xb = cached_template("t", Tb).render(Context())
if xb != "b:t":
    bad.append(f"template_cls: cached_template('t', Tb) rendered {xb!r}, a fresh Tb('t') renders 'b:t'")
print("\n".join(bad) or "all as expected")
sys.exit(1 if bad else 0)
