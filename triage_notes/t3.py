import sys, os, tempfile, re, signal
sys.path.insert(0, "/repo")
from tests.django_test_setup import setup_test_config
setup_test_config({"autodiscover": False})
from django.template import Template, Context
from django_components import Component, register, registry, types

def alarm(*a): raise TimeoutError("hang")
signal.signal(signal.SIGALRM, alarm)

print("== C01: slot nested in default content of an unfilled slot, component rendered inside another component's fill (django mode)")
@register("inner")
class Inner(Component):
    template = '[inner:{% slot "a" %}A-default({% slot "b" %}B-default{% endslot %}){% endslot %}]'
@register("wrap")
class Wrap(Component):
    template = '[wrap:{% slot "b" %}wrap-b-default{% endslot %}|{% slot "content" default %}{% endslot %}]'
page = '{% component "wrap" %}{% fill "content" %}{% component "inner" / %}{% endfill %}{% fill "b" %}PAGE-B{% endfill %}{% endcomponent %}'
signal.alarm(5)
try:
    print(Template(page).render(Context()))
except BaseException as e:
    print("FAIL", type(e).__name__, str(e)[:150])
signal.alarm(0)
# expectation: inner's slot b is unfilled for inner => 'B-default'
page2 = '{% component "wrap" %}{% fill "content" %}{% component "inner" / %}{% endfill %}{% fill "a" %}PAGE-A{% slot "a" / %}{% endfill %}{% endcomponent %}'
signal.alarm(5)
try:
    print(Template(page2).render(Context()))
except BaseException as e:
    print("FAIL", type(e).__name__, str(e)[:150])
signal.alarm(0)
