"""F44 candidate (C10): a template FILE used both as a component template (template_file / get_template_name) and through a
stock {% include %}: with the cached loader both get the same Template object; the component render leaves
`_djc_is_component_nested = True` on it, so later STOCK includes of that file render with isolated_context=False.
Run from the repo root: DJC_ROOT=<root> /venv/bin/python /verif/triage_notes/t39.py"""
import os, sys, tempfile
ROOT = os.environ.get("DJC_ROOT", "/repo")
sys.path.insert(0, os.path.join(ROOT, "src")); sys.path.insert(0, ROOT)
d = tempfile.mkdtemp()
open(os.path.join(d, "inc.html"), "w").write("I({% block a %}inc-a{% endblock %})")
open(os.path.join(d, "pbase.html"), "w").write("P[{% block a %}pbase-a{% endblock %}|{% block body %}{% endblock %}]")
open(os.path.join(d, "page.html"), "w").write('{% extends "pbase.html" %}{% block body %}{% include "inc.html" %}{% endblock %}')
import django
from django.conf import settings
settings.configure(
    INSTALLED_APPS=["django_components"],
    TEMPLATES=[{"BACKEND": "django.template.backends.django.DjangoTemplates", "DIRS": [d],
                "OPTIONS": {"builtins": ["django_components.templatetags.component_tags"],
                            "loaders": [("django.template.loaders.cached.Loader", ["django.template.loaders.filesystem.Loader"])]}}],
    COMPONENTS={"autodiscover": False, "dirs": []},
    SECRET_KEY="x", BASE_DIR=d,
)
django.setup()
from django.template import Context
from django.template.loader import get_template
from django_components import Component, registry

def page():
    return get_template("page.html").render({})

before = page()

class Inc(Component):
    def get_template_name(self, context):
        return "inc.html"

registry.register("inc", Inc)
Inc.render()
after = page()
print("stock page before the component rendered:", before)
print("stock page after  the component rendered:", after)
sys.exit(0 if before == after else 1)
