"""F29 (C19/C04): the library's own media cache is meant to be unbounded ("MAX_ENTRIES": None  # No max size), but Django
reads MAX_ENTRIES from params["OPTIONS"] and int(None) falls back to 300 entries. A page with more than ~150 component
classes that have JS and CSS evicts scripts cached earlier in the SAME render: document mode raises "Could not find JS",
fragment mode announces URLs that answer 404.
Run: DJC_ROOT=/repo /venv/bin/python t26.py
"""
import os
import sys

root = os.environ.get("DJC_ROOT", "/repo")
sys.path[:0] = [root, os.path.join(root, "src")]
from tests.django_test_setup import setup_test_config  # noqa: E402

setup_test_config({"autodiscover": False})
from django.template import Context, Template  # noqa: E402

from django_components import Component, register, render_dependencies  # noqa: E402
from django_components.cache import get_component_media_cache  # noqa: E402

N = int(os.environ.get("N", "200"))
for i in range(N):
    register(f"c{i}")(type(f"C{i}", (Component,), {"template": f"<i>{i}</i>", "js": f"console.log({i})", "css": f".c{i}{{}}", "__module__": __name__}))

tpl = "{% load component_tags %}<html><head></head><body>" + "".join(f'{{% component "c{i}" / %}}' for i in range(N)) + "</body></html>"
try:
    out = render_dependencies(Template(tpl).render(Context({})))
    ok = all(f"console.log({i})" in out for i in range(N))
    why = "some scripts are missing from the page"
except RuntimeError as e:
    ok, why = False, f"RuntimeError: {str(e)[:80]}"
print("max entries of the media cache:", get_component_media_cache()._max_entries)
print("PASS" if ok else f"FAIL: {why}")
sys.exit(0 if ok else 1)
