# F21 triage (C13): two different keywords each repeated on html_attrs
import sys
sys.path.insert(0, "/repo")
from tests.django_test_setup import setup_test_config
setup_test_config({"autodiscover": False})
from django.template import Template, Context
for src in ['{% html_attrs class="a" class="b" data-x="1" data-x="2" %}', '{% html_attrs id="i" class="a" class="b" data-x="1" data-x="2" data-x="3" %}']:
    try:
        print(repr(Template(src).render(Context())))
    except Exception as e:
        print(type(e).__name__, e)
