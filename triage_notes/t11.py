"""F9: forced schedule on LRUCache.set with eviction (through cached_template)."""
import sys, threading
sys.path.insert(0, "/repo")
from tests.django_test_setup import setup_test_config
setup_test_config({"autodiscover": False, "template_cache_size": 2})
from django_components.template import cached_template
from django_components.util import cache as cache_mod
from django_components.cache import get_template_cache

code = cache_mod.LRUCache.set.__code__
src_lines = open(cache_mod.__file__).read().splitlines()
pause_line = next(i+1 for i, l in enumerate(src_lines) if "if lru_node is None" in l)
a_paused = threading.Event(); b_done = threading.Event()

def tracer(frame, event, arg):
    if frame.f_code is code:
        def local(frame, event, arg):
            if event == "line" and frame.f_lineno == pause_line and threading.current_thread().name == "A":
                a_paused.set(); b_done.wait(5)
            return local
        return local
    return None

cached_template("t1 {{ a }}"); cached_template("t2 {{ a }}")   # cache is full (size 2)
res = {}
def run_a():
    sys.settrace(tracer)
    try:
        res["a"] = cached_template("t3 {{ a }}").source
    except BaseException as e:
        res["a"] = f"ESCAPED {type(e).__name__}: {e!r}"
    sys.settrace(None)
def run_b():
    a_paused.wait(5)
    res["b"] = cached_template("t4 {{ a }}").source
    b_done.set()
ta = threading.Thread(target=run_a, name="A"); tb = threading.Thread(target=run_b, name="B")
ta.start(); tb.start(); ta.join(); tb.join()
print(res)
c = get_template_cache()
n = 0; node = c.head.next
while node is not c.tail and n < 10: n += 1; node = node.next
print("dict size", len(c.cache), "list length", n, "maxsize", c.maxsize)
