"""
C16 demo 1: the JS list of a `Media` class must not be shared (aliased) between classes.

Two components that live in different component directories declare their `Media.js` with the same
module-level list constant. Only the directory of the first one contains the file, so only there the path
is resolved relative to the component file. `Component.media` of each class must contain exactly the files
declared by that class, and must not change after the `.media` of an unrelated class was accessed.
"""
import os
import sys
import tempfile
import textwrap

ROOT = os.environ.get("DJC_ROOT", "/repo")
sys.path.insert(0, os.path.join(ROOT, "src"))
sys.path.insert(0, ROOT)

tmp = tempfile.mkdtemp(prefix="c16_t54_")
comps_root = os.path.realpath(os.path.join(tmp, "djc16comps"))
os.makedirs(os.path.join(comps_root, "alpha_pkg"))
os.makedirs(os.path.join(comps_root, "beta_pkg"))


def write(rel, content):
    with open(os.path.join(comps_root, rel), "w") as f:
        f.write(textwrap.dedent(content))


write("c16_shared_assets.py", 'COMMON_CSS = {"all": ["widget.css"]}\n')
write("alpha_pkg/__init__.py", "")
write("beta_pkg/__init__.py", "")
# Only alpha_pkg has the file next to the component
write("alpha_pkg/widget.css", "console.log('alpha widget');\n")
write(
    "alpha_pkg/alpha.py",
    """
    from django_components import Component
    from c16_shared_assets import COMMON_CSS

    class Alpha(Component):
        template = "alpha"

        class Media:
            css = COMMON_CSS
    """,
)
write(
    "beta_pkg/beta.py",
    """
    from django_components import Component
    from c16_shared_assets import COMMON_CSS

    class Beta(Component):
        template = "beta"

        class Media:
            css = COMMON_CSS
    """,
)
sys.path.insert(0, comps_root)

from tests.django_test_setup import setup_test_config  # noqa: E402

setup_test_config({"autodiscover": False, "dirs": [comps_root]})

from alpha_pkg.alpha import Alpha  # noqa: E402
from beta_pkg.beta import Beta  # noqa: E402

problems = []

# History: Beta first, then Alpha, then Beta again.
beta_first = list(Beta.media._css["all"])
alpha = list(Alpha.media._css["all"])
beta_again = list(Beta.media._css["all"])
beta_instance = list(Beta().media._css["all"])

if beta_first != ["widget.css"]:
    problems.append(f"Beta.media._js on first access = {beta_first!r}, expected ['widget.css']")
if alpha != ["alpha_pkg/widget.css"]:
    problems.append(f"Alpha.media._js = {alpha!r}, expected ['alpha_pkg/widget.css']")
if beta_again != ["widget.css"]:
    problems.append(
        f"Beta.media._js changed to {beta_again!r} after Alpha.media was accessed (was {beta_first!r});"
        " Beta declares only 'widget.css'"
    )
if beta_instance != ["widget.css"]:
    problems.append(f"Beta().media._js = {beta_instance!r}, expected ['widget.css']")

rendered = str(Beta.media)
if "alpha_pkg" in rendered:
    problems.append(f"rendered tags of Beta.media point into the other component's directory: {rendered!r}")

if problems:
    print("FAIL: " + " | ".join(problems))
    sys.exit(1)
print("PASS")
