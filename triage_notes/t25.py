"""F28 (C17): the finder's two exposure routes judge DIFFERENT strings: list() (collectstatic) matches the allow/forbid
patterns against the path relative to the component directory, find() (runserver / static view) against the absolute path.
Run: DJC_ROOT=/repo /venv/bin/python t25.py
"""
import os
import re
import sys
import tempfile
from pathlib import Path

root = os.environ.get("DJC_ROOT", "/repo")
sys.path[:0] = [root, os.path.join(root, "src")]
from tests.django_test_setup import setup_test_config  # noqa: E402

tmp = Path(tempfile.mkdtemp()) / "static.js" / "components"
(tmp / "private").mkdir(parents=True)
(tmp / "card").mkdir()
for rel in ("a.js", "private/app.js", "card/card.py", "card/card.js"):
    (tmp / rel).write_text("x")

allowed, forbidden = [".js"], [re.compile(r"^private/")]
setup_test_config({"autodiscover": False, "dirs": [str(tmp)], "app_dirs": [], "static_files_allowed": allowed, "static_files_forbidden": forbidden})
from django_components.finders import ComponentsFileSystemFinder  # noqa: E402

f = ComponentsFileSystemFinder()
listed = sorted(p for p, _s in f.list([]))
found = sorted(rel for rel in ("a.js", "private/app.js", "card/card.py", "card/card.js") if f.find(rel))
print("allowed", allowed, "forbidden", forbidden, "\n list():", listed, "\n find():", found)
ok = listed == found == ["a.js", "card/card.js"]
print("PASS" if ok else "FAIL: list() and find() expose different files")
sys.exit(0 if ok else 1)
