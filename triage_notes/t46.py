"""F50 (C06): an exception raised in on_render_after of a NESTED component is annotated with the root component only.
Run from the repo root: DJC_ROOT=<root> /venv/bin/python /verif/triage_notes/t46.py"""
import os, sys
ROOT = os.environ.get("DJC_ROOT", "/repo")
sys.path.insert(0, os.path.join(ROOT, "src")); sys.path.insert(0, ROOT)
from tests.django_test_setup import setup_test_config
setup_test_config({"autodiscover": False})
from django_components import Component, registry

class Leaf(Component):
    template = "<b>leaf</b>"
    def on_render_after(self, context, template, content):
        raise ValueError("boom-after")
class LeafT(Component):
    template = "{{ 1|add:x }}<b>leaf</b>"
    def get_context_data(self):
        raise ValueError("boom-data")
class Mid(Component):
    template = '{% load component_tags %}<i>{% component "leaf" / %}</i>'
class Page(Component):
    template = '{% load component_tags %}<p>{% component "mid" / %}</p>'
registry.clear(); registry.register("mid", Mid); registry.register("page", Page)
bad = []
for leaf, what in ((Leaf, "on_render_after"), (LeafT, "get_context_data")):
    registry.register("leaf", leaf)
    try:
        Page.render()
        bad.append(f"{what}: no error")
    except ValueError as e:
        first = str(e).splitlines()[0]
        if "Page > mid > leaf" not in first:
            bad.append(f"{what}: path in the message is {first!r}, expected '... Page > mid > leaf'")
    registry.unregister("leaf")
print("\n".join(bad) or "all as expected")
sys.exit(1 if bad else 0)
