# F18 / F19 triage (C11): positional-only name reused as **kwargs key; duplicate non-identifier keys
import sys
sys.path.insert(0, "/repo")
from tests.django_test_setup import setup_test_config
setup_test_config({"autodiscover": False})
from django.template import Template, Context, Library
from django.template.engine import Engine
from django_components import BaseNode, template_tag
from django_components.templatetags import component_tags

lib = component_tags.register
calls = []
class PNode(BaseNode):
    tag = "ptag"
    def render(self, context, a, /, **kwargs):
        calls.append(("ptag", a, kwargs)); return ""
PNode.register(lib)
class KNode(BaseNode):
    tag = "ktag"
    def render(self, context, **kwargs):
        calls.append(("ktag", kwargs)); return ""
KNode.register(lib)

def py(f, *a, **k):
    try: return ("ok", f(None, None, *a, **k))
    except TypeError as e: return ("TypeError", str(e)[:60])
def tpl(src):
    try: Template("{% load component_tags %}" + src).render(Context()); return ("ok", calls[-1])
    except Exception as e: return (type(e).__name__, str(e)[:80])

print("F18 python:", py(lambda s, c, a, /, **kw: (a, kw), 1, a=2))
print("F18 tag   :", tpl("{% ptag 1 a=2 %}"))
def kfun(s, c, **kw): return kw
try:
    eval("kfun(None, None, **{'data-x': 1}, **{'data-x': 2})")
    print("F19 python: ok")
except TypeError as e:
    print("F19 python: TypeError", str(e)[:70])
print("F19 tag   :", tpl("{% ktag data-x=1 data-x=2 %}"))
