"""F34 (C05, known finding): inject() called from a render hook (on_render_before / on_render_after) of a component that is
rendered deferred (nested in another component's template) reads self.input.context - the LIVE context of the tag, which
has already left the {% provide %} scope by the time the hook runs. In 'django' mode the provider is not found.
Run: DJC_ROOT=/repo /venv/bin/python t31.py [django|isolated]
"""
import os
import sys

root = os.environ.get("DJC_ROOT", "/repo")
sys.path[:0] = [root, os.path.join(root, "src")]
from tests.django_test_setup import setup_test_config  # noqa: E402

mode = sys.argv[1] if len(sys.argv) > 1 else "django"
setup_test_config({"autodiscover": False, "context_behavior": mode})
from django.template import Context, Template  # noqa: E402

from django_components import Component, register, types  # noqa: E402

seen = {}


@register("leaf")
class Leaf(Component):
    template: types.django_html = "<i>leaf</i>"

    def get_context_data(self):
        seen["get_context_data"] = self.inject("k", "DEFAULT")
        return {}

    def on_render_before(self, context, template):
        seen["on_render_before"] = self.inject("k", "DEFAULT")

    def on_render_after(self, context, template, html):
        seen["on_render_after"] = self.inject("k", "DEFAULT")


@register("parent")
class Parent(Component):
    template: types.django_html = "{% load component_tags %}{% provide 'k' v=1 %}{% component 'leaf' / %}{% endprovide %}"


Template("{% load component_tags %}{% component 'parent' / %}").render(Context({}))
print(mode, {k: (v if v == "DEFAULT" else tuple(v)) for k, v in seen.items()})
ok = all(v != "DEFAULT" for v in seen.values()) and len(seen) == 3
print("PASS" if ok else "FAIL: inject() inside a render hook does not see the enclosing {% provide %}")
sys.exit(0 if ok else 1)
