import sys, os, tempfile, re, signal
sys.path.insert(0, "/repo")
from pathlib import Path
tmp = tempfile.mkdtemp(prefix="triage_c17_")
comp = Path(tmp) / "components"; comp.mkdir()
(comp / "a.minXjs").write_text("x")
(comp / "ok.min.js").write_text("x")
(comp / "sub").mkdir()
(comp / "sub" / ".hidden.py").write_text("x=1")
(comp / "sub" / "mod.py").write_text("x=1")
(comp / ".hid").mkdir()
(comp / ".hid" / "m.py").write_text("x=1")
from tests.django_test_setup import setup_test_config
setup_test_config({"autodiscover": False, "dirs": [str(comp)], "static_files_allowed": [".min.js"], "static_files_forbidden": []}, extra_settings={"BASE_DIR": Path(tmp)})
from django_components.finders import ComponentsFileSystemFinder
f = ComponentsFileSystemFinder()
print("== C17 list:", sorted(p for p, s in f.list([])))
print("find a.minXjs:", f.find("a.minXjs"))
from django_components.util.loader import get_component_files
print("== C20 COMPONENTS.dirs:", sorted(e.dot_path for e in get_component_files(".py")))
