#!/venv/bin/python
"""Regenerate MANIFEST.json from the rule modules that exist (maintenance tool, not a check)."""
import importlib, json, os, sys
sys.path.insert(0, os.path.dirname(os.path.abspath(__file__)))
from djc_sa.cli import CLAIMED

NOT_APPLICABLE = [
    {"property_id": "C02", "reason": "value semantics and layout invariance of an infinite argument grammar (what each literal / filter chain / spread denotes over runtime strings and context values): no necessary structural condition exists that is not a frozen fragment of the hand-written scanner; static analysis does not apply (DESIGN.md section 5)"},
    {"property_id": "C20", "reason": "predicates on runtime directory trees (which files a glob returns, which dotted path Python would import); the only structural clause is call routing, too thin to count as a decision of the property (DESIGN.md section 5)"},
]
checks = []
missing = []
for pid in CLAIMED:
    try:
        mod = importlib.import_module(f"djc_sa.rules.{pid}")
    except ModuleNotFoundError:
        missing.append(pid)
        continue
    meta = getattr(mod, "MANIFEST", {})
    checks.append({
        "property_id": pid,
        "quick_cmd": f"./check {pid} --tier quick",
        "thorough_cmd": f"./check {pid} --tier thorough",
        "evidence_file": f"/verif/evidence/{pid}.json",
        "replay_cmd_template": f"./check {pid} --replay {{path}}",
        "engine": "djc_sa",
        "level_claimed": {
            "category": "other",
            "text": meta.get("text", "static decision of necessary structural obligations of the property on every path of the analysed functions; not a proof of the behavioural statement"),
            "design_ref": f"DESIGN.md section 3 ({pid}) and section 8 (rules added during the build, seeded-change results)",
        },
        "level_note": meta.get("note", ""),
        "technique": meta.get("technique", "static analysis (ast, CFG with exceptional edges, dataflow, call graph)"),
    })
for pid in missing:
    NOT_APPLICABLE.append({"property_id": pid, "reason": "check not built yet in this revision of /verif (claimed in DESIGN.md; will be added)"})
man = {
    "version": 1,
    "setup_cmd": "true",
    "hooks": {
        "guard": "DJC_VERIF",
        "enable": "no hooks: nothing in /repo is instrumented; the checks read the source with ast and never import or run it",
        "baseline_off_cmd": "cd /repo && /venv/bin/python -m pytest -ra -q -p no:cacheprovider --timeout=900 --continue-on-collection-errors",
        "source_commits": [],
        "add_only": True,
    },
    "engines": [{
        "name": "djc_sa",
        "path": "/verif/djc_sa",
        "serves_properties": [c["property_id"] for c in checks],
        "kind_free_text": "repository-specific static analyser in pure-stdlib Python (ast): statement CFG with exceptional edges, dominators, dataflow, resolved call graph, global-state inventory and access classification, regex-language (re._parser) and abstract string alphabets; run with /venv/bin/python; reads /repo's working tree on every run and, for a few API-contract rules, the installed Django's source (parsed, never imported)",
    }],
    "checks": checks,
    "notes": "Every check decides structural obligations that are necessary for its property (DESIGN.md section 0) and says so in evidence; exit 0 held / 1 VIOLATION / 2 ANALYSIS-ERROR (undecided, never a false alarm). Known findings (F6b C06, F33 C08, F34 C05, F41/F42 C03, F44 C10; 48 repaired findings with their fix commits): /verif/known_findings.json. Seeded breaking changes (342 confirmed, seven rounds), their blind and current outcomes: /verif/seeded/RESULTS.md and DESIGN.md section 8.4. Thorough tier = quick + informational self-test / regression replay / rename fuzz / refactor fuzz of the checker (DESIGN.md section 8.5).",
    "not_applicable": NOT_APPLICABLE,
}
json.dump(man, open(os.path.join(os.path.dirname(os.path.abspath(__file__)), "MANIFEST.json"), "w"), indent=1)
print("checks:", [c["property_id"] for c in checks], "missing:", missing)
