"""Validate MANIFEST.json and evidence/*.json against the harness schemas (run with python3-vt)."""
import json, sys, glob, jsonschema
ok = True
m = json.load(open('/verif/MANIFEST.json')) if __import__('os').path.exists('/verif/MANIFEST.json') else None
if m is not None:
    try:
        jsonschema.validate(m, json.load(open('/root/.vp/MANIFEST.schema.json'))); print('MANIFEST ok', len(m['checks']), 'checks')
    except Exception as e:
        ok = False; print('MANIFEST INVALID', e)
sch = json.load(open('/root/.vp/EVIDENCE.schema.json'))
for p in sorted(glob.glob('/verif/evidence/*.json')):
    try:
        jsonschema.validate(json.load(open(p)), sch); print('ok', p)
    except Exception as e:
        ok = False; print('INVALID', p, str(e)[:300])
sys.exit(0 if ok else 1)
