#!/venv/bin/python
"""Maintenance tool for /verif/seeded (not a registered check).

  tools_seed.py import <worktree> <PROP>     verify every <worktree>/mutants/<k> in a scratch worktree (suite passes with
                                             the patch, demo fails with it and passes without) and copy it to seeded/<PROP>-<k>
  tools_seed.py run [<id> ...] [--all-checks] apply each seeded patch to /repo, run the property's quick check, undo; print a table
"""
import json
import os
import re
import shutil
import subprocess
import sys

VERIF = os.path.dirname(os.path.abspath(__file__))
SEEDED = os.path.join(VERIF, "seeded")
SCRATCH = "/tmp/verify-wt"
SUITE = "/venv/bin/python -m pytest -q -p no:cacheprovider --deselect tests/test_dependency_manager.py --deselect tests/test_dependency_rendering_e2e.py -x"


def sh(cmd, cwd=None, env=None, timeout=900):
    e = dict(os.environ)
    if env:
        e.update(env)
    p = subprocess.run(cmd, shell=True, cwd=cwd, env=e, capture_output=True, text=True, timeout=timeout)
    return p.returncode, (p.stdout + p.stderr)


def scratch():
    if os.path.isdir(SCRATCH):
        sh(f"git -C /repo worktree remove --force {SCRATCH}")
        shutil.rmtree(SCRATCH, ignore_errors=True)
    rc, out = sh(f"git -C /repo worktree add -q --detach {SCRATCH} HEAD")
    assert rc == 0, out


def drop_scratch():
    sh(f"git -C /repo worktree remove --force {SCRATCH}")
    shutil.rmtree(SCRATCH, ignore_errors=True)
    sh("git -C /repo worktree prune")


def do_import(wt, prop, tag=""):
    mdir = os.path.join(wt, "mutants")
    scratch()
    env = {"PYTHONPATH": f"{SCRATCH}/src", "DJC_ROOT": SCRATCH}
    try:
        for k in sorted(os.listdir(mdir)):
            d = os.path.join(mdir, k)
            patch = os.path.join(d, "patch.diff")
            demo = os.path.join(d, "demo.py")
            if not (os.path.isfile(patch) and os.path.isfile(demo)):
                continue
            sid = f"{prop}-{tag}{k}"
            res = {}
            sh("git checkout -q -- . && git clean -fdq src", cwd=SCRATCH)
            rc, out = sh(f"/venv/bin/python {demo}", cwd=SCRATCH, env=env, timeout=180)
            res["demo_clean"] = {"rc": rc, "tail": out.strip().splitlines()[-1:] }
            rc, out = sh(f"git apply {patch}", cwd=SCRATCH)
            if rc != 0:
                # the base moved on (a later fix commit): try a 3-way merge and keep the regenerated patch
                rc, out = sh(f"git apply --3way {patch}", cwd=SCRATCH)
                if rc == 0 and "conflict" in out.lower():
                    rc = 1
                    sh("git checkout -q -- . && git reset -q", cwd=SCRATCH)
                if rc == 0:
                    sh("git reset -q", cwd=SCRATCH)
                    rc2, newp = sh("git diff", cwd=SCRATCH)
                    open(patch, "w").write(newp)
                    res["rebased_3way"] = True
            if rc != 0:
                print(sid, "PATCH DOES NOT APPLY", out[:200])
                continue
            rc, out = sh("/venv/bin/python -c 'import django_components'", cwd=SCRATCH, env=env)
            res["imports"] = rc == 0
            rc, out = sh(SUITE, cwd=SCRATCH, env=env)
            res["suite_with_patch"] = {"rc": rc, "tail": out.strip().splitlines()[-1:]}
            rc, out = sh(f"/venv/bin/python {demo}", cwd=SCRATCH, env=env, timeout=180)
            res["demo_patched"] = {"rc": rc, "tail": out.strip().splitlines()[-1:]}
            sh("git checkout -q -- . && git clean -fdq src", cwd=SCRATCH)
            ok = res["demo_clean"]["rc"] == 0 and res["imports"] and res["suite_with_patch"]["rc"] == 0 and res["demo_patched"]["rc"] != 0
            print(sid, "CONFIRMED" if ok else "REJECTED", json.dumps(res)[:400])
            if ok:
                dst = os.path.join(SEEDED, sid)
                os.makedirs(dst, exist_ok=True)
                shutil.copy(patch, os.path.join(dst, "patch.diff"))
                txt = open(demo).read().replace(wt, "/repo")
                open(os.path.join(dst, "demo.py"), "w").write(txt)
                meta = {}
                mp = os.path.join(d, "meta.json")
                if os.path.isfile(mp):
                    try:
                        meta = json.load(open(mp))
                    except Exception:
                        meta = {"raw": open(mp).read()}
                meta["property"] = prop
                meta["confirmed_by_me"] = {
                    "how": "scratch worktree of /repo HEAD: demo on clean tree, git apply, import, fast suite (514), demo with patch",
                    "suite_cmd": SUITE, **res,
                }
                json.dump(meta, open(os.path.join(dst, "meta.json"), "w"), indent=1)
    finally:
        drop_scratch()


def do_run(ids, all_checks=False):
    rows = []
    for sid in sorted(os.listdir(SEEDED)):
        d = os.path.join(SEEDED, sid)
        if not os.path.isdir(d) or (ids and sid not in ids):
            continue
        prop = sid.split("-")[0]
        rc, out = sh("git -C /repo status --porcelain")
        assert out.strip() == "", "repo not clean: " + out
        rc, out = sh(f"git -C /repo apply {d}/patch.diff")
        if rc != 0:
            rows.append((sid, "patch does not apply", ""))
            continue
        try:
            props = [prop]
            if all_checks:
                from djc_sa.cli import CLAIMED
                props = CLAIMED
            hits = []
            for p in props:
                rc, out = sh(f"./check {p} --no-write", cwd=VERIF)
                if rc != 0:
                    firsts = [l.strip() for l in out.splitlines() if l.strip().startswith(p + "-") or "ANALYSIS-ERROR" in l]
                    hits.append((p, rc, firsts[:2]))
            rows.append((sid, "DETECTED" if any(h[1] == 1 for h in hits) else ("exit2" if hits else "missed"), hits))
        finally:
            sh("git -C /repo checkout -q -- .")
    for r in rows:
        print(r[0], r[1], json.dumps(r[2])[:600])
    print("detected", sum(1 for r in rows if r[1] == "DETECTED"), "of", len(rows))


def do_first(ids):
    """Record the outcome of the property's check at the moment a seeded change is first seen (blind result): applied in
    memory, nothing in /repo is touched. Never overwrites an existing record."""
    sys.path.insert(0, VERIF)
    from djc_sa.selftest import _seeded

    rc, head = sh("git rev-parse --short HEAD", cwd=VERIF)
    rc, dirty = sh("git status --porcelain djc_sa", cwd=VERIF)
    for sid in sorted(os.listdir(SEEDED)):
        mp = os.path.join(SEEDED, sid, "meta.json")
        if not os.path.isfile(mp) or (ids and sid not in ids and not any(sid.startswith(i) for i in ids)):
            continue
        meta = json.load(open(mp))
        if "first_outcome" in meta:
            print(sid, "already recorded", meta["first_outcome"].get("result"))
            continue
        r = _seeded(("/repo", sid))
        meta["first_outcome"] = {"result": "detected" if r.get("exit") == 1 else ("analysis-error" if r.get("exit") == 2 else "missed"), "exit": r.get("exit"), "fired": r.get("fired"),
                                 "verif_commit": head.strip() + ("+dirty" if dirty.strip() else ""), "note": "check run before any rule was written or changed in response to this change"}
        json.dump(meta, open(mp, "w"), indent=1)
        print(sid, meta["first_outcome"]["result"], r.get("fired"))


def do_cross(ids):
    """Which OTHER properties' checks report a seeded change (applied in memory)."""
    sys.path.insert(0, VERIF)
    from djc_sa.cli import CLAIMED
    from djc_sa.selftest import _run, apply_unified_diff
    from djc_sa.source import Project

    for sid in sorted(os.listdir(SEEDED)):
        if not any(sid == i or sid.startswith(i) for i in ids):
            continue
        files = Project.read_files("/repo")
        why = apply_unified_diff(files, open(os.path.join(SEEDED, sid, "patch.diff")).read())
        if why:
            print(sid, "does not apply:", why)
            continue
        proj = Project("/repo", files, "overlay")
        hits = []
        for p in CLAIMED:
            code, fired = _run(p, proj)
            if code != 0:
                hits.append((p, code, fired))
        print(sid, hits)


def do_report():
    """Write seeded/RESULTS.md: every seeded change, its blind (first) outcome and the rule(s) that report it today."""
    sys.path.insert(0, VERIF)
    from concurrent.futures import ProcessPoolExecutor

    from djc_sa.selftest import _seeded

    ids = [d for d in sorted(os.listdir(SEEDED)) if os.path.isfile(os.path.join(SEEDED, d, "patch.diff"))]
    with ProcessPoolExecutor(max_workers=12) as ex:
        res = list(ex.map(_seeded, [("/repo", sid) for sid in ids]))
    rows = []
    stats = {}
    for sid, r in zip(ids, res):
        meta = json.load(open(os.path.join(SEEDED, sid, "meta.json")))
        _m = re.search(r"-r(\d+)-", sid)
        rnd = _m.group(1) if _m else "1"
        fo = meta.get("first_outcome") or meta.get("first_recorded_outcome") or {}
        blind = fo.get("result", "n/a")
        if rnd == "1":
            blind = "n/a (informed the rules)"
        summ = meta.get("summary") or meta.get("description") or ""
        if isinstance(summ, dict):
            summ = json.dumps(summ)
        summ = " ".join(str(summ).split())[:150].replace("|", "/")
        fired = ", ".join(r.get("fired") or []) or "-"
        now = {1: "reported", 0: "MISSED", 2: "analysis-error"}.get(r.get("exit"), r.get("result"))
        rows.append(f"| {sid} | {rnd} | {blind} | {now} | {fired} | {summ} |")
        st = stats.setdefault(rnd, {"n": 0, "blind": 0, "now": 0})
        st["n"] += 1
        st["blind"] += 1 if blind == "detected" or blind == "DETECTED" else 0
        st["now"] += 1 if r.get("exit") == 1 else 0
    obs = sorted(os.listdir(os.path.join(VERIF, "seeded_obsolete"))) if os.path.isdir(os.path.join(VERIF, "seeded_obsolete")) else []
    with open(os.path.join(SEEDED, "RESULTS.md"), "w") as f:
        f.write("# Seeded changes: blind outcome and current outcome\n\n")
        f.write("Generated by `tools_seed.py report` (patches applied in memory to /repo's current sources; nothing is written to /repo).\n")
        f.write("`blind` = outcome of the property's check when the change was first seen, before any rule was written or changed in response to it ")
        f.write("(round 1 was produced while the rules were being written and has no blind measurement; round-2 values are the first outcome found in the session log).\n\n")
        for rnd in sorted(stats, key=int):
            st = stats[rnd]
            f.write(f"- round {rnd}: {st['n']} confirmed changes; blind detected {st['blind'] if rnd != '1' else 'n/a'}; reported today {st['now']}\n")
        f.write(f"- {len(obs)} former seeded changes became behaviour-preserving after a later fix (kept as must-stay-silent variants) or lost the statement they edited (kept for the record): {', '.join(obs)}\n")
        f.write("\n| id | round | blind | today | rule(s) | change |\n|---|---|---|---|---|---|\n")
        f.write("\n".join(rows) + "\n")
    print(json.dumps(stats))


if __name__ == "__main__":
    if sys.argv[1] == "report":
        do_report()
    elif sys.argv[1] == "cross":
        do_cross(sys.argv[2:])
    elif sys.argv[1] == "first":
        do_first(sys.argv[2:])
    elif sys.argv[1] == "import":
        do_import(sys.argv[2], sys.argv[3], sys.argv[4] if len(sys.argv) > 4 else "")
    elif sys.argv[1] == "run":
        a = [x for x in sys.argv[2:] if not x.startswith("--")]
        do_run(a, "--all-checks" in sys.argv)
