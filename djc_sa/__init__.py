"""djc_sa — repository-specific static analysis of django-components (properties C01..C20).

Everything here inspects source text of /repo (or an in-memory overlay of it) through `ast`;
nothing from the analysed package is imported or executed.
"""
