"""Both-ways self-test of the checkers (DESIGN.md section 6, Appendix B).

Variants are single text edits of the CURRENT sources, held in memory (Project overlay) -- nothing is written to
/repo. A *breaking* variant must make the property's check report a violation (of the named rule); a *preserving*
variant (behaviour-neutral rewrite) must leave the verdict unchanged (exit 0). In addition the historic revision the
fixes started from must still show the findings that were repaired. A variant whose anchor text is not present any
more is reported as skipped. The self-test never influences a check's exit code.
"""
from __future__ import annotations

import importlib
import json
import os
import sys
import time
from concurrent.futures import ProcessPoolExecutor
from typing import Any, Dict, List, Optional, Tuple

from .report import Check, run_guarded
from .source import PKG_REL, AnalysisError, Project

PRISTINE = "253591f"
S = PKG_REL + "/"

# (property, name, kind, file, find, replace, expected rule substring or None)
V: List[Tuple[str, str, str, str, Any, Any, Optional[str]]] = [
    # ---- C01
    ("C01", "key override unconditional again", "breaking", S + "slots.py", "            slot_fill.is_filled\n            and component_ctx.registry.settings.context_behavior == ContextBehavior.DJANGO", "            component_ctx.registry.settings.context_behavior == ContextBehavior.DJANGO", "S1"),
    ("C01", "default key without the default flag", "breaking", S + "slots.py", "        if is_default and DEFAULT_SLOT_KEY in slot_fills:", "        if DEFAULT_SLOT_KEY in slot_fills:", "S2"),
    ("C01", "required check only warns", "breaking", S + "slots.py", "                    msg += f\"\\nDid you mean '{fuzzy_fill_name_matches[0]}'?\"\n            raise TemplateSyntaxError(msg)", "                    msg += f\"\\nDid you mean '{fuzzy_fill_name_matches[0]}'?\"\n            print(msg)", "S3"),
    ("C01", "is_filled from another dict", "breaking", S + "component.py", "            is_filled = SlotIsFilled(slots_untyped)", "            is_filled = SlotIsFilled(slots or {})", "S4"),
    ("C01", "dynamic component drops slots", "breaking", S + "components/dynamic.py", "            slots=self.input.slots,\n", "", "S5"),
    ("C01", "rename local in SlotNode.render", "preserving", S + "slots.py", "slot_ref = SlotRef(self, context)", "slot_ref = SlotRef(self, context)  # reference for {{ default }}", None),
    # ---- C03
    ("C03", "only-flag disjunct removed", "breaking", S + "component.py", "        if self.flags[COMP_ONLY_FLAG] or self.registry.settings.context_behavior == ContextBehavior.ISOLATED:", "        if self.registry.settings.context_behavior == ContextBehavior.ISOLATED:", "S1"),
    ("C03", "request copied into isolated context", "breaking", S + "context.py", "    # Make inject/provide to work in isolated mode\n", "    context_copy[\"request\"] = context.get(\"request\")\n    # Make inject/provide to work in isolated mode\n", "S2"),
    ("C03", "live context handed to the renderer", "breaking", S + "component.py", "            context=context_snapshot,\n            metadata=metadata,", "            context=context,\n            metadata=metadata,", "S5"),
    ("C03", "render_context pop deleted", "breaking", S + "component.py", "        # Cleanup\n        context.render_context.pop()\n", "        # Cleanup\n", "S3"),
    ("C03", "isolated fills rendered in current context", "breaking", S + "slots.py", "            return outer_context if outer_context is not None else Context()", "            return context", "S4"),
    ("C03", "comment added in make_isolated_context_copy", "preserving", S + "context.py", "    context_copy = context.new()\n", "    context_copy = context.new()  # fresh, empty context\n", None),
    # ---- C04
    ("C04", "reader class narrowed", "breaking", S + "dependencies.py", "(?P<data>[\\w\\-,/]+?)", "(?P<data>[a-z,]+?)", "S1"),
    ("C04", "fifth marker field in the writer only", "breaking", S + "dependencies.py", "{css_input_hash or ''}\"\n", "{css_input_hash or ''},x\"\n", "S1"),
    ("C04", "placeholder id attribute at most once", "breaking", S + "dependencies.py", "MAYBE_COMP_ATTRS = r'(?: data-djc-(?:id|css)-\\w{6}=\"\")*'", "MAYBE_COMP_ATTRS = r'(?: data-djc-(?:id|css)-\\w{6}=\"\")?'", "S1"),
    ("C04", "class name not sanitised", "breaking", S + "util/misc.py", "    safe_name = re.sub(r\"[^A-Za-z0-9_]\", \"_\", comp_cls.__name__)", "    safe_name = comp_cls.__name__", "S1"),
    ("C04", "placeholder substitution skipped for fragments", "breaking", S + "dependencies.py", "    content_ = PLACEHOLDER_REGEX.sub(on_replace_match, content_)\n", "    if type == \"document\":\n        content_ = PLACEHOLDER_REGEX.sub(on_replace_match, content_)\n", "S2"),
    ("C04", "all known classes contribute", "breaking", S + "dependencies.py", "    seen_comp_hashes: Set[str] = set()\n", "    seen_comp_hashes: Set[str] = set()\n    _all = list(comp_hash_mapping.keys())\n", "S3"),
    ("C04", "dedupe guard deleted", "breaking", S + "dependencies.py", "        if comp_cls_hash in seen_comp_hashes:\n            continue\n", "", "S4"),
    ("C04", "group renamed in reader (unused name)", "preserving", S + "dependencies.py", "rb\"<!--\\s+_RENDERED\\s+(?P<data>", "rb\"<!--\\s+_RENDERED\\s+(?P<data>", None),
    ("C04", "hash prefix computed via temp", "preserving", S + "util/misc.py", "    comp_cls_hash = md5(full_name.encode()).hexdigest()[0:6]", "    digest = md5(full_name.encode()).hexdigest()\n    comp_cls_hash = digest[0:6]", None),
    # ---- C05
    ("C05", "forwarding loop deleted in context.py", "breaking", S + "context.py", "        if key.startswith(_INJECT_CONTEXT_KEY_PREFIX):\n            context_copy[key] = context[key]\n", "        pass\n", "S1"),
    ("C05", "kwargs pushed to the template context", "breaking", S + "provide.py", "        with context.update({}):", "        with context.update(kwargs):", "S4"),
    ("C05", "provider's own reference dropped", "breaking", S + "perfutil/provide.py", "    provide_references.setdefault(provide_id, set()).add(provide_id)\n", "", "S2"),
    ("C05", "default returned before the lookup", "breaking", S + "provide.py", "    # Return provided value if found\n    if internal_key in context:", "    if default is not None:\n        return default\n    # Return provided value if found\n    if internal_key in context:", "S5"),
    ("C05", "component reference not released on error", "breaking", S + "component.py", "            component_context_cache.pop(render_id, None)\n            unregister_provide_reference(render_id)\n            raise", "            component_context_cache.pop(render_id, None)\n            raise", "S3"),
    ("C05", "internal key inlined", "preserving", S + "provide.py", "    cache_key = context[internal_key]\n        return provide_cache[cache_key]", "    cache_key = context[internal_key]\n        return provide_cache[cache_key]", None),
    # ---- C06
    ("C06", "release in _render_impl handler deleted", "breaking", S + "component.py", "            component_context_cache.pop(render_id, None)\n            unregister_provide_reference(render_id)\n            raise", "            unregister_provide_reference(render_id)\n            raise", "S1a"),
    ("C06", "tree handler does not release renderer cache", "breaking", S + "perfutil/component.py", "            component_renderer_cache.pop(component_id, None)\n", "", "S1c"),
    ("C06", "metadata pop out of finally", "breaking", S + "component.py", "        try:\n            yield\n        finally:\n            self._metadata_stack.pop()", "        yield\n        self._metadata_stack.pop()", "S2a"),
    ("C06", "new per-render global without release", "breaking", S + "perfutil/component.py", ("component_renderer_cache: Dict[str, Tuple[ComponentRenderer, str]] = {}\n", "    component_renderer_cache[render_id] = (renderer, component_name)\n"), ("component_renderer_cache: Dict[str, Tuple[ComponentRenderer, str]] = {}\n_dbg_seen: Dict[str, str] = {}\n", "    component_renderer_cache[render_id] = (renderer, component_name)\n    _dbg_seen[render_id] = component_name\n"), "S0"),
    ("C06", "exception swallowed in _render", "breaking", S + "component.py", "            except Exception as err:\n                raise err from None", "            except Exception as err:\n                return \"\"", "S3"),
    ("C06", "payload used without str()", "breaking", S + "util/exception.py", "            orig_msg = str(err.args[0])\n", "            orig_msg = err.args[0]\n", "S3"),
    ("C06", "sweep back in the except handler only", "breaking", S + "perfutil/component.py", "        output = _render_component_tree(render_id, on_component_rendered_callbacks)\n    finally:", "        output = _render_component_tree(render_id, on_component_rendered_callbacks)\n    except Exception:", "S1c"),
    ("C06", "normal-path release made conditional (harmless since the sweep runs in finally, F47)", "preserving", S + "component.py", "            component_context_cache.pop(render_id, None)  # type: ignore[arg-type]\n            unregister_provide_reference(render_id)  # type: ignore[arg-type]", "            if html:\n                component_context_cache.pop(render_id, None)  # type: ignore[arg-type]\n            unregister_provide_reference(render_id)  # type: ignore[arg-type]", None),
    ("C06", "two releases swapped", "preserving", S + "component.py", "            component_context_cache.pop(render_id, None)\n            unregister_provide_reference(render_id)\n            raise", "            unregister_provide_reference(render_id)\n            component_context_cache.pop(render_id, None)\n            raise", None),
    # ---- C07
    ("C07", "live iteration of a registry on a render path", "breaking", S + "perfutil/provide.py", "    all_reference_ids.add(reference_id)\n", "    all_reference_ids.add(reference_id)\n    _n = len([k for k in provide_references])\n", "S1-W"),
    ("C07", "lock removed from LRUCache.set", "breaking", S + "util/cache.py", "        with self._lock:\n            self._set(key, value)", "        self._set(key, value)", "S1-M"),
    ("C07", "provide_cache cleared on error", "breaking", S + "perfutil/provide.py", "        # Cleanup\n        cache_cleanup()\n        # Forward the error", "        provide_cache.clear()\n        # Cleanup\n        cache_cleanup()\n        # Forward the error", "S1-W"),
    ("C07", "raw index after snapshot iteration", "breaking", S + "perfutil/provide.py", "        references = provide_references.get(provide_id)\n        if references is None or reference_id not in references:\n            continue\n\n        references.discard(reference_id)", "        references = provide_references[provide_id]\n        if references is None or reference_id not in references:\n            continue\n\n        references.discard(reference_id)", "S1-W"),
    ("C07", "ready flag published first", "breaking", S + "util/tag_parser.py", "        if self.compiled:\n            return\n", "        if self.compiled:\n            return\n        self.compiled = True\n", "S1-A1"),
    ("C07", "point lookup with a fresh id added", "preserving", S + "perfutil/component.py", "    component_renderer_cache[render_id] = (renderer, component_name)\n", "    component_renderer_cache[render_id] = (renderer, component_name)\n    _present = render_id in component_renderer_cache\n", None),
    # ---- C08
    ("C08", "offset unconditional again", "breaking", S + "dependencies.py", "        if last_end_body_tag_index is not None and first_end_head_tag_index < last_end_body_tag_index:\n            index_offset = len(css_content)", "        index_offset = len(css_content)", "S1"),
    ("C08", "is-None guard moved to the body index", "breaking", S + "dependencies.py", "            if js_content is not None:\n                last_end_body_tag_index = match.start()", "            if js_content is not None and last_end_body_tag_index is None:\n                last_end_body_tag_index = match.start()", "S2"),
    ("C08", "document stripped", "breaking", S + "dependencies.py", "    # Return the same type as we were given\n", "    content_ = content_.strip()\n    # Return the same type as we were given\n", "S4"),
    ("C08", "streaming test dropped", "breaking", S + "dependencies.py", "        if not isinstance(response, StreamingHttpResponse) and response.get(\"Content-Type\", \"\").startswith(", "        if response.get(\"Content-Type\", \"\").startswith(", "S5"),
    ("C08", "bytes decoded for every input", "breaking", S + "dependencies.py", "    output = content_.decode() if isinstance(content, str) else content_", "    output = content_.decode()", "S3"),
    ("C08", "comment in insertion helper", "preserving", S + "dependencies.py", "    index_offset = 0\n    updated_html = html_content", "    index_offset = 0  # how far the JS position moved\n    updated_html = html_content", None),
    # ---- C09
    ("C09", "line offset accumulated again", "breaking", S + "util/template_parser.py", "            lineno_offset = (\n", "            lineno_offset += (\n", "S1"),
    ("C09", "newlines counted on contents", "breaking", S + "util/template_parser.py", "                + text[broken_token_start:index_start].count(\"\\n\")", "                + fixed_token.contents.count(\"\\n\")", "S2"),
    ("C09", "position not shifted by origin", "breaking", S + "util/template_parser.py", "            token.position = (token.position[0] + index_start, token.position[1] + index_start)", "            token.position = (token.position[0], token.position[1] + index_start)", "S1"),
    ("C09", "hand-over widened to VAR tokens", "breaking", S + "util/template_parser.py", "            if token.token_type == TokenType.BLOCK and (\"'\" in token.contents or '\"' in token.contents):", "            if token.token_type in (TokenType.BLOCK, TokenType.VAR) and (\"'\" in token.contents or '\"' in token.contents):", "S4"),
    ("C09", "percent skipped to next quote again", "breaking", S + "util/template_parser.py", "                result_content.append(take_char())\n                continue", "                content = take_until_any(QUOTE_CHARS)\n                result_content.append(content)\n                continue", "S5"),
    ("C09", "span count via temp", "preserving", S + "util/template_parser.py", "            resolved_tokens.append(fixed_token)\n", "            resolved_tokens.append(fixed_token)  # the repaired BLOCK token\n", None),
    # ---- C10
    ("C10", "extra statement in patched render", "breaking", S + "util/django_monkeypatch.py", "            if context.template is None:\n                with context.bind_template(self):", "            context.autoescape = True\n            if context.template is None:\n                with context.bind_template(self):", "S1"),
    ("C10", "isolated_context defaults False", "breaking", S + "util/django_monkeypatch.py", "        if not hasattr(self, \"_djc_is_component_nested\"):\n            isolated_context = True", "        if not hasattr(self, \"_djc_is_component_nested\"):\n            isolated_context = False", None),
    ("C10", "new patch point on Template", "breaking", S + "util/django_monkeypatch.py", "    template_cls._djc_patched = True\n", "    template_cls._djc_patched = True\n    template_cls.get_exception_info = lambda self, e, t: {}\n", "S4"),
    ("C10", "tag_re recompiled unconditionally", "breaking", S + "apps.py", "        if app_settings.MULTILINE_TAGS:\n", "        if True:\n", "S4"),
    ("C10", "comment in patch", "preserving", S + "util/django_monkeypatch.py", "        tokens = parse_template(self.source)\n", "        tokens = parse_template(self.source)  # quote-aware lexer\n", None),
    # ---- C11
    ("C11", "raise deleted in one validator only", "breaking", S + "util/template_tag.py", "            if not has_var_keyword and param.key not in valid_params:\n                raise TypeError(f\"got an unexpected keyword argument '{param.key}'\")\n", "", "S1"),
    ("C11", "positional-only ignored again (code path)", "breaking", S + "util/template_tag.py", "            elif i >= posonly_count and len(validated_args) <= i:", "            elif len(validated_args) <= i:", "S2"),
    ("C11", "kwargs mutated after validation", "breaking", S + "node.py", "            output = orig_render(self, context, *args, **kwargs)", "            kwargs = {**kwargs}\n            output = orig_render(self, context, *args, **kwargs)", "S4"),
    ("C11", "ValueError from validator", "breaking", S + "util/template_tag.py", "                raise TypeError(\"positional argument follows keyword argument\")\n\n            # Only check position limit for non-variadic functions\n            if not has_var_positional and next_positional_index >= max_positional_index:", "                raise ValueError(\"positional argument follows keyword argument\")\n\n            # Only check position limit for non-variadic functions\n            if not has_var_positional and next_positional_index >= max_positional_index:", None),
    ("C11", "blank line / comment in validator", "preserving", S + "util/template_tag.py", "    seen_kwargs = False  # To detect positional args after kwargs\n", "    seen_kwargs = False  # To detect positional args after kwargs (order matters)\n", None),
    # ---- C12
    ("C12", "taken_n(1) deleted in the comma branch", "breaking", S + "util/tag_parser.py", "                taken_n(1)  # ,\n", "", "S1"),
    ("C12", "ValueError in the scanner", "breaking", S + "util/tag_parser.py", "                    raise TemplateSyntaxError(\"Unexpected comma\")", "                    raise ValueError(\"Unexpected comma\")", "S2a"),
    ("C12", "depth limit removed", "breaking", S + "util/tag_parser.py", "            if len(stack) > MAX_NESTING_DEPTH:\n                raise TemplateSyntaxError(f\"Lists and dicts cannot be nested more than {MAX_NESTING_DEPTH} levels deep\")\n", "", "S3"),
    ("C12", "cubic regex again", "breaking", S + "expression.py", "    r\"{var_tag}|{block_tag}|{comment_tag}\".format(", "    r\"^.*?(?:{var_tag}|{block_tag}|{comment_tag}).*?x$\".format(", "S4"),
    ("C12", "scanner also stops at braces", "breaking", S + "util/template_parser.py", "    QUOTE_OR_PERCENT = (*QUOTE_CHARS, \"%\")", "    QUOTE_OR_PERCENT = (*QUOTE_CHARS, \"%\", \"{\")", "S1"),
    ("C12", "whitespace skip duplicated", "preserving", S + "util/tag_parser.py", "    while not is_at_end():\n        # Skip whitespace\n        take_while(TAG_WHITESPACE)\n", "    while not is_at_end():\n        # Skip whitespace\n        take_while(TAG_WHITESPACE)\n        take_while(TAG_WHITESPACE)\n", None),
    # ---- C13
    ("C08", "end-tag scanner case-sensitive again", "breaking", S + "dependencies.py", "re.DOTALL | re.IGNORECASE)", "re.DOTALL)", "S8"),
    ("C08", "tag name compared as written", "breaking", S + "dependencies.py", "        tag_name = match[0][2:6].lower()", "        tag_name = match[0][2:6]", "S8"),
    ("C08", "inline (?i) instead of the flag", "preserving", S + "dependencies.py", 'head_or_body_end_tag_re = re.compile(r"<\\/(?:head|body)\\s*>", re.DOTALL | re.IGNORECASE)', 'head_or_body_end_tag_re = re.compile(r"(?i)<\\/(?:head|body)\\s*>", re.DOTALL)', None),
    ("C13", "bare key appended after the name guard", "preserving", S + "attributes.py", "            attr_list.append(conditional_escape(key))", "            attr_list.append(key)", None),
    ("C13", "name guard removed", "breaking", S + "attributes.py", "        if _INVALID_ATTR_NAME_RE.search(str(key)):", "        if False and _INVALID_ATTR_NAME_RE.search(str(key)):", "S1"),
    ("C13", "format_html replaced by f-string", "breaking", S + "attributes.py", "            attr_list.append(format_html('{}=\"{}\"', key, value))", "            attr_list.append(f'{key}=\"{value}\"')", "S1"),
    ("C13", "merge order swapped", "breaking", S + "attributes.py", "        final_attrs.update(defaults or {})\n        final_attrs.update(attrs or {})", "        final_attrs.update(attrs or {})\n        final_attrs.update(defaults or {})", "S3"),
    ("C13", "lower() removed from js guard", "breaking", S + "dependencies.py", "    if \"</script\" in content.lower():", "    if \"</script\" in content:", "S4"),
    ("C13", "slot marked not escaped", "breaking", S + "component.py", "                nodelist=used_nodelist,\n                escaped=True,", "                nodelist=used_nodelist,\n                escaped=False,", "S2"),
    ("C13", "name guard forgets '='", "breaking", S + "attributes.py", "[\\s\\\"'<>/=\\x00]", "[\\s\\\"'<>/\\x00]", "S1"),
    ("C13", "name guard as character class with \\t\\n spelled out", "preserving", S + "attributes.py", "[\\s\\\"'<>/=\\x00]", "[ \\t\\n\\r\\f\\v\\\"'<>/=\\x00&]", None),
    ("C13", "casefold instead of lower", "preserving", S + "dependencies.py", "    if \"</style\" in content.lower():", "    if \"</style\" in content.casefold():", None),
    # ---- C14
    ("C14", "second gen_id for the attribute", "breaking", S + "component.py", "                component_id=render_id,\n                css_input_hash=css_input_hash,", "                component_id=gen_id(),\n                css_input_hash=css_input_hash,", "S1"),
    ("C14", "reader expects 5 chars", "breaking", S + "perfutil/component.py", "render_id_pattern = re.compile(r'djc-render-id=\"(?P<render_id>\\w{6})\"')", "render_id_pattern = re.compile(r'djc-render-id=\"(?P<render_id>\\w{5})\"')", "S2"),
    ("C14", "queue loop also for nested components", "breaking", S + "perfutil/component.py", "    if parent_id is not None:\n        # Case: Nested component", "    if False and parent_id is not None:\n        # Case: Nested component", "S4"),
    ("C14", "comment", "preserving", S + "perfutil/component.py", "    if parent_id is not None:\n        # Case: Nested component", "    if parent_id is not None:\n        # Case: Nested component (placeholder only)", None),
    # ---- C15
    ("C15", "tag set not updated on unregister", "breaking", S + "component_registry.py", "        self._tags[tag].remove(name)\n", "", "S2"),
    ("C15", "protected guard removed in unregister", "breaking", S + "component_registry.py", "        if not is_protected:\n            # Unregister the tag from library if this was the last component using this tag\n            if is_tag_empty", "        if True:\n            # Unregister the tag from library if this was the last component using this tag\n            if is_tag_empty", "S2"),
    ("C15", "registry written before conflict test", "breaking", S + "component_registry.py", "        existing_component = self._registry.get(name)\n", "        existing_component = self._registry.get(name)\n        self._tags.setdefault(\"x\", set())\n", "S3"),
    ("C15", "built-in tag not protected", "breaking", S + "library.py", "    \"html_attrs\",\n", "", "S4"),
    ("C15", "final writes of register reordered", "preserving", S + "component_registry.py", "        self._tags[tag].add(name)\n\n        self._registry[name] = entry", "        self._registry[name] = entry\n\n        self._tags[tag].add(name)", None),
    # ---- C16
    ("C16", "css removed from exclusivity loop", "breaking", S + "component_media.py", "        for inlined_attr in (\"template\", \"js\", \"css\"):", "        for inlined_attr in (\"template\", \"js\"):", "S1"),
    ("C16", "memo written before bases are resolved", "breaking", S + "component_media.py", "        if unresolved_bases:\n", "        if False and unresolved_bases:\n", "S2"),
    ("C16", "memo depends on the requested class", "breaking", S + "component_media.py", "        media_cls = getattr(curr_cls, \"media_class\", MediaCls)", "        media_cls = getattr(comp_cls, \"media_class\", MediaCls)", "S2"),
    ("C16", "extend False treated like True", "breaking", S + "component_media.py", "        elif media_extend is False:\n            bases = tuple()", "        elif media_extend is False:\n            bases = curr_cls.__bases__", "S3"),
    ("C16", "comment", "preserving", S + "component_media.py", "        if unresolved_bases:\n", "        if unresolved_bases:  # come back after the bases\n", None),
    # ---- C17
    ("C17", "re.escape dropped", "breaking", S + "finders.py", "            re.compile(re.escape(p) + r\"\\Z\") if isinstance(p, str) else p\n            for p in app_settings.STATIC_FILES_ALLOWED", "            re.compile(p + r\"\\Z\") if isinstance(p, str) else p\n            for p in app_settings.STATIC_FILES_ALLOWED", "S1"),
    ("C17", "or instead of and", "breaking", S + "finders.py", "        return any_regex_match(path, allowed_patterns) and no_regex_match(path, forbidden_patterns)", "        return any_regex_match(path, allowed_patterns) or no_regex_match(path, forbidden_patterns)", "S3"),
    ("C17", "filter removed from list()", "breaking", S + "finders.py", "                    if self._is_path_valid(path):\n                        yield path, storage", "                    if True:\n                        yield path, storage", "S2"),
    ("C17", "safe_join deleted", "breaking", S + "finders.py", "        abs_path = safe_join(root, path)\n", "        abs_path = os.path.join(root, path)\n", "S2"),
    ("C17", ".py allowed by default", "breaking", S + "app_settings.py", "        \".css\",\n        \".js\", \".jsx\", \".ts\", \".tsx\",", "        \".css\", \".py\",\n        \".js\", \".jsx\", \".ts\", \".tsx\",", "S4"),
    ("C17", "pattern compilation via helper variable", "preserving", S + "finders.py", "        # Normalize patterns to regexes\n", "        # Normalize patterns (suffixes) to regexes\n", None),
    # ---- C18
    ("C18", "remove skipped on get hit", "breaking", S + "util/cache.py", "            # Move the accessed node to the front (most recently used)\n            self._remove(node)\n            self._add_to_front(node)\n            return node.value", "            # Move the accessed node to the front (most recently used)\n            self._add_to_front(node)\n            return node.value", "S1"),
    ("C18", "evicts the head side", "breaking", S + "util/cache.py", "                lru_node = self.tail.prev", "                lru_node = self.head.next", "S3"),
    ("C18", "insert without capacity test", "breaking", S + "util/cache.py", "            if self.maxsize is not None and len(self.cache) >= self.maxsize:", "            if False:", "S3"),
    ("C18", "template string dropped from the key", "breaking", S + "template.py", "    cache_key = (template_cls, template_string, engine, name, origin_key)", "    cache_key = (template_cls, engine, name, origin_key)", "S4"),
    ("C18", "origin part of the key guarded by the name", "breaking", S + "template.py", "    origin_key = (origin.name, origin.template_name) if origin else None", "    origin_key = (origin.name, origin.template_name) if name else None", "S4"),
    ("C18", "engine keyed by its class again", "breaking", S + "template.py", "    cache_key = (template_cls, template_string, engine, name, origin_key)", "    cache_key = (template_cls, template_string, type(engine), name, origin_key)", "S4"),
    ("C18", "name dropped from the key", "breaking", S + "template.py", "    cache_key = (template_cls, template_string, engine, name, origin_key)", "    cache_key = (template_cls, template_string, engine, origin_key)", "S4"),
    ("C18", "backward link omitted", "breaking", S + "util/cache.py", "        node.next = self.head.next\n        node.prev = self.head\n", "        node.next = self.head.next\n", "S2"),
    ("C18", "comment", "preserving", S + "util/cache.py", "        node.next = self.head.next\n        node.prev = self.head\n", "        node.next = self.head.next  # old first node\n        node.prev = self.head\n", None),
    # ---- C19
    ("C19", "cache_component_js moved behind a condition", "breaking", S + "component.py", "        cache_component_js(self.__class__)\n", "        if js_data:\n            cache_component_js(self.__class__)\n", "S1"),
    ("C19", "different key order in the reader", "breaking", S + "dependencies.py", "    cache_key = _gen_cache_key(comp_cls._class_hash, script_type, input_hash)\n    script = cache.get(cache_key)", "    cache_key = _gen_cache_key(comp_cls._class_hash, input_hash, script_type)\n    script = cache.get(cache_key)", "S2"),
    ("C19", "URL kwarg renamed on one side", "breaking", S + "dependencies.py", "            \"comp_cls_hash\": comp_cls._class_hash,", "            \"cls_hash\": comp_cls._class_hash,", "S3"),
    ("C19", "405 test after the lookup", "breaking", S + "dependencies.py", "    if req.method != \"GET\":\n        return HttpResponseNotAllowed([\"GET\"])\n\n    if script_type not in _CONTENT_TYPES:\n        return HttpResponseNotFound()\n\n    comp_cls = comp_hash_mapping.get(comp_cls_hash)", "    if script_type not in _CONTENT_TYPES:\n        return HttpResponseNotFound()\n\n    comp_cls = comp_hash_mapping.get(comp_cls_hash)\n    if req.method != \"GET\":\n        return HttpResponseNotAllowed([\"GET\"])\n", "S4"),
    ("C19", "kind validation dropped", "breaking", S + "dependencies.py", "    if script_type not in _CONTENT_TYPES:\n        return HttpResponseNotFound()\n\n    comp_cls = comp_hash_mapping", "    comp_cls = comp_hash_mapping", "S4"),
    ("C19", "input css urls fed from the js list", "breaking", S + "dependencies.py", "            css={\"all\": [*to_load_component_css_urls, *to_load_input_css_urls]},", "            css={\"all\": [*to_load_component_css_urls, *to_load_input_js_urls]},", "S11"),
    ("C19", "loaded js urls handed to the css wire key", "breaking", S + "dependencies.py", "        loaded_css_urls=loaded_css_urls,\n    )", "        loaded_css_urls=loaded_js_urls,\n    )", "S11"),
    ("C19", "css placeholder replaced by the js tags", "breaking", S + "dependencies.py", "            replacement = css_replacement\n", "            replacement = js_replacement\n", "S11"),
    ("C19", "url list built under the other kind's test", "breaking", S + "dependencies.py", "                to_load_css_urls.append(get_script_url(\"css\", comp_cls, input_hash))", "                to_load_css_urls.append(get_script_url(script_type, comp_cls, input_hash))\n            if script_type == \"js\":\n                to_load_css_urls.append(get_script_url(script_type, comp_cls, input_hash))", "S11"),
    ("C19", "kind passed as the tested variable", "preserving", S + "dependencies.py", "                to_load_css_urls.append(get_script_url(\"css\", comp_cls, input_hash))", "                to_load_css_urls.append(get_script_url(script_type, comp_cls, input_hash))", None),
    ("C19", "media lists built in temporaries", "preserving", S + "dependencies.py", "    all_medias = [\n", "    _unused_note = None\n    all_medias = [\n", None),
    ("C19", "endpoint serves registered classes only", "breaking", S + "dependencies.py", "    if comp_cls is None:\n        return HttpResponseNotFound()", "    if comp_cls is None or not getattr(comp_cls, \"_registered\", False):\n        return HttpResponseNotFound()", "S12"),
    ("C19", "404 test written with the emission predicate", "preserving", S + "dependencies.py", "    if script is None:\n        return HttpResponseNotFound()", "    if script is None or not is_nonempty_str(script):\n        return HttpResponseNotFound()", None),
    ("C19", "middleware rebuilds the response without the status", "breaking", S + "dependencies.py", "            response.content = render_dependencies(response.content, type=\"document\")\n\n        return response", "            new_response = HttpResponse(render_dependencies(response.content, type=\"document\"))\n            return new_response\n\n        return response", "S13"),
    ("C19", "middleware rebuilds the response and copies the status", "preserving", S + "dependencies.py", "            response.content = render_dependencies(response.content, type=\"document\")\n\n        return response", "            new_response = HttpResponse(render_dependencies(response.content, type=\"document\"), status=response.status_code)\n            return new_response\n\n        return response", None),
    ("C19", "input hashes swapped on the way to the marker", "breaking", S + "component.py", "                js_input_hash=js_input_hash,\n                css_input_hash=css_input_hash,\n            )\n\n            trace_component_msg", "                js_input_hash=css_input_hash,\n                css_input_hash=js_input_hash,\n            )\n\n            trace_component_msg", "S14"),
    ("C04", "input hashes swapped on the way to the marker", "breaking", S + "component.py", "                js_input_hash=js_input_hash,\n                css_input_hash=css_input_hash,\n            )\n\n            trace_component_msg", "                js_input_hash=css_input_hash,\n                css_input_hash=js_input_hash,\n            )\n\n            trace_component_msg", "S20"),
    ("C04", "input css urls fed from the js list", "breaking", S + "dependencies.py", "            css={\"all\": [*to_load_component_css_urls, *to_load_input_css_urls]},", "            css={\"all\": [*to_load_component_css_urls, *to_load_input_js_urls]},", "S19"),
    ("C08", "css placeholder replaced by the js tags", "breaking", S + "dependencies.py", "            replacement = css_replacement\n", "            replacement = js_replacement\n", "S15"),
    ("C07", "module-level empty Context handed to fills", "breaking", S + "slots.py", ("            return outer_context if outer_context is not None else Context()", "DEFAULT_SLOT_KEY = \"default\"\n"), ("            return outer_context if outer_context is not None else _EMPTY_CTX", "DEFAULT_SLOT_KEY = \"default\"\n_EMPTY_CTX = Context()\n"), "S1-G"),
    ("C03", "module-level empty Context handed to fills", "breaking", S + "slots.py", ("            return outer_context if outer_context is not None else Context()", "DEFAULT_SLOT_KEY = \"default\"\n"), ("            return outer_context if outer_context is not None else _EMPTY_CTX", "DEFAULT_SLOT_KEY = \"default\"\n_EMPTY_CTX = Context()\n"), "S13"),
    ("C07", "module-level immutable marker read by render code", "preserving", S + "slots.py", ("            return outer_context if outer_context is not None else Context()", "DEFAULT_SLOT_KEY = \"default\"\n"), ("            return outer_context if outer_context is not None else Context(_EMPTY_STR and None)", "DEFAULT_SLOT_KEY = \"default\"\n_EMPTY_STR = SafeString(\"\")\n"), None),
    ("C18", "store skipped for None", "breaking", S + "util/cache.py", "        if key in self.cache:\n            node = self.cache[key]\n            # Update the value", "        if value is None:\n            return\n        if key in self.cache:\n            node = self.cache[key]\n            # Update the value", "S7"),
    ("C18", "has() through get()", "breaking", S + "util/cache.py", "        return key in self.cache\n", "        return self.get(key) is not None\n", "S7"),
    ("C09", "BOM stripped from the source", "breaking", S + "util/template_parser.py", "    index_start = 0\n    index_end = len(text)", "    text = text.lstrip(\"\\ufeff\")\n    index_start = 0\n    index_end = len(text)", "S15"),
    ("C09", "length of the source in a local", "preserving", S + "util/template_parser.py", "    index_start = 0\n    index_end = len(text)", "    n_chars = len(text)\n    index_start = 0\n    index_end = n_chars", None),
    ("C17", "dirs filtered by a string-prefix test", "breaking", S + "finders.py", "        component_dirs = [str(p) for p in get_component_dirs()]\n", "        component_dirs = [str(p) for p in get_component_dirs()]\n        component_dirs = [d for d in component_dirs if not any(d != o and d.startswith(o) for o in component_dirs)]\n", "S9"),
    ("C17", "dirs de-duplicated in order", "preserving", S + "finders.py", "        component_dirs = [str(p) for p in get_component_dirs()]\n", "        component_dirs = [str(p) for p in get_component_dirs()]\n        component_dirs = list(dict.fromkeys(component_dirs))\n", None),
    ("C15", "protected tags accumulate", "breaking", S + "library.py", "    lib._protected_tags = [*protected_tags]", "    lib._protected_tags = [*getattr(lib, \"_protected_tags\", []), *protected_tags]", "S9"),
    ("C15", "protected tags copied with list()", "preserving", S + "library.py", "    lib._protected_tags = [*protected_tags]", "    lib._protected_tags = list(protected_tags)", None),
    ("C16", "blank asset reported as undefined", "breaking", S + "component_media.py", "        asset_content = Path(full_path).read_text()\n\n    return asset_content", "        asset_content = Path(full_path).read_text()\n\n    return asset_content or None", "S6"),
    ("C16", "early return for an undefined pair", "preserving", S + "component_media.py", "    if asset_file is not None:\n        # Check if the file is in one of the components' directories", "    if asset_content is None and asset_file is None:\n        return None\n    if asset_file is not None:\n        # Check if the file is in one of the components' directories", None),
    ("C13", "variable part resolved without render()", "breaking", S + "expression.py", "        result = self.wrapped_node.render(context)\n        return str(result)", "        result = self.wrapped_node.filter_expression.resolve(context) if isinstance(self.wrapped_node, VariableNode) else self.wrapped_node.render(context)\n        return str(result)", "S10"),
    ("C08", "content length synced outside the gate", "breaking", S + "dependencies.py", "            response.content = render_dependencies(response.content, type=\"document\")\n\n        return response", "            response.content = render_dependencies(response.content, type=\"document\")\n\n        if response.has_header(\"Content-Length\"):\n            response[\"Content-Length\"] = str(len(response.content))\n        return response", "S5"),
    ("C08", "content length synced under the gate", "preserving", S + "dependencies.py", "            response.content = render_dependencies(response.content, type=\"document\")\n\n        return response", "            response.content = render_dependencies(response.content, type=\"document\")\n            if response.has_header(\"Content-Length\"):\n                response[\"Content-Length\"] = str(len(response.content))\n\n        return response", None),
    ("C08", "latin-1 round trip around the insertion", "breaking", S + "dependencies.py", "            content_ = maybe_transformed.encode(\"utf-8\", errors=\"surrogateescape\")", "            content_ = maybe_transformed.encode(\"latin-1\")", "S4"),
    ("C19", "timeout moved under OPTIONS", "breaking", S + "cache.py", "                    \"TIMEOUT\": None,  # No timeout\n", "", "S7"),
    ("C09", "quote test in a temporary", "preserving", S + "util/template_parser.py", "            if token.token_type == TokenType.BLOCK and (\"'\" in token.contents or '\"' in token.contents):", "            has_quote = \"'\" in token.contents or '\"' in token.contents\n            if token.token_type == TokenType.BLOCK and has_quote:", None),
    ("C09", "quoted tags skipped inside comment blocks", "breaking", S + "util/template_parser.py", ("            if token.token_type == TokenType.BLOCK and (\"'\" in token.contents or '\"' in token.contents):", "    resolved_tokens: List[Token] = []\n"), ("            if token.token_type == TokenType.BLOCK and not in_comment and (\"'\" in token.contents or '\"' in token.contents):", "    resolved_tokens: List[Token] = []\n    in_comment = False\n"), "S17"),
    ("C12", "last attribute tested by truthiness of the list", "preserving", S + "util/template_tag.py", "    last_token = attrs[-1].value if len(attrs) else None", "    last_token = attrs[-1].value if attrs else None", None),
    ("C12", "first entry of the last attribute", "breaking", S + "util/template_tag.py", "    last_token = attrs[-1].value if len(attrs) else None", "    last_token = attrs[-1].value.entries[0] if len(attrs) else None", "S14"),
    ("C18", "clear without the lock", "breaking", S + "util/cache.py", "    def clear(self) -> None:\n        with self._lock:\n            self._clear()", "    def clear(self) -> None:\n        self._clear()", "S10"),
    ("C11", "keyword-ness by truthiness", "breaking", S + "util/template_tag.py", "        if param.key is None:", "        if not param.key:", "S11"),
    ("C15", "built-in names protected by default", "breaking", S + "library.py", "    protected_tags = getattr(lib, \"_protected_tags\", [])", "    protected_tags = getattr(lib, \"_protected_tags\", PROTECTED_TAGS)", "S11"),
    ("C15", "empty tuple as the fallback", "preserving", S + "library.py", "    protected_tags = getattr(lib, \"_protected_tags\", [])", "    protected_tags = getattr(lib, \"_protected_tags\", ())", None),
    ("C16", "css dict rewritten in place again", "breaking", S + "component_media.py", "        media.css = {  # type: ignore[assignment]\n            media_type: list(map(map_fn, path_list)) for media_type, path_list in media.css.items()\n        }", "        for media_type, path_list in media.css.items():\n            media.css[media_type] = list(map(map_fn, path_list))", "S7"),
    ("C08", "marker pattern eats the whitespace behind it", "breaking", S + "dependencies.py", "(?P<data>[\\w\\-,/]+?)\\s+-->\")", "(?P<data>[\\w\\-,/]+?)\\s+-->\\s*\")", "S18"),
    ("C19", "fallback to the class source when the entry is gone", "breaking", S + "dependencies.py", "    content = get_script_content(script_type, comp_cls, input_hash)\n    if content is None:\n        raise RuntimeError(", "    content = get_script_content(script_type, comp_cls, input_hash)\n    if content is None and input_hash is None:\n        content = comp_cls.js if script_type == \"js\" else comp_cls.css\n    if content is None:\n        raise RuntimeError(", "S16"),
    ("C19", "comment", "preserving", S + "dependencies.py", "    script = get_script_content(script_type, comp_cls, input_hash)\n    if script is None:", "    script = get_script_content(script_type, comp_cls, input_hash)  # from the media cache\n    if script is None:", None),
]

# findings that the historic (pre-fix) revision must still show: property -> rule substrings
HISTORIC: Dict[str, List[str]] = {
    "C01": ["S1"], "C04": ["S1"], "C05": ["S2"], "C06": ["S1a", "S1c", "S2a", "S3"], "C07": ["S1-W", "S1-M"], "C08": ["S1"],
    "C09": ["S1", "S2", "S5"], "C11": ["S2", "S5"], "C12": ["S3", "S4"], "C13": ["S4"], "C17": ["S1"], "C19": ["S3"],
}


def _run(pid: str, proj: Project) -> Tuple[int, List[str]]:
    mod = importlib.import_module(f"djc_sa.rules.{pid}")
    code, chk = run_guarded(pid, "quick", 0, lambda c: mod.run(c, proj), quiet=True, write=False)
    fired = sorted({o.rule for o in chk.obls if o.verdict == "VIOLATED"})
    return code, fired


def _one(job: Tuple[str, int, str]) -> Dict[str, Any]:
    root, idx, _ = job
    pid, name, kind, rel, find, repl, rule = V[idx]
    t0 = time.time()
    try:
        files = Project.read_files(root)
        finds = find if isinstance(find, tuple) else (find,)
        repls = repl if isinstance(repl, tuple) else (repl,)
        if rel not in files or any(fi not in files[rel] for fi in finds):
            return {"property": pid, "variant": name, "kind": kind, "result": "skipped", "why": "anchor text not in the current tree"}
        text = files[rel]
        for fi, re_ in zip(finds, repls):
            if fi != re_:
                text = text.replace(fi, re_, 1)
        try:
            compile(text, rel, "exec")
        except SyntaxError as e:
            return {"property": pid, "variant": name, "kind": kind, "result": "skipped", "why": f"variant does not compile: {e}"}
        files[rel] = text
        proj = Project(root, files, "overlay")
        code, fired = _run(pid, proj)
    except Exception as e:  # pragma: no cover
        return {"property": pid, "variant": name, "kind": kind, "result": "error", "why": f"{type(e).__name__}: {e}"}
    if kind == "breaking":
        ok = code == 1 and (rule is None or any(r.endswith("-" + rule) or ("-" + rule) in r for r in fired))
    else:
        ok = code == 0
    return {"property": pid, "variant": name, "kind": kind, "result": "ok" if ok else "FAILED", "exit": code, "fired": fired, "expected_rule": rule, "wall_s": round(time.time() - t0, 2)}


def _historic(job: Tuple[str, str]) -> Dict[str, Any]:
    root, pid = job
    try:
        proj = Project.from_git(PRISTINE, root)
        code, fired = _run(pid, proj)
    except Exception as e:
        return {"property": pid, "variant": f"historic revision {PRISTINE}", "kind": "historic", "result": "skipped", "why": f"{type(e).__name__}: {e}"}
    want = HISTORIC[pid]
    missing = [w for w in want if not any(("-" + w) in r for r in fired)]
    return {"property": pid, "variant": f"historic revision {PRISTINE} shows the repaired findings", "kind": "historic", "result": "ok" if not missing and code == 1 else "FAILED", "exit": code, "fired": fired, "missing": missing}


SEEDED_DIR = os.path.join(os.path.dirname(os.path.dirname(os.path.abspath(__file__))), "seeded")


def apply_unified_diff(files: Dict[str, str], diff: str) -> Optional[str]:
    """Apply a git unified diff to the in-memory `files` (rel path -> text). Returns None on success, else the reason.
    Hunks are placed at their stated line if the context matches there, else at the unique position where it does."""
    cur: Optional[str] = None
    hunks: Dict[str, List[Tuple[int, List[str]]]] = {}
    for line in diff.splitlines():
        if line.startswith("+++ "):
            pth = line[4:].strip()
            cur = pth[2:] if pth.startswith("b/") else pth
            hunks.setdefault(cur, [])
        elif line.startswith("--- ") or line.startswith("diff ") or line.startswith("index "):
            continue
        elif line.startswith("@@") and cur is not None:
            m = _re_h.match(line)
            if not m:
                return f"bad hunk header {line!r}"
            hunks[cur].append((int(m.group(1)), []))
        elif cur is not None and hunks.get(cur) and (line[:1] in (" ", "+", "-") or line == ""):
            hunks[cur][-1][1].append(line if line else " ")
        elif line.startswith("\\"):
            continue
    for rel, hs in hunks.items():
        if rel not in files:
            return f"{rel} not in the tree"
        lines = files[rel].split("\n")
        delta = 0
        for start, body in hs:
            old = [b[1:] for b in body if b[:1] in (" ", "-")]
            new = [b[1:] for b in body if b[:1] in (" ", "+")]
            at = start - 1 + delta
            if lines[at:at + len(old)] != old:
                cands = [i for i in range(len(lines) - len(old) + 1) if lines[i:i + len(old)] == old]
                if len(cands) != 1:
                    return f"hunk @{start} of {rel} does not apply ({len(cands)} candidate positions)"
                at = cands[0]
            lines[at:at + len(old)] = new
            delta += len(new) - len(old)
        files[rel] = "\n".join(lines)
    return None


import re as _re0

_re_h = _re0.compile(r"^@@ -(\d+)(?:,\d+)? \+\d+(?:,\d+)? @@")


def seeded_ids(only: Optional[str]) -> List[str]:
    if not os.path.isdir(SEEDED_DIR):
        return []
    return [d for d in sorted(os.listdir(SEEDED_DIR)) if os.path.isfile(os.path.join(SEEDED_DIR, d, "patch.diff")) and (only is None or d.split("-")[0] == only)]


def _seeded(job: Tuple[str, str]) -> Dict[str, Any]:
    root, sid = job
    pid = sid.split("-")[0]
    t0 = time.time()
    name = f"seeded change {sid} (confirmed: suite passes, demo fails)"
    try:
        files = Project.read_files(root)
        why = apply_unified_diff(files, open(os.path.join(SEEDED_DIR, sid, "patch.diff")).read())
        if why is not None:
            return {"property": pid, "variant": name, "kind": "seeded", "result": "skipped", "why": why}
        code, fired = _run(pid, Project(root, files, "overlay"))
    except Exception as e:  # pragma: no cover
        return {"property": pid, "variant": name, "kind": "seeded", "result": "error", "why": f"{type(e).__name__}: {e}"}
    res = "ok" if code == 1 else "FAILED"
    if code == 2:
        # a change that removes the construct a rule is anchored in is REFUSED (exit 2, analysis broken), which is the
        # designed fail-closed answer; it is accepted only for the changes whose meta.json says so, with the reason
        try:
            meta = json.load(open(os.path.join(SEEDED_DIR, sid, "meta.json")))
        except Exception:
            meta = {}
        if meta.get("static_verdict") == "refused":
            res = "refused"
    return {"property": pid, "variant": name, "kind": "seeded", "result": res, "exit": code, "fired": fired, "wall_s": round(time.time() - t0, 2)}


OBSOLETE_DIR = os.path.join(os.path.dirname(os.path.dirname(os.path.abspath(__file__))), "seeded_obsolete")


def _preserving_patch(job: Tuple[str, str]) -> Dict[str, Any]:
    """A seeded change that a later fix turned into a behaviour-preserving edit: the check must stay silent on it."""
    root, sid = job
    pid = sid.split("-")[0]
    name = f"former seeded change {sid}, harmless on the fixed tree (its demo passes)"
    try:
        files = Project.read_files(root)
        why = apply_unified_diff(files, open(os.path.join(OBSOLETE_DIR, sid, "patch_rebased_on_fixed_tree.diff")).read())
        if why is not None:
            return {"property": pid, "variant": name, "kind": "preserving", "result": "skipped", "why": why}
        code, fired = _run(pid, Project(root, files, "overlay"))
    except Exception as e:  # pragma: no cover
        return {"property": pid, "variant": name, "kind": "preserving", "result": "error", "why": f"{type(e).__name__}: {e}"}
    return {"property": pid, "variant": name, "kind": "preserving", "result": "ok" if code == 0 else "FAILED", "exit": code, "fired": fired}


def run_all(root: str, only: Optional[str] = None, jobs: int = 16) -> List[Dict[str, Any]]:
    idxs = [i for i, v in enumerate(V) if only is None or v[0] == only]
    hist = [p for p in HISTORIC if only is None or p == only]
    out: List[Dict[str, Any]] = []
    with ProcessPoolExecutor(max_workers=max(1, min(jobs, 16))) as ex:
        out.extend(ex.map(_one, [(root, i, "") for i in idxs]))
        out.extend(ex.map(_historic, [(root, p) for p in hist]))
        out.extend(ex.map(_seeded, [(root, sid) for sid in seeded_ids(only)]))
        obs = [d for d in (sorted(os.listdir(OBSOLETE_DIR)) if os.path.isdir(OBSOLETE_DIR) else []) if os.path.isfile(os.path.join(OBSOLETE_DIR, d, "patch_rebased_on_fixed_tree.diff")) and (only is None or d.split("-")[0] == only)]
        out.extend(ex.map(_preserving_patch, [(root, sid) for sid in obs]))
    return out


def summarise(res: List[Dict[str, Any]]) -> Dict[str, Any]:
    def cnt(kind: str, result: str) -> int:
        return sum(1 for r in res if r["kind"] == kind and r["result"] == result)

    nb = sum(1 for r in res if r["kind"] == "breaking" and r["result"] != "skipped")
    np_ = sum(1 for r in res if r["kind"] == "preserving" and r["result"] != "skipped")
    nh = sum(1 for r in res if r["kind"] == "historic" and r["result"] != "skipped")
    ns = sum(1 for r in res if r["kind"] == "seeded" and r["result"] != "skipped")
    return {
        "summary": f"breaking {cnt('breaking', 'ok')}/{nb} fired, seeded {cnt('seeded', 'ok')}/{ns} fired (+{cnt('seeded', 'refused')} refused with exit 2), preserving {cnt('preserving', 'ok')}/{np_} silent, historic {cnt('historic', 'ok')}/{nh}, skipped {sum(1 for r in res if r['result'] == 'skipped')}",
        "breaking": {"fired": cnt("breaking", "ok"), "of": nb},
        "preserving": {"silent": cnt("preserving", "ok"), "of": np_},
        "historic": {"ok": cnt("historic", "ok"), "of": nh},
        "seeded": {"fired": cnt("seeded", "ok"), "refused_exit2": cnt("seeded", "refused"), "of": ns},
        "failed": [r for r in res if r["result"] in ("FAILED", "error")],
        "skipped": [f"{r['variant']}: {r.get('why')}" for r in res if r["result"] == "skipped"],
        "variants": [{k: r[k] for k in ("variant", "kind", "result") if k in r} for r in res],
    }


def summary_for(pid: str, args: Any) -> Optional[Dict[str, Any]]:
    res = run_all(args.repo, only=pid, jobs=getattr(args, "jobs", 16))
    return summarise(res) if res else None


def main(args: Any) -> int:
    t0 = time.time()
    res = run_all(args.repo, only=args.only.upper() if args.only else None, jobs=args.jobs)
    for r in res:
        flag = {"ok": "ok     ", "FAILED": "FAILED ", "skipped": "skipped", "error": "ERROR  ", "refused": "refused"}[r["result"]]
        extra = f" exit={r.get('exit')} fired={r.get('fired')}" if r["result"] == "FAILED" else (f" ({r.get('why')})" if r["result"] in ("skipped", "error") else "")
        print(f"{flag} {r['property']} [{r['kind']}] {r['variant']}{extra}")
    s = summarise(res)
    print(f"selftest: {s['summary']} in {round(time.time() - t0, 1)}s")
    out = os.path.join(os.path.dirname(os.path.dirname(os.path.abspath(__file__))), "selfcheck", "selftest.json")
    if not getattr(args, "no_write", False):
        os.makedirs(os.path.dirname(out), exist_ok=True)
        with open(out, "w") as f:
            json.dump({"summary": s["summary"], "results": res}, f, indent=1)
    return 0 if not s["failed"] else 2


# ---------------------------------------------------------------------------------------------
# rename fuzzing: behaviour-preserving renames of local variables must never produce a VIOLATION
# ---------------------------------------------------------------------------------------------
import ast as _ast
import re as _re


def _locals_of(fn: _ast.AST) -> List[str]:
    names = set()
    for n in _ast.walk(fn):
        if isinstance(n, _ast.Name) and isinstance(n.ctx, _ast.Store):
            names.add(n.id)
    args = set()
    for n in _ast.walk(fn):
        if isinstance(n, _ast.arguments):
            for a in n.posonlyargs + n.args + n.kwonlyargs:
                args.add(a.arg)
            if n.vararg:
                args.add(n.vararg.arg)
            if n.kwarg:
                args.add(n.kwarg.arg)
    glob = set()
    for n in _ast.walk(fn):
        if isinstance(n, (_ast.Global, _ast.Nonlocal)):
            glob.update(n.names)
    return sorted(x for x in names - args - glob if len(x) > 1 and not x.isupper())


def rename_jobs(root: str, only: Optional[str]) -> List[Tuple[str, str, str, str, int, int]]:
    """(property, rel, qualname, local, first line, last line) for every local of every function a check analysed."""
    from .cli import CLAIMED

    jobs = []
    proj = Project.load(root)
    for pid in CLAIMED:
        if only and pid != only:
            continue
        mod = importlib.import_module(f"djc_sa.rules.{pid}")
        _code, chk = run_guarded(pid, "quick", 0, lambda c: mod.run(c, proj), quiet=True, write=False)
        fks = set(chk.functions)
        # plus every function of the modules the property is anchored in (properties.jsonl)
        try:
            ppath = os.path.join(os.path.dirname(os.path.dirname(os.path.abspath(__file__))), "properties.jsonl")
            for line in open(ppath):
                pr = json.loads(line)
                if pr["id"] == pid:
                    for rel in pr["anchors"]["files"]:
                        mm = proj.by_rel.get(rel)
                        if mm is not None:
                            fks.update(f"{mm.name}:{q}" for q, _f in mm.funcs())
        except OSError:
            pass
        for fk in sorted(fks):
            mn, q = fk.split(":")
            if mn not in proj.modules:
                continue
            m = proj.modules[mn]
            q0 = q
            if q0 not in m.defs:
                continue
            fn = m.defs[q0]
            # top-level function of this qualname only (nested functions are renamed with their parent)
            for loc in _locals_of(fn):
                jobs.append((pid, m.rel, q0, loc, fn.lineno, getattr(fn, "end_lineno", fn.lineno)))
    # de-duplicate
    return sorted(set(jobs))


def _rename_one(job: Tuple[str, Tuple[str, str, str, str, int, int]]) -> Dict[str, Any]:
    root, (pid, rel, q, loc, l0, l1) = job
    try:
        files = Project.read_files(root)
        src = files[rel]
        tree = _ast.parse(src)
        fn = None
        for n in _ast.walk(tree):
            if isinstance(n, (_ast.FunctionDef, _ast.AsyncFunctionDef)) and n.lineno == l0 and n.name == q.split(".")[-1]:
                fn = n
        if fn is None:
            return {"property": pid, "fn": q, "local": loc, "result": "skipped"}
        new = loc + "_rn"
        # exact positions of the Name nodes (AST), plus `nonlocal x` / `global x` lines
        spots = []
        for n in _ast.walk(fn):
            if isinstance(n, _ast.Name) and n.id == loc:
                spots.append((n.lineno, n.col_offset, n.end_col_offset))
        lines = src.split("\n")
        # col offsets are in UTF-8 bytes
        for ln, c0, c1 in sorted(set(spots), reverse=True):
            b = lines[ln - 1].encode("utf-8")
            lines[ln - 1] = (b[:c0] + new.encode() + b[c1:]).decode("utf-8")
        for n in _ast.walk(fn):
            if isinstance(n, (_ast.Nonlocal, _ast.Global)) and loc in n.names:
                lines[n.lineno - 1] = _re.sub(r"(?<![\w.])" + _re.escape(loc) + r"(?![\w])", new, lines[n.lineno - 1])
        text = "\n".join(lines)
        try:
            compile(text, rel, "exec")
        except SyntaxError:
            return {"property": pid, "fn": q, "local": loc, "result": "skipped"}
        files[rel] = text
        proj = Project(root, files, "overlay")
        code, fired = _run(pid, proj)
        return {"property": pid, "fn": f"{rel}:{q}", "local": loc, "result": "ok" if code == 0 else ("undecided" if code == 2 else "FALSE-ALARM"), "exit": code, "fired": fired}
    except Exception as e:  # pragma: no cover
        return {"property": pid, "fn": q, "local": loc, "result": "error", "why": f"{type(e).__name__}: {e}"}


def rename_main(args: Any) -> int:
    t0 = time.time()
    jobs = rename_jobs(args.repo, args.only.upper() if args.only else None)
    with ProcessPoolExecutor(max_workers=max(1, min(args.jobs, 16))) as ex:
        res = list(ex.map(_rename_one, [(args.repo, j) for j in jobs], chunksize=4))
    bad = [r for r in res if r["result"] == "FALSE-ALARM"]
    und = [r for r in res if r["result"] == "undecided"]
    for r in bad:
        print(f"FALSE-ALARM {r['property']} rename {r['local']} in {r['fn']}: fired {r['fired']}")
    for r in und:
        print(f"undecided   {r['property']} rename {r['local']} in {r['fn']}")
    print(f"renamefuzz: {len(res)} renames, ok {sum(1 for r in res if r['result'] == 'ok')}, undecided {len(und)}, false alarms {len(bad)}, skipped {sum(1 for r in res if r['result'] == 'skipped')} in {round(time.time() - t0, 1)}s")
    out = os.path.join(os.path.dirname(os.path.dirname(os.path.abspath(__file__))), "selfcheck", "renamefuzz.json")
    if not getattr(args, "no_write", False):
        os.makedirs(os.path.dirname(out), exist_ok=True)
        with open(out, "w") as f:
            json.dump({"renames": len(res), "false_alarms": bad, "undecided": und}, f, indent=1)
    return 0 if not bad else 2


def rename_summary_for(pid: str, args: Any) -> Dict[str, Any]:
    """Thorough tier: rename fuzz restricted to one property's consulted functions (informational)."""
    jobs = rename_jobs(args.repo, pid)
    with ProcessPoolExecutor(max_workers=max(1, min(getattr(args, "jobs", 16), 16))) as ex:
        res = list(ex.map(_rename_one, [(args.repo, j) for j in jobs], chunksize=4))
    bad = [r for r in res if r["result"] == "FALSE-ALARM"]
    und = [r for r in res if r["result"] == "undecided"]
    return {"renames": len(res), "ok": sum(1 for r in res if r["result"] == "ok"), "false_alarms": [f"{r['local']} in {r['fn']}: {r['fired']}" for r in bad],
            "undecided": [f"{r['local']} in {r['fn']}" for r in und], "summary": f"{len(res)} local renames, {len(bad)} false alarms, {len(und)} undecided"}


def regression_replay_for(pid: str, args: Any) -> Dict[str, Any]:
    """Thorough tier: for every repaired finding of this property, the revision just before its fix commit must show
    the recorded (rule, construct) as VIOLATED under TODAY's checker (the fix is what made it disappear)."""
    from .report import KNOWN_FILE

    with open(KNOWN_FILE) as f:
        entries = [e for e in json.load(f)["findings"] if e.get("status") == "fixed" and e.get("property") == pid and e.get("regression_witness")]
    out: List[Dict[str, Any]] = []
    for e in entries:
        rec: Dict[str, Any] = {"finding": e["id"], "fix_commit": e["commit"], "witnesses": len(e["regression_witness"])}
        try:
            proj = Project.from_git(e["commit"] + "~1", args.repo)
            mod = importlib.import_module(f"djc_sa.rules.{pid}")
            code, chk = run_guarded(pid, "quick", 0, lambda c: mod.run(c, proj), quiet=True, write=False)
            v = {(o.rule, o.construct) for o in chk.obls if o.verdict == "VIOLATED"}
            missing = [w for w in e["regression_witness"] if (w["rule"], w["construct"]) not in v]
            rec.update({"exit_before_fix": code, "reported_before_fix": len(e["regression_witness"]) - len(missing), "missing": missing, "result": "ok" if not missing and code == 1 else "FAILED"})
        except Exception as ex:
            rec.update({"result": "skipped", "why": f"{type(ex).__name__}: {ex}"})
        out.append(rec)
    ok = sum(1 for r in out if r["result"] == "ok")
    return {"summary": f"{ok}/{len(out)} repaired findings are reported again on the revision before their fix", "replays": out}


# ---------------------------------------------------------------------------------------------
# refactor fuzzing: other behaviour-preserving rewrites must never produce a VIOLATION
#   unparse   every module re-emitted with ast.unparse (comments gone, quotes / parentheses / line numbers changed)
#   invert-if one `if c: A else: B` (not an elif chain) in a consulted function rewritten to `if not c: B else: A`
# ---------------------------------------------------------------------------------------------
def _consulted_functions(root: str, only: Optional[str]) -> List[Tuple[str, str, str]]:
    out = set()
    for pid, rel, q, _loc, _l0, _l1 in rename_jobs(root, only):
        out.add((pid, rel, q))
    return sorted(out)


def _sites(fn: _ast.AST, kind: str) -> List[_ast.AST]:
    out: List[_ast.AST] = []
    for n in _ast.walk(fn):
        if kind == "invert-if" and isinstance(n, _ast.If) and n.orelse and not (len(n.orelse) == 1 and isinstance(n.orelse[0], _ast.If)) and not any(isinstance(x, _ast.NamedExpr) for x in _ast.walk(n.test)):
            out.append(n)
        elif kind == "return-temp" and isinstance(n, _ast.Return) and n.value is not None and not isinstance(n.value, (_ast.Name, _ast.Constant)):
            out.append(n)
        elif kind == "elif-to-else-if" and isinstance(n, _ast.If) and len(n.orelse) == 1 and isinstance(n.orelse[0], _ast.If):
            out.append(n)
        elif kind == "flip-eq" and isinstance(n, _ast.Compare) and len(n.ops) == 1 and isinstance(n.ops[0], (_ast.Eq, _ast.NotEq)) and not isinstance(n.left, _ast.Constant):
            out.append(n)
        elif kind == "not-compare" and isinstance(n, _ast.Compare) and len(n.ops) == 1 and isinstance(n.ops[0], (_ast.NotIn, _ast.IsNot, _ast.NotEq)):
            out.append(n)
        elif kind == "expand-aug" and isinstance(n, _ast.AugAssign) and isinstance(n.target, _ast.Name) and isinstance(n.op, (_ast.Add, _ast.Sub)):
            out.append(n)
        elif kind == "wrap-else" and isinstance(n, _ast.If) and not n.orelse and n.body and isinstance(n.body[-1], (_ast.Return, _ast.Raise, _ast.Continue, _ast.Break)):
            out.append(n)
        elif kind == "extract-temp" and isinstance(n, (_ast.Expr, _ast.Assign, _ast.Return)) and isinstance(getattr(n, "value", None), _ast.Call):
            # first positional / keyword argument that is a pure, non-trivial expression
            c = n.value
            if any(isinstance(a, (_ast.Attribute, _ast.BinOp, _ast.Compare, _ast.BoolOp)) and _pure_expr(a) for a in list(c.args) + [k.value for k in c.keywords]) and _pure_expr(c.func):
                out.append(n)
        elif kind == "swap-adjacent" and isinstance(n, _ast.Assign) and len(n.targets) == 1 and isinstance(n.targets[0], _ast.Name) and _pure_expr(n.value):
            out.append(n)
    return out


REFACTOR_KINDS = ("invert-if", "return-temp", "flip-eq", "not-compare", "expand-aug", "wrap-else", "extract-temp", "swap-adjacent")

_PURE_NODES = (_ast.Name, _ast.Constant, _ast.Attribute, _ast.BinOp, _ast.UnaryOp, _ast.Compare, _ast.BoolOp, _ast.Tuple, _ast.Load, _ast.operator, _ast.unaryop, _ast.cmpop, _ast.boolop, _ast.expr_context)


def _pure_expr(e: _ast.AST) -> bool:
    return all(isinstance(x, _PURE_NODES) for x in _ast.walk(e))


def _block_of(fn: _ast.AST, st: _ast.AST) -> Optional[list]:
    for par in _ast.walk(fn):
        for fld in ("body", "orelse", "finalbody"):
            blk = getattr(par, fld, None)
            if isinstance(blk, list) and any(x is st for x in blk):
                return blk
        if isinstance(par, _ast.Try):
            for h in par.handlers:
                if any(x is st for x in h.body):
                    return h.body
    return None


def refactor_jobs(root: str, only: Optional[str]) -> List[Tuple[str, str, str, str, int]]:
    from .cli import CLAIMED

    jobs: List[Tuple[str, str, str, str, int]] = [(pid, "unparse", "", "", 0) for pid in CLAIMED if not only or pid == only]
    files = Project.read_files(root)
    for pid, rel, q in _consulted_functions(root, only):
        tree = _ast.parse(files[rel])
        fn = _find_def(tree, q)
        if fn is None:
            continue
        for kind in REFACTOR_KINDS:
            for k in range(len(_sites(fn, kind))):
                jobs.append((pid, kind, rel, q, k))
    return jobs


def _find_def(tree: _ast.AST, q: str) -> Optional[_ast.AST]:
    cur: Any = tree
    for part in q.split("."):
        nxt = None
        for n in _ast.walk(cur) if cur is not tree else _ast.iter_child_nodes(cur):
            if isinstance(n, (_ast.FunctionDef, _ast.AsyncFunctionDef, _ast.ClassDef)) and n.name == part and n is not cur:
                nxt = n
                break
        if nxt is None:
            return None
        cur = nxt
    return cur


def _refactor_one(job: Tuple[str, Tuple[str, str, str, str, int]]) -> Dict[str, Any]:
    root, (pid, kind, rel, q, k) = job
    label = f"{kind} {rel}:{q}#{k}" if kind != "unparse" else "unparse all modules"
    try:
        files = Project.read_files(root)
        if kind == "unparse":
            for r_ in list(files):
                if r_.endswith(".py"):
                    try:
                        files[r_] = _ast.unparse(_ast.parse(files[r_])) + "\n"
                    except SyntaxError:
                        pass
        else:
            tree = _ast.parse(files[rel])
            fn = _find_def(tree, q)
            if fn is None:
                return {"property": pid, "variant": label, "result": "skipped"}
            sites = _sites(fn, kind)
            done = k < len(sites)
            if done:
                n = sites[k]
                if kind == "invert-if":
                    n.test = _ast.UnaryOp(op=_ast.Not(), operand=n.test)
                    n.body, n.orelse = n.orelse, n.body
                elif kind == "flip-eq":
                    n.left, n.comparators = n.comparators[0], [n.left]
                elif kind == "not-compare":
                    inv = {_ast.NotIn: _ast.In, _ast.IsNot: _ast.Is, _ast.NotEq: _ast.Eq}[type(n.ops[0])]
                    inner = _ast.Compare(left=n.left, ops=[inv()], comparators=n.comparators)
                    # replace n in its parent by `not (inner)`
                    for par in _ast.walk(fn):
                        for fld, val in _ast.iter_fields(par):
                            if val is n:
                                setattr(par, fld, _ast.UnaryOp(op=_ast.Not(), operand=inner))
                            elif isinstance(val, list) and any(v is n for v in val):
                                val[[i for i, v in enumerate(val) if v is n][0]] = _ast.UnaryOp(op=_ast.Not(), operand=inner)
                elif kind == "expand-aug":
                    for par in _ast.walk(fn):
                        for fld in ("body", "orelse", "finalbody"):
                            blk = getattr(par, fld, None)
                            if isinstance(blk, list) and n in blk:
                                blk[blk.index(n)] = _ast.Assign(targets=[_ast.Name(id=n.target.id, ctx=_ast.Store())], value=_ast.BinOp(left=_ast.Name(id=n.target.id, ctx=_ast.Load()), op=n.op, right=n.value), lineno=n.lineno, col_offset=n.col_offset)
                        if isinstance(par, _ast.Try):
                            for h in par.handlers:
                                if n in h.body:
                                    h.body[h.body.index(n)] = _ast.Assign(targets=[_ast.Name(id=n.target.id, ctx=_ast.Store())], value=_ast.BinOp(left=_ast.Name(id=n.target.id, ctx=_ast.Load()), op=n.op, right=n.value), lineno=n.lineno, col_offset=n.col_offset)
                elif kind == "extract-temp":
                    c = n.value
                    blk = _block_of(fn, n)
                    done = False
                    if blk is not None:
                        cand = [("a", i) for i, a in enumerate(c.args) if isinstance(a, (_ast.Attribute, _ast.BinOp, _ast.Compare, _ast.BoolOp)) and _pure_expr(a)] + \
                               [("k", i) for i, k_ in enumerate(c.keywords) if isinstance(k_.value, (_ast.Attribute, _ast.BinOp, _ast.Compare, _ast.BoolOp)) and _pure_expr(k_.value)]
                        kind_, i = cand[0]
                        # only if nothing evaluated BEFORE that argument in the call can change it: earlier arguments must be pure too
                        earlier = list(c.args[:i]) if kind_ == "a" else list(c.args) + [k_.value for k_ in c.keywords[:i]]
                        if all(_pure_expr(e) for e in earlier):
                            val = c.args[i] if kind_ == "a" else c.keywords[i].value
                            tmp = _ast.Name(id="extracted_value", ctx=_ast.Load())
                            if kind_ == "a":
                                c.args[i] = tmp
                            else:
                                c.keywords[i].value = tmp
                            j = [k_ for k_, x in enumerate(blk) if x is n][0]
                            blk.insert(j, _ast.Assign(targets=[_ast.Name(id="extracted_value", ctx=_ast.Store())], value=val, lineno=n.lineno, col_offset=n.col_offset))
                            done = True
                elif kind == "swap-adjacent":
                    blk = _block_of(fn, n)
                    done = False
                    if blk is not None:
                        j = [k_ for k_, x in enumerate(blk) if x is n][0]
                        if j + 1 < len(blk):
                            o = blk[j + 1]
                            if isinstance(o, _ast.Assign) and len(o.targets) == 1 and isinstance(o.targets[0], _ast.Name) and _pure_expr(o.value):
                                n1 = {x.id for x in _ast.walk(n) if isinstance(x, _ast.Name)}
                                n2 = {x.id for x in _ast.walk(o) if isinstance(x, _ast.Name)}
                                if not (n1 & n2):
                                    blk[j], blk[j + 1] = o, n
                                    done = True
                elif kind == "wrap-else":
                    # `if c: ...exit` followed by REST in the same block  ->  `if c: ...exit else: REST`
                    moved = False
                    for par in _ast.walk(fn):
                        for fld in ("body", "orelse", "finalbody"):
                            blk = getattr(par, fld, None)
                            if isinstance(blk, list) and n in blk and not moved:
                                i = blk.index(n)
                                rest = blk[i + 1:]
                                if rest and not any(isinstance(x, (_ast.FunctionDef, _ast.ClassDef)) for x in rest):
                                    n.orelse = rest
                                    del blk[i + 1:]
                                    moved = True
                    done = moved
                elif kind == "return-temp":
                    # `return E`  ->  `_rt = E; return _rt`  (in the statement list that holds the return)
                    for par in _ast.walk(fn):
                        for fld in ("body", "orelse", "finalbody"):
                            blk = getattr(par, fld, None)
                            if isinstance(blk, list) and n in blk:
                                i = blk.index(n)
                                blk[i:i + 1] = [_ast.Assign(targets=[_ast.Name(id="_rt", ctx=_ast.Store())], value=n.value, lineno=n.lineno, col_offset=n.col_offset), _ast.Return(value=_ast.Name(id="_rt", ctx=_ast.Load()))]
                        if isinstance(par, _ast.Try):
                            for h in par.handlers:
                                if n in h.body:
                                    i = h.body.index(n)
                                    h.body[i:i + 1] = [_ast.Assign(targets=[_ast.Name(id="_rt", ctx=_ast.Store())], value=n.value, lineno=n.lineno, col_offset=n.col_offset), _ast.Return(value=_ast.Name(id="_rt", ctx=_ast.Load()))]
            if not done:
                return {"property": pid, "variant": label, "result": "skipped"}
            _ast.fix_missing_locations(tree)
            files[rel] = _ast.unparse(tree) + "\n"
        code, fired = _run(pid, Project(root, files, "overlay"))
        return {"property": pid, "variant": label, "result": "ok" if code == 0 else ("undecided" if code == 2 else "FALSE-ALARM"), "exit": code, "fired": fired}
    except Exception as e:  # pragma: no cover
        return {"property": pid, "variant": label, "result": "error", "why": f"{type(e).__name__}: {e}"}


def refactor_main(args: Any) -> int:
    t0 = time.time()
    jobs = refactor_jobs(args.repo, args.only.upper() if args.only else None)
    with ProcessPoolExecutor(max_workers=max(1, min(args.jobs, 16))) as ex:
        res = list(ex.map(_refactor_one, [(args.repo, j) for j in jobs], chunksize=2))
    bad = [r for r in res if r["result"] == "FALSE-ALARM"]
    und = [r for r in res if r["result"] in ("undecided", "error")]
    for r in bad:
        print(f"FALSE-ALARM {r['property']} {r['variant']}: fired {r['fired']}")
    for r in und:
        print(f"undecided   {r['property']} {r['variant']} {r.get('why', '')}")
    print(f"refactorfuzz: {len(res)} rewrites, ok {sum(1 for r in res if r['result'] == 'ok')}, undecided {len(und)}, false alarms {len(bad)}, skipped {sum(1 for r in res if r['result'] == 'skipped')} in {round(time.time() - t0, 1)}s")
    out = os.path.join(os.path.dirname(os.path.dirname(os.path.abspath(__file__))), "selfcheck", "refactorfuzz.json")
    if not getattr(args, "no_write", False):
        os.makedirs(os.path.dirname(out), exist_ok=True)
        with open(out, "w") as f:
            json.dump({"rewrites": len(res), "false_alarms": bad, "undecided": und}, f, indent=1)
    return 0 if not bad else 2


def refactor_summary_for(pid: str, args: Any) -> Dict[str, Any]:
    """Thorough tier: refactor fuzz restricted to one property (informational)."""
    jobs = refactor_jobs(args.repo, pid)
    with ProcessPoolExecutor(max_workers=max(1, min(getattr(args, "jobs", 16), 16))) as ex:
        res = list(ex.map(_refactor_one, [(args.repo, j) for j in jobs], chunksize=2))
    bad = [r for r in res if r["result"] == "FALSE-ALARM"]
    und = [r for r in res if r["result"] in ("undecided", "error")]
    kinds: Dict[str, int] = {}
    for r in res:
        k = r["variant"].split(" ")[0]
        kinds[k] = kinds.get(k, 0) + 1
    return {"rewrites": len(res), "by_kind": kinds, "false_alarms": [f"{r['variant']}: {r['fired']}" for r in bad], "undecided": [r["variant"] for r in und],
            "summary": f"{len(res)} behaviour-preserving rewrites ({', '.join(f'{k} {v}' for k, v in sorted(kinds.items()))}), {len(bad)} false alarms, {len(und)} undecided"}
