"""Abstract evaluation of string-building expressions into alternatives of segments (literal | alphabet^[lo..hi]).

Used to compare what a *writer* can emit with what a *reader* regex accepts (DESIGN.md C04-S1, C14-S2, C19-S3).
The evaluator follows assignments, f-strings, `+`, `.format`, `x or ''`, conditional expressions, slices of
hexdigests, `re.sub` with a character class, the nanoid generator, and in-package calls (inlined by return
expression, depth-bounded). Anything it does not understand becomes ANY* (sound over-approximation).
"""
from __future__ import annotations

import ast
import string as _string
from typing import Dict, List, Optional, Sequence, Tuple

from .astq import assignments, params
from .callgraph import CallGraph
from .regexlang import ALPHABET, ANY, HEX_LOWER, Seg, charset, sre_parse
from .source import FuncNode, Module, Project, Unfoldable, body_walk, dotted, enclosing_func, last_attr, norm, qual_of

Alt = List[Seg]
AbsStr = List[Alt]  # alternatives

MAX_ALTS = 48


def any_str(why: str = "") -> AbsStr:
    return [[Seg.field(ANY, 0, None, why)]]


def lit(t: str) -> AbsStr:
    return [[Seg.lit(t)]] if t else [[]]


def concat(a: AbsStr, b: AbsStr) -> AbsStr:
    out = [x + y for x in a for y in b]
    if len(out) > MAX_ALTS:
        return any_str("too many alternatives")
    return out


def union(a: AbsStr, b: AbsStr) -> AbsStr:
    out = list(a)
    for alt in b:
        if not any(repr(alt) == repr(x) for x in out):
            out.append(alt)
    return out


def simplify(alt: Alt) -> Alt:
    out: Alt = []
    for s in alt:
        if s.kind == "lit" and not s.text:
            continue
        if s.kind == "lit" and out and out[-1].kind == "lit":
            out[-1] = Seg.lit(out[-1].text + s.text)
        else:
            out.append(s)
    return out


def alphabet_of(a: AbsStr) -> frozenset:
    out = set()
    for alt in a:
        for s in alt:
            out |= set(s.text) if s.kind == "lit" else set(s.alphabet)
    return frozenset(out)


def length_of(alt: Alt) -> Tuple[int, Optional[int]]:
    lo, hi = 0, 0
    for s in alt:
        if s.kind == "lit":
            lo += len(s.text)
            hi = None if hi is None else hi + len(s.text)
        else:
            lo += s.lo
            hi = None if (hi is None or s.hi is None) else hi + s.hi
    return lo, hi


class Evaluator:
    def __init__(self, proj: Project, cg: CallGraph):
        self.proj, self.cg = proj, cg
        self.notes: List[str] = []

    def eval(self, m: Module, f: Optional[FuncNode], e: Optional[ast.AST], env: Optional[Dict[str, AbsStr]] = None, depth: int = 0) -> AbsStr:
        env = env or {}
        if e is None or depth > 18:
            return any_str("depth")
        ok, v = self.proj.try_fold(m, e) if not isinstance(e, (ast.Name, ast.Attribute)) or norm(e) not in env else (False, None)
        if ok and isinstance(v, (str, bytes)):
            return lit(v.decode("utf-8", "replace") if isinstance(v, bytes) else v)
        if ok and v is None:
            return [[]]  # None rendered through `x or ''`
        key = norm(e)
        if key in env:
            return env[key]
        if isinstance(e, ast.JoinedStr):
            out: AbsStr = [[]]
            for part in e.values:
                if isinstance(part, ast.Constant):
                    out = concat(out, lit(str(part.value)))
                elif isinstance(part, ast.FormattedValue) and part.format_spec is None:
                    out = concat(out, self.eval(m, f, part.value, env, depth + 1))
                else:
                    out = concat(out, any_str("format spec"))
            return out
        if isinstance(e, ast.BinOp) and isinstance(e.op, ast.Add):
            return concat(self.eval(m, f, e.left, env, depth + 1), self.eval(m, f, e.right, env, depth + 1))
        if isinstance(e, ast.BoolOp) and isinstance(e.op, ast.Or):
            out = []
            for v2 in e.values:
                out = union(out, self.eval(m, f, v2, env, depth + 1))
            return out
        if isinstance(e, ast.IfExp):
            return union(self.eval(m, f, e.body, env, depth + 1), self.eval(m, f, e.orelse, env, depth + 1))
        if isinstance(e, ast.Name):
            if f is not None:
                if e.id not in params(f) and not assignments(f, e.id):
                    # closure variable of an enclosing function
                    outer = enclosing_func(f)
                    while outer is not None:
                        if e.id in params(outer) or assignments(outer, e.id):
                            return self.eval(m, outer, e, {}, depth + 1)
                        outer = enclosing_func(outer)
                if e.id in params(f) and not assignments(f, e.id):
                    return self.eval_param(m, f, e.id, depth + 1)
                asg = assignments(f, e.id)
                if asg:
                    out = []
                    for _st, val in asg:
                        out = union(out, self.eval(m, f, val, env, depth + 1) if val is not None else any_str())
                    if e.id in params(f):
                        out = union(out, any_str(f"parameter {e.id}"))
                    return out
            r = self.proj.resolve(m, e.id)
            if r and r[0] == "global":
                return self.eval(r[1], None, r[1].global_value(r[2]), {}, depth + 1)
            return any_str(f"name {e.id}")
        if isinstance(e, ast.Subscript) and isinstance(e.slice, ast.Slice):
            base = self.eval(m, f, e.value, env, depth + 1)
            lo_ok, lo = self.proj.try_fold(m, e.slice.lower) if e.slice.lower is not None else (True, 0)
            hi_ok, hi = self.proj.try_fold(m, e.slice.upper) if e.slice.upper is not None else (True, None)
            if lo_ok and hi_ok and isinstance(lo, int) and (hi is None or isinstance(hi, int)) and lo >= 0 and (hi is None or hi >= 0):
                out = []
                for alt in base:
                    if len(alt) == 1 and alt[0].kind == "field":
                        s = alt[0]
                        width = None if hi is None else max(0, hi - lo)
                        nlo = max(0, min(s.lo - lo, width if width is not None else s.lo - lo))
                        nhi = width if s.hi is None else (max(0, s.hi - lo) if width is None else min(width, max(0, s.hi - lo)))
                        out.append([Seg.field(s.alphabet, nlo, nhi, s.why + f"[{lo}:{'' if hi is None else hi}]")])
                    else:
                        a = alphabet_of([alt])
                        out.append([Seg.field(a, 0, None if hi is None else max(0, hi - lo), "slice")])
                return out
            return [[Seg.field(alphabet_of(base), 0, None, "slice")]]
        if isinstance(e, ast.Call):
            return self._call(m, f, e, env, depth)
        if isinstance(e, ast.Attribute):
            r = self.proj.resolve_expr(m, e)
            if r and r[0] == "global":
                return self.eval(r[1], None, r[1].global_value(r[2]), {}, depth + 1)
            return any_str(f"attribute {key}")
        return any_str(type(e).__name__)

    def eval_param(self, m: Module, f: FuncNode, pname: str, depth: int = 0) -> AbsStr:
        """Union of what in-package call sites pass for parameter `pname` (ANY if there is no such call site)."""
        if depth > 18:
            return any_str("depth")
        fk = f"{m.name}:{qual_of(f)}"
        sites = [e for e in self.cg.callers(fk) if isinstance(e[1], ast.Call)]
        if not sites:
            return any_str(f"parameter {pname} (no in-package caller)")
        ps = params(f)
        out: AbsStr = []
        for ck, site, _k in sites:
            cm, cf = self.cg.funcs[ck]
            off = 1 if isinstance(site.func, ast.Attribute) and ps[:1] in (["self"], ["cls"]) else 0
            arg = None
            idx = ps.index(pname) - off
            if 0 <= idx < len(site.args) and not any(isinstance(a, ast.Starred) for a in site.args[: idx + 1]):
                arg = site.args[idx]
            for k in site.keywords:
                if k.arg == pname:
                    arg = k.value
            if arg is None:
                # default value
                a = f.args
                allp = a.posonlyargs + a.args
                defaults = dict(zip([x.arg for x in allp][len(allp) - len(a.defaults):], a.defaults))
                defaults.update({x.arg: dflt for x, dflt in zip(a.kwonlyargs, a.kw_defaults) if dflt is not None})
                if pname in defaults:
                    out = union(out, self.eval(m, f, defaults[pname], {}, depth + 1))
                else:
                    out = union(out, any_str(f"parameter {pname} not passed"))
            else:
                out = union(out, self.eval(cm, cf, arg, {}, depth + 1))
        return out

    def _call(self, m: Module, f: Optional[FuncNode], e: ast.Call, env: Dict[str, AbsStr], depth: int) -> AbsStr:
        fn = e.func
        name = last_attr(fn) or ""
        d = dotted(fn) or ""
        # template.format(k=v)
        if isinstance(fn, ast.Attribute) and name == "format":
            ok, tpl = self.proj.try_fold(m, fn.value)
            if ok and isinstance(tpl, str):
                out: AbsStr = [[]]
                kw = {k.arg: k.value for k in e.keywords if k.arg}
                pos = list(e.args)
                auto = 0
                for lit_text, field, spec, conv in _string.Formatter().parse(tpl):
                    out = concat(out, lit(lit_text))
                    if field is None:
                        continue
                    if spec or conv:
                        out = concat(out, any_str("format spec"))
                        continue
                    if field == "":
                        arg = pos[auto] if auto < len(pos) else None
                        auto += 1
                    elif field.isdigit():
                        arg = pos[int(field)] if int(field) < len(pos) else None
                    else:
                        arg = kw.get(field)
                    out = concat(out, self.eval(m, f, arg, env, depth + 1) if arg is not None else any_str("format field"))
                return out
        # hexdigest
        if name == "hexdigest":
            return [[Seg.field(HEX_LOWER, 32, 64, "hexdigest")]]
        if name in ("encode", "decode", "strip") and isinstance(fn, ast.Attribute):
            base = self.eval(m, f, fn.value, env, depth + 1)
            if name == "strip":
                return [[Seg.field(alphabet_of(base), 0, None, "strip")]]
            return base
        if name in ("lower", "upper") and isinstance(fn, ast.Attribute):
            base = self.eval(m, f, fn.value, env, depth + 1)
            conv = (lambda c: c.lower()) if name == "lower" else (lambda c: c.upper())
            out = []
            for alt in base:
                out.append([Seg.lit(conv(s.text)) if s.kind == "lit" else Seg.field({conv(c) if len(conv(c)) == 1 and conv(c) in ANY else c for c in s.alphabet}, s.lo, s.hi, s.why) for s in alt])
            return out
        if name in ("mark_safe", "SafeString", "str", "cast") and e.args:
            return self.eval(m, f, e.args[-1], env, depth + 1)
        # re.sub(class, repl, s) / compiled.sub(repl, s)
        if name == "sub":
            pat = None
            rest: Sequence[ast.AST] = []
            if d == "re.sub" and len(e.args) >= 3:
                ok, pat = self.proj.try_fold(m, e.args[0])
                rest = e.args[1:]
            elif isinstance(fn, ast.Attribute):
                r = self.proj.resolve_expr(m, fn.value)
                if r and r[0] == "global":
                    gv = r[1].global_value(r[2])
                    if isinstance(gv, ast.Call) and dotted(gv.func) == "re.compile" and gv.args:
                        ok, pat = self.proj.try_fold(r[1], gv.args[0])
                        rest = e.args
            if isinstance(pat, str) and len(rest) >= 2:
                okr, repl = self.proj.try_fold(m, rest[0])
                tree = list(sre_parse.parse(pat))
                if okr and isinstance(repl, str) and len(tree) == 1 and str(tree[0][0]) in ("IN", "LITERAL", "NOT_LITERAL", "CATEGORY"):
                    matched = charset(tree[0][0], tree[0][1], False, 0)
                    src = self.eval(m, f, rest[1], env, depth + 1)
                    out = []
                    for alt in src:
                        na: Alt = []
                        for s in alt:
                            if s.kind == "lit":
                                na.append(Seg.lit("".join(repl if c in matched else c for c in s.text)))
                            else:
                                alpha = (set(s.alphabet) - set(matched)) | (set(repl) if (set(s.alphabet) & set(matched)) else set())
                                mul = max(1, len(repl))
                                na.append(Seg.field(alpha, s.lo if len(repl) >= 1 else 0, None if s.hi is None else s.hi * mul, s.why + f" after sub({pat!r})"))
                        out.append(na)
                    return out
        # in-package callee: inline by return expressions
        tgt = self.cg.resolve_callee(m, e, fn)
        if tgt is not None and isinstance(tgt[1], (ast.FunctionDef, ast.AsyncFunctionDef)):
            tm, tf = tgt
            if tf.name == "generate" and tm.name.endswith("nanoid"):
                a_expr = e.args[0] if e.args else next((k.value for k in e.keywords if k.arg == "alphabet"), None)
                s_expr = e.args[1] if len(e.args) > 1 else next((k.value for k in e.keywords if k.arg == "size"), None)
                oka, alpha = self.proj.try_fold(m, a_expr)
                oks, size = self.proj.try_fold(m, s_expr)
                if oka and oks and isinstance(alpha, str) and isinstance(size, int):
                    return [[Seg.field(set(alpha), size, size, "nanoid.generate")]]
                return any_str("generate() with non-constant alphabet/size")
            ps = params(tf)
            off = 1 if isinstance(fn, ast.Attribute) and ps[:1] in (["self"], ["cls"]) else 0
            cenv: Dict[str, AbsStr] = {}
            for i, a in enumerate(e.args):
                if i + off < len(ps):
                    cenv[ps[i + off]] = self.eval(m, f, a, env, depth + 1)
            for k in e.keywords:
                if k.arg:
                    cenv[k.arg] = self.eval(m, f, k.value, env, depth + 1)
            rets = [n for n in body_walk(tf) if isinstance(n, ast.Return)]
            out = []
            for r2 in rets:
                if r2.value is None or (isinstance(r2.value, ast.Constant) and r2.value.value is None):
                    out = union(out, [[]])
                else:
                    out = union(out, self.eval(tm, tf, r2.value, cenv, depth + 1))
            return out or any_str("no return")
        return any_str(f"call {d or name}")
