"""C08 — render_dependencies only strips markers and inserts tags where documented (DESIGN.md section 3, C08).

S1 order-aware offset compensation of the two default insertions.
S2 first </head> (guarded by `is None`), last </body> (unguarded), both at match.start().
S3 type round trip str / SafeString / bytes.
S4 who may transform the content: only the reviewed right-hand sides; insertions have the pure shape s[:i] + c + s[i:];
   placeholder replacements are the per-mode variables.
S5 middleware guard: not streaming AND Content-Type starts with text/html.
"""
from __future__ import annotations

import ast
from typing import Dict, List, Optional, Tuple

from ..astq import assignments, calls, kwarg, local_from, local_from_text, params, stmts
from ..callgraph import fkey
from ..cfg import cond_atoms, flatten_conj, path_conditions
from ..report import Check
from ..source import AnalysisError, Project, ancestors, assign_targets, body_walk, dotted, enclosing_stmt, last_attr, norm, parent, short


def run(chk: Check, proj: Project) -> None:
    chk.explanation = (
        "Shape and control dependence of every statement that can change the document in render_dependencies and the "
        "middleware: allowed transformations only, pure insertions, order-aware index compensation, first/last tag "
        "selection idioms, type round trip, and the middleware's guard."
    )
    chk.not_decided = ["byte-for-byte preservation as an equality over all documents", "whether </HEAD> counts as </head> (case; the statement is ambiguous)"]
    chk.trusted_base = ["re.sub replaces exactly the matched spans", "str.encode()/bytes.decode() round-trip UTF-8"]
    m = proj.mod("dependencies")
    s1_s2(chk, proj, m)
    s3(chk, proj, m)
    s4(chk, proj, m)
    s5(chk, proj, m)
    s6_gating(chk, proj, m)
    s7_frames(chk, proj, m)
    s8_reader_not_wider(chk, proj, m)
    s14_no_value_keyed_memo(chk, proj, m)
    s9_optional_index(chk, proj, m)
    s10_scan_input(chk, proj, m)
    s12_gives_up_only_without_both(chk, proj, m)
    s17_tag_name_of_every_match(chk, proj, m)
    s18_marker_removal_exact(chk, proj, m)
    from . import C04
    from .common import world

    chk.borrow("S11", "marker removal and placeholder substitution dominate every normal return, for both render types (shared with C04-S2)", lambda sub: C04.s2_consumed(sub, proj, world(proj)))
    from ..absstr import Evaluator
    from . import C19

    chk.borrow("S15", "what is put where a CSS placeholder / </head> was is CSS and what is put where a JS placeholder / </body> was is JS: kind flow from the collected tags to the replacement values and the insertion helper's keyword arguments (shared with C19-S11)",
               lambda sub: C19.s11_kind_flow(sub, proj, world(proj)), only=lambda o: "render_dependencies" in o.construct or "on_replace_match" in o.construct or "_insert_js_css" in o.construct)
    from . import C07 as _C07

    _w = world(proj)
    chk.borrow("S16", "what one call of render_dependencies found in ITS document stays in that call: the placeholder-found flags (which decide whether the default locations are used) are locals / closure cells - module-level bookkeeping that is cleared at the top and read after the substitution is overwritten by a second call that runs in between (another thread, or a render started from a Media hook), and a document without placeholders loses its default-location insertion (shared with C07-S1-C)",
               lambda sub: _C07.s1c_shared(sub, proj, _w, _C07.reach_set(proj, _w)), only=lambda o: o.construct.startswith("dependencies:"))
    chk.borrow("S13", "no bookkeeping record survives because its reader does not recognise it: every marker comment / placeholder the writers can emit (for every class name, a leading underscore included) is fully matched by the regex that removes it (shared with C04-S1)",
               lambda sub: C04.s1_records(sub, proj, Evaluator(proj, world(proj).cg)), only=lambda o: "marker-comment" in o.construct or "placeholder" in o.construct.lower())


def placeholder_roles(f) -> dict:
    """Rename-proof roles in render_dependencies: which flag / dependency variable belongs to which kind."""
    R = _rd_roles(f)
    orm = next((x for x in body_walk(f) if isinstance(x, ast.FunctionDef) and any(isinstance(n, ast.Nonlocal) for n in ast.walk(x))), None)
    flags = {}
    if orm is not None:
        for st in [x for x in ast.walk(orm) if isinstance(x, ast.If)]:
            kind = "css" if "CSS_PLACEHOLDER" in norm(st.test) else "js" if "JS_PLACEHOLDER" in norm(st.test) else None
            if kind:
                for a in st.body:
                    if isinstance(a, ast.Assign) and isinstance(a.value, ast.Constant) and a.value.value is True and isinstance(a.targets[0], ast.Name):
                        flags[kind] = a.targets[0].id
    return {"flags": flags, "deps": {"js": R["js"], "css": R["css"]}, "work": R["work"]}


def s12_gives_up_only_without_both(chk: Check, proj: Project, m, rule: str = "S12") -> None:
    chk.rule(rule, "the default-location helper gives up (returns None) only when NOTHING was or could be inserted: at the top both kinds must be absent (one None is the normal case - the caller passes None for the kind whose placeholder was found); after the scan a give-up must not depend on the position of only ONE of the two end tags")
    f = m.func("_insert_js_css_to_default_locations")
    kinds = [p_ for p_ in params(f) if p_.endswith("_content") and p_ != params(f)[0]]
    nones = [r for r in stmts(f) if isinstance(r, ast.Return) and (r.value is None or (isinstance(r.value, ast.Constant) and r.value.value is None))]
    if len(kinds) != 2:
        chk.undecided(rule, "dependencies:_insert_js_css_to_default_locations:give-up-conditions", m.loc(f), "content parameters not identified")
        return
    idx, _bad = optional_index_truthiness(f)
    n = 0
    for r in nones:
        at = {t for t, pol in cond_atoms(r) if pol}
        guard = enclosing_stmt(r)
        g = next((a_ for a_ in ancestors(r) if isinstance(a_, ast.If)), None)
        key = f"dependencies:_insert_js_css_to_default_locations:give-up@{'top' if g is not None and g in f.body[:4] else 'after-scan' if g is not None else 'end'}"
        n += 1
        both_absent = all(f"{k} is None" in at for k in kinds)
        flag_based = any(not (" is None" in t) for t in at) or not at  # e.g. `not did_modify_html`: decided by what happened
        # a disjunction leaves no atom: look at the guard's test itself
        disj = isinstance(getattr(g, "test", None), ast.BoolOp) and isinstance(g.test.op, ast.Or) and all(isinstance(v, ast.Compare) and isinstance(v.ops[0], ast.Is) for v in g.test.values) if g is not None else False
        if disj:
            chk.violated(rule, key, m.loc(r), f"`if {short(g.test)}: return None` gives up as soon as ONE of the two is missing: a page with a placeholder for only one kind, or with </body> but no </head>, silently loses the other kind's tags (the markers are stripped regardless, so nothing recovers them)")
        elif both_absent or flag_based:
            chk.holds(rule, key, m.loc(r), "gives up only if both kinds are absent / nothing was inserted")
        else:
            chk.violated(rule, key, m.loc(r), f"`return None` under {sorted(at)} does not require both kinds to be absent: the other kind is never inserted")
    chk.floor(rule, n, 2)
    # the flag the final give-up tests is raised next to EVERY insertion
    flagv = next((t.split()[-1] for r in nones for t, pol in cond_atoms(r) if t.startswith("not ") and " " not in t[4:]), None) or next((t for r in nones for t, pol in cond_atoms(r) if not pol and t.isidentifier()), None)
    if flagv:
        for st, _S, _i, _c in _insertions(f):
            blk = next((getattr(par_, fld) for par_ in [st.parent] for fld in ("body", "orelse") if isinstance(getattr(par_, fld, None), list) and st in getattr(par_, fld)), [])  # type: ignore[attr-defined]
            sets_flag = any(isinstance(x, ast.Assign) and norm(x.targets[0]) == flagv and isinstance(x.value, ast.Constant) and x.value.value is True for x in blk)
            chk.ob(rule, f"dependencies:_insert_js_css_to_default_locations:{flagv}-set-with-insertion-of-{_c}", m.loc(st), sets_flag,
                   f"`{flagv} = True` accompanies the insertion of `{_c}`" if sets_flag else
                   f"the insertion of `{_c}` is not followed by `{flagv} = True`: when it is the ONLY insertion of the call (a page without </head>, or a CSS placeholder plus default-location JS) the helper reports 'nothing changed', the caller keeps the text without the insertion, and the {_c.split('_')[0].upper()} is silently dropped")
    # ... and the caller lets the helper decide: whether the document HAS an insertion point is the helper's regex scan; a
    # pre-test of the content at the call site can only be narrower than that scan
    rf = m.func("render_dependencies")
    sc = [c for c in calls(rf) if last_attr(c.func) == "_insert_js_css_to_default_locations"]
    if sc:
        pre = []
        for e, pol in flatten_conj(path_conditions(enclosing_stmt(sc[0]))):
            for v_ in [e] + [x for nm_ in {y.id for y in ast.walk(e) if isinstance(y, ast.Name)} for _s, x in assignments(rf, nm_) if x is not None]:
                if any(isinstance(c_, ast.Compare) and isinstance(c_.ops[0], (ast.In, ast.NotIn)) and isinstance(c_.left, ast.Constant) and isinstance(c_.left.value, (str, bytes)) and ("head" in str(c_.left.value).lower() or "body" in str(c_.left.value).lower()) for c_ in ast.walk(v_)):
                    pre.append(e)
        chk.ob(rule, "dependencies:render_dependencies:no-literal-pretest-of-the-insertion-point", m.loc(pre[0]) if pre else m.loc(sc[0]), not pre,
               "the default-location helper is called whenever a kind is still to be placed; only its own scan decides whether an end tag exists" if not pre else
               f"the call is additionally guarded by `{short(pre[0])}`, a literal test that is narrower than the helper's end-tag regex: a document whose end tags are all written `</head >` / `</body\\n>` never reaches the helper, the markers are stripped and the collected CSS / JS is silently dropped")


def s14_no_value_keyed_memo(chk: Check, proj: Project, m) -> None:
    chk.rule("S14", "the result type follows the argument's type on EVERY call: the entry points that take the content are not memoised by a value-keyed cache (functools.lru_cache / cache compare arguments with ==, and SafeString('x') == 'x' with the same hash, so the str / SafeString distinction is lost in the key)")
    n = 0
    for q in ("render_dependencies", "_render_dependencies", "_insert_js_css_to_default_locations"):
        r = proj.try_func("dependencies", q)
        if r is None:
            continue
        _m, f = r
        n += 1
        decs = [norm(d.func) if isinstance(d, ast.Call) else norm(d) for d in f.decorator_list]
        memo = [d for d in decs if d.split(".")[-1] in ("lru_cache", "cache", "cached", "memoize", "cached_property")]
        chk.ob("S14", f"dependencies:{q}:not-memoised-by-value", m.loc(f), not memo,
               "no value-keyed memo in front of the function" if not memo else
               f"`@{memo[0]}` keys the result by argument EQUALITY: the second call with equal text of the other str type gets the first call's object back - a SafeString comes back as plain str (escaped again downstream), or an untrusted str comes back marked safe")
    chk.floor("S14", n, 2)


def s10_scan_input(chk: Check, proj: Project, m) -> None:
    chk.rule("S10", "the scan for the document's own </head> / </body> looks at text that does not yet contain inserted dependency content: it runs before the placeholder substitution (or on a copy taken before it)")
    f = m.func("render_dependencies")
    R = _rd_roles(f)
    W = R["work"]
    sub = [st for st in stmts(f) if isinstance(st, ast.Assign) and isinstance(st.value, ast.Call) and isinstance(st.value.func, ast.Attribute) and st.value.func.attr == "sub" and "PLACEHOLDER" in norm(st.value.func.value)]
    scan = [c for c in calls(f) if last_attr(c.func) == "_insert_js_css_to_default_locations"]
    if len(sub) != 1 or len(scan) != 1 or not W:
        chk.undecided("S10", "dependencies:render_dependencies:default-location-scan-sees-no-inserted-content", m.loc(f), f"{len(sub)} placeholder substitutions, {len(scan)} default-location scans")
        return
    arg = scan[0].args[0] if scan[0].args else None
    reads_work = arg is not None and any(isinstance(x, ast.Name) and x.id == W for x in ast.walk(arg))
    # in document mode the substitution inserts the collected JS / CSS where the placeholders were
    inserts = any(isinstance(x, ast.IfExp) or isinstance(x, ast.Name) for x in ast.walk(sub[0].value.args[0])) if sub[0].value.args else True
    after = scan[0].lineno > sub[0].lineno and reads_work and norm(sub[0].targets[0]) == W
    chk.ob("S10", "dependencies:render_dependencies:default-location-scan-sees-no-inserted-content", m.loc(scan[0]), not (after and inserts),
           "the default-location scan runs on the text as it was before the dependency content was inserted" if not after else
           f"`{short(scan[0], 60)}` scans `{W}` after `{short(sub[0], 50)}` has already put the collected JS / CSS into it: an end tag inside a component's own script (js = \"var s = '</head>';\") is taken for the document's, and the CSS is spliced into that script")
    # the same inside the insertion helper: once one kind has been inserted, nothing is scanned again
    g = m.func("_insert_js_css_to_default_locations")
    chk.analysed(fkey(m, g))
    ins_vars = {norm(st.targets[0]) for st, _S, _i, _c in _insertions(g)}
    rescans = [c for c in calls(g) if isinstance(c.func, ast.Attribute) and c.func.attr in ("finditer", "search", "match", "findall", "find", "rfind", "index", "rindex")
               and any(isinstance(x, ast.Name) and x.id in ins_vars for a in c.args for x in ast.walk(a)) or (isinstance(c.func, ast.Attribute) and c.func.attr in ("find", "rfind", "index", "rindex") and norm(c.func.value) in ins_vars)]
    chk.ob("S10", "dependencies:_insert_js_css_to_default_locations:no-scan-of-text-with-inserted-content", m.loc(rescans[0]) if rescans else m.loc(g), not rescans,
           f"every search in the helper reads the text as it came in; `{', '.join(sorted(ins_vars)) or 'the result'}` (text with inserted content) is only written" if not rescans else
           f"`{short(rescans[0], 70)}` searches `{', '.join(sorted(ins_vars))}` after the CSS has been inserted into it: a `</body>` inside a component's own CSS (legal in a comment or a `content:` string) is taken for the document's, and the JS is spliced into the middle of the inserted <style> block")


_INDEX_CALLS = ("start", "end", "find", "rfind", "index", "rindex")


def optional_index_truthiness(f: ast.AST) -> Tuple[List[str], List[ast.AST]]:
    """Variables of `f` that hold `None` or a string index (0 is a valid index), and the places where one of them is
    tested by plain truthiness instead of `is (not) None`."""
    defs: Dict[str, List[ast.AST]] = {}
    for st in stmts(f):
        for t, v in assign_targets(st):
            if isinstance(t, ast.Name) and v is not None:
                defs.setdefault(t.id, []).append(v)
        if isinstance(st, ast.AnnAssign) and isinstance(st.target, ast.Name) and st.value is not None:
            defs.setdefault(st.target.id, []).append(st.value)
    idx = [v for v, ds in defs.items() if any(isinstance(d, ast.Constant) and d.value is None for d in ds)
           and any(isinstance(d, ast.Call) and isinstance(d.func, ast.Attribute) and d.func.attr in _INDEX_CALLS for d in ds)]
    bad: List[ast.AST] = []

    def boolctx(e: ast.AST) -> None:
        if isinstance(e, ast.Name) and e.id in idx:
            bad.append(e)
        elif isinstance(e, ast.BoolOp):
            for v in e.values:
                boolctx(v)
        elif isinstance(e, ast.UnaryOp) and isinstance(e.op, ast.Not):
            boolctx(e.operand)

    for x in ast.walk(f):
        if isinstance(x, (ast.If, ast.While, ast.IfExp)):
            boolctx(x.test)
        elif isinstance(x, ast.Assert):
            boolctx(x.test)
    return sorted(idx), bad


_FIXTURE_OPT_INDEX = "def f(s, m):\n    i = None\n    if m:\n        i = m.start()\n    if i:\n        return s[:i]\n"


def s9_optional_index(chk: Check, proj: Project, m) -> None:
    chk.rule("S9", "a variable that is `None` or a position in the document (0 is a valid position) is never tested by plain truthiness")
    fx = optional_index_truthiness(ast.parse(_FIXTURE_OPT_INDEX).body[0])
    if fx[0] != ["i"] or len(fx[1]) != 1:
        raise AnalysisError("optional-index lint lost its positive fixture")
    n = 0
    for q, f in sorted(m.defs.items()) if hasattr(m, "defs") else []:
        if not isinstance(f, ast.FunctionDef):
            continue
        idx, bad = optional_index_truthiness(f)
        for v in idx:
            n += 1
            b = [x for x in bad if x.id == v]
            chk.ob("S9", f"dependencies:{q}:{v}:none-test", m.loc(b[0]) if b else m.loc(f), not b,
                   f"`{v}` is only tested with `is None` / `is not None`" if not b else
                   f"`{short(enclosing_stmt(b[0]))}` tests the position `{v}` by truthiness: when the end tag sits at offset 0 (a fragment that starts with </head>, or a marker directly followed by </body>) nothing is inserted there")
    chk.floor("S9", n, 2)


def s6_gating(chk: Check, proj: Project, m) -> None:
    chk.rule("S6", "tags are inserted at the default locations only in document mode, and a kind (css / js) is inserted there only if NO placeholder of that same kind was found; what is inserted is that kind's tags")
    f = m.func("render_dependencies")
    P = placeholder_roles(f)
    fl, deps = P["flags"], P["deps"]
    ic = calls(f, "_insert_js_css_to_default_locations")
    if len(fl) != 2 or not ic or not all(deps.values()):
        chk.undecided("S6", "dependencies:render_dependencies:default-insertion-roles", m.loc(f), f"placeholder flags / dependency variables not identified ({P})")
        return
    c = ic[0]
    for kind in ("css", "js"):
        v = kwarg(c, f"{kind}_content")
        ok = isinstance(v, ast.IfExp) and norm(v.test) == fl[kind] and isinstance(v.body, ast.Constant) and v.body.value is None and norm(v.orelse) == f"{deps[kind]}.decode()"
        chk.ob("S6", f"dependencies:render_dependencies:default-{kind}-iff-no-{kind}-placeholder", m.loc(c), ok,
               f"{kind}_content = None if <{kind} placeholder found> else <{kind} tags>" if ok else
               f"`{kind}_content={short(v) if v is not None else '?'}`: the {kind} tags for the default location are not suppressed by the {kind.upper()} placeholder flag `{fl[kind]}` / are not the {kind} tags `{deps[kind]}`: with exactly one kind of placeholder on the page one kind is delivered twice and the other never")
    atoms = cond_atoms(enclosing_stmt(c))
    doc = any(pol and t == "type == 'document'" for t, pol in atoms)
    chk.ob("S6", "dependencies:render_dependencies:default-insertion-only-for-documents", m.loc(c), doc,
           "insertion before </head> / </body> happens only for type == 'document'" if doc else
           "tags are inserted before </head> / </body> also for fragments: a fragment that contains those end tags gets the tags spliced into its content (and the declaration script appended as well)")
    both = any(pol and all(x in t for x in (f"not {fl['js']}", f"not {fl['css']}")) and " or " in t for t, pol in atoms)
    chk.ob("S6", "dependencies:render_dependencies:default-insertion-if-a-kind-lacks-placeholder", m.loc(c), both, "entered when at least one kind has no placeholder")


def s7_frames(chk: Check, proj: Project, m) -> None:
    chk.rule("S7", "the positions of </head> / </body> are measured on the very string the insertions are applied to")
    f = m.func("_insert_js_css_to_default_locations")
    ins = _insertions(f)
    fi = [c for c in calls(f, "finditer")]
    if not ins or not fi:
        chk.undecided("S7", "dependencies:_insert_js_css_to_default_locations:frames", m.loc(f), "finditer / insertions not found")
        return
    subject = fi[0].args[0] if fi[0].args else None
    base = ins[0][1][0]
    # the first insertion's base string must be (an alias of) the scanned string, unmodified
    d = assignments(f, base)
    alias_of = norm(d[0][1]) if d and d[0][1] is not None else base
    ok = subject is not None and isinstance(subject, ast.Name) and (subject.id == base or subject.id == alias_of) and subject.id in params(f)
    chk.ob("S7", "dependencies:_insert_js_css_to_default_locations:scan-subject-is-insertion-base", m.loc(fi[0]), ok,
           f"match positions are taken on `{norm(subject) if subject is not None else '?'}`, the string the tags are inserted into" if ok else
           f"the end tags are searched in `{short(subject) if subject is not None else '?'}` but the tags are inserted into `{alias_of}`: when the two differ in length before the match (e.g. `.lower()` of 'İ' grows by one character) the tags land inside the end tag")


def s8_reader_not_wider(chk: Check, proj: Project, m) -> None:
    chk.rule("S8", "PLACEHOLDER_REGEX matches nothing but the library's placeholders with `data-djc-*=\"\"` attributes (language inclusion in a tolerant closure of what the writer emits)")
    from ..regexlang import Lang, included
    from .markers import compiled_regex

    pat, fl, node = compiled_regex(proj, "dependencies", "PLACEHOLDER_REGEX")
    refs = []
    for cname, tail in (("CSS_DEPENDENCY_PLACEHOLDER", "/?>"), ("JS_DEPENDENCY_PLACEHOLDER", None)):
        okc, base = proj.try_fold(m, m.global_value(cname))
        if not okc:
            raise AnalysisError(f"{cname} not a constant")
        gt = base.index(">")
        import re as _re

        refs.append(_re.escape(base[:gt]) + r'(?: data-djc-[a-z]+-\w+="")*' + (tail if tail else _re.escape(base[gt:])))
    ref = "|".join(refs)
    ref_b = ref.encode() if isinstance(pat, bytes) else ref
    ok, wit = included(Lang(pat, fl), Lang(ref_b, 0))
    chk.paths += 1
    chk.ob("S8", "dependencies:PLACEHOLDER_REGEX:not-wider-than-writer", m.loc(node), ok,
           "every string PLACEHOLDER_REGEX matches is a placeholder tag with only data-djc-* attributes" if ok else
           f"PLACEHOLDER_REGEX also matches {wit!r}, which the library never writes: an author's own tag that merely carries a placeholder name (plus other attributes) is deleted / replaced and suppresses the default insertion",
           detail={"reference": ref, "witness": wit})
    # the end-tag scanner recognises end tags of the head / body ELEMENTS only
    scan = m.func("_insert_js_css_to_default_locations")
    rx = [c for c in calls(scan) if isinstance(c.func, ast.Attribute) and c.func.attr in ("finditer", "search", "match", "findall") and isinstance(c.func.value, ast.Name)]
    names = sorted({c.func.value.id for c in rx})
    if len(names) != 1:
        chk.undecided("S8", "dependencies:end-tag-regex:not-wider-than-head-body-end-tags", m.loc(scan), f"end-tag scanner regex not identified ({names})")
        return
    pat2, fl2, node2 = compiled_regex(proj, "dependencies", names[0])
    ref2 = r"(?i)</(?:head|body)(?:\s[^>]*)?>"
    ok2, wit2 = included(Lang(pat2, fl2), Lang(ref2.encode() if isinstance(pat2, bytes) else ref2, 0))
    chk.paths += 1
    chk.ob("S8", "dependencies:end-tag-regex:not-wider-than-head-body-end-tags", m.loc(node2), ok2,
           f"everything `{names[0]}` matches is an end tag of <head> or <body> (name, then whitespace or `>`)" if ok2 else
           f"`{names[0]}` also matches {wit2!r}: the end tag of another (custom) element whose name merely starts with head / body is taken for the document's, and the CSS / JS is inserted there",
           detail={"reference": ref2, "witness": wit2})
    # ... and ALL of them as HTML writes them: the tag name may be followed by whitespace before `>`
    need = r"(?i)</(?:head|body)[ \t\n\r\f]*>"  # HTML tag names are case-insensitive (F53)
    ok3, wit3 = included(Lang(need.encode() if isinstance(pat2, bytes) else need, 0), Lang(pat2, fl2))
    chk.paths += 1
    import re as _re2
    if fl2 & _re2.IGNORECASE:
        cls_ = [st for st in stmts(scan) if isinstance(st, ast.Assign) and isinstance(st.value, (ast.Subscript, ast.Call)) and "match" in norm(st.value) and any(isinstance(c_, ast.Compare) and norm(c_.left) == norm(st.targets[0]) and isinstance(c_.comparators[0], ast.Constant) and c_.comparators[0].value in ("head", "body") for c_ in ast.walk(scan))]
        okl = bool(cls_) and all(".lower()" in norm(st.value) or ".casefold()" in norm(st.value) for st in cls_)
        chk.ob("S8", "dependencies:end-tag-classification-ignores-case-too", m.loc(cls_[0]) if cls_ else m.loc(scan), okl if cls_ else None,
               "the matched tag name is lower-cased before it is compared with 'head' / 'body'" if okl else
               f"`{short(cls_[0]) if cls_ else '?'}` compares the matched text as written with 'head' / 'body' although the regex ignores case: `</HEAD>` matches and then raises ValueError('Unexpected tag name')")
    chk.ob("S8", "dependencies:end-tag-regex:matches-every-head-body-end-tag", m.loc(node2), ok3,
           f"`{names[0]}` matches `</head>` / `</body>` in any letter case and with any whitespace before `>` (the HTML syntax of an end tag)" if ok3 else
           f"`{names[0]}` does not match {wit3!r}, a valid end tag: on such a page no insertion point is found, the markers are stripped and the collected JS / CSS is silently dropped",
           detail={"required": need, "witness": wit3})


def _insertions(f) -> List[Tuple[ast.Assign, str, str, str]]:
    """`X = S[:i] + c + S[i:]` -> (stmt, S, i, c)."""
    out = []
    for st in stmts(f):
        if isinstance(st, ast.Assign) and isinstance(st.value, ast.BinOp) and isinstance(st.value.op, ast.Add) and isinstance(st.value.left, ast.BinOp) and isinstance(st.value.left.op, ast.Add):
            a, c, b = st.value.left.left, st.value.left.right, st.value.right
            if isinstance(a, ast.Subscript) and isinstance(b, ast.Subscript) and isinstance(a.slice, ast.Slice) and isinstance(b.slice, ast.Slice):
                if a.slice.lower is None and a.slice.upper is not None and b.slice.lower is not None and b.slice.upper is None:
                    out.append((st, (norm(a.value), norm(b.value)), (norm(a.slice.upper), norm(b.slice.lower)), norm(c)))
    return out


def s1_s2(chk: Check, proj: Project, m) -> None:
    chk.rule("S1", "when two insertions use indices measured on the un-modified string, the correction of the second index is control-dependent on a comparison of the two indices (or the later position is inserted first)")
    chk.rule("S2", "the CSS index is taken from the FIRST </head> (assignment guarded by `is None`), the JS index from the LAST </body> (unguarded), both at match.start()")
    f = m.func("_insert_js_css_to_default_locations")
    chk.analysed(fkey(m, f))
    ins = _insertions(f)
    if len(ins) != 2:
        chk.undecided("S1", "dependencies:_insert_js_css_to_default_locations:shape", m.loc(f), f"expected two slice insertions, found {len(ins)}")
        return
    for st, (s1, s2), (i1, i2), c in ins:
        pure = s1 == s2 and i1 == i2
        chk.ob("S4", f"dependencies:_insert_js_css_to_default_locations:pure-insertion:{c}", m.loc(st), pure, f"`{s1}[:{i1}] + {c} + {s1}[{i1}:]` keeps every other character in order" if pure else f"`{short(st)}` is not a pure insertion (different strings / indices on the two sides): bytes are dropped or duplicated")
    first, second = ins[0], ins[1]
    idx1, idx2 = first[2][0], second[2][0]
    # where do the indices come from?
    a2 = assignments(f, idx2)
    comp = None
    if len(a2) == 1 and isinstance(a2[0][1], ast.BinOp) and isinstance(a2[0][1].op, ast.Add):
        parts = [norm(a2[0][1].left), norm(a2[0][1].right)]
        offs = [p for p in parts if assignments(f, p) and any(isinstance(v, ast.Call) and norm(v.func) == "len" for _s, v in assignments(f, p) if v is not None)]
        base = [p for p in parts if p not in offs]
        if offs and base:
            off = offs[0]
            sets = [s for s, v in assignments(f, off) if isinstance(v, ast.Call)]
            ok = bool(sets) and all(any(isinstance(e, ast.Compare) and {norm(e.left), norm(e.comparators[0])} == {idx1, base[0]} and isinstance(e.ops[0], (ast.Lt, ast.LtE, ast.Gt, ast.GtE)) for e, pol in flatten_conj(path_conditions(s))) for s in sets)
            chk.ob("S1", "dependencies:_insert_js_css_to_default_locations:offset-is-order-aware", m.loc(sets[0]) if sets else m.loc(f), ok,
                   f"`{off} = len(...)` is applied only when `{idx1}` precedes `{base[0]}`" if ok else
                   f"`{short(sets[0]) if sets else off}` shifts the second insertion unconditionally: when `{base[0]}` lies BEFORE `{idx1}` (</body> before </head>) the JS is spliced into the middle of the end tag")
            comp = True
    if comp is None:
        chk.undecided("S1", "dependencies:_insert_js_css_to_default_locations:offset-is-order-aware", m.loc(f), "could not identify the index compensation idiom")
    # S2
    loop = next((x for x in body_walk(f) if isinstance(x, ast.For) and "finditer" in norm(x.iter)), None)
    if loop is None:
        raise AnalysisError("_insert_js_css_to_default_locations: finditer loop not found")
    for var, want_guard, what in ((idx1, True, "first </head>"), (_base_of(f, idx2), False, "last </body>")):
        sets = [s for s in stmts(loop.body) if isinstance(s, ast.Assign) and norm(s.targets[0]) == var]
        if len(sets) != 1:
            chk.undecided("S2", f"dependencies:_insert_js_css_to_default_locations:{var}", m.loc(loop), f"expected one assignment of {var} in the loop")
            continue
        s = sets[0]
        atoms = cond_atoms(s)
        guarded = any(pol and t == f"{var} is None" for t, pol in atoms)
        at_start = norm(s.value).endswith(".start()")
        ok = (guarded == want_guard) and at_start
        chk.ob("S2", f"dependencies:_insert_js_css_to_default_locations:{what}", m.loc(s), ok,
               f"{what}: `{var}` {'is assigned only while it is None (first wins)' if want_guard else 'is overwritten by every match (last wins)'}, at match.start()" if ok else
               f"{what}: `{short(s)}` is {'not ' if want_guard else ''}guarded by `{var} is None`" + ("" if at_start else " and does not use match.start()") + f": the tags are inserted at the {'last' if want_guard else 'first'} occurrence instead")
    # tag names compared
    tn = [s for s in stmts(loop.body) if isinstance(s, ast.If)]
    names = {c.comparators[0].value for s in ast.walk(loop) for c in ([s] if isinstance(s, ast.Compare) else []) if isinstance(c.comparators[0], ast.Constant) and isinstance(c.comparators[0].value, str)}
    chk.ob("S2", "dependencies:_insert_js_css_to_default_locations:tag-dispatch", m.loc(loop), {"head", "body"} <= names, "matches are dispatched on 'head' / 'body'")


def _base_of(f, idx2: str) -> str:
    a2 = assignments(f, idx2)
    if len(a2) == 1 and isinstance(a2[0][1], ast.BinOp):
        for p in (norm(a2[0][1].left), norm(a2[0][1].right)):
            if "index" in p and "offset" not in p:
                return p
    return idx2


def _rd_roles(f):
    p0 = params(f)[0]
    work = local_from(f, lambda v: norm(v) == f"{p0}.encode()")
    safe = local_from(f, lambda v: norm(v) == f"isinstance({p0}, SafeString)")
    js = css = None
    for s in stmts(f):
        if isinstance(s, ast.Assign) and isinstance(s.targets[0], ast.Tuple) and isinstance(s.value, ast.Call) and last_attr(s.value.func) == "_process_dep_declarations" and len(s.targets[0].elts) == 3:
            js, css = norm(s.targets[0].elts[1]), norm(s.targets[0].elts[2])
    helper = local_from(f, lambda v: isinstance(v, ast.Call) and last_attr(v.func) == "_insert_js_css_to_default_locations")
    return {"p0": p0, "work": work, "safe": safe, "js": js, "css": css, "helper": helper}


def s3(chk: Check, proj: Project, m) -> None:
    chk.rule("S3", "render_dependencies returns str for str, SafeString for SafeString, bytes for bytes (abstract evaluation of the returned expression for the three input types)")
    f = m.func("render_dependencies")
    chk.analysed(fkey(m, f))
    R = _rd_roles(f)
    p0, W = R["p0"], R["work"]
    if not W:
        chk.undecided("S3", "dependencies:render_dependencies:roles", m.loc(f), f"working-bytes variable not identified ({R})")
        return
    rets = [s for s in stmts(f) if isinstance(s, ast.Return) and s.value is not None]
    if not rets:
        chk.undecided("S3", "dependencies:render_dependencies:returns", m.loc(f), "no return statement")
        return
    SAFE_T = ("SafeString", "SafeData", "SafeText")

    def cond(e: ast.AST, case: str, env: Dict[str, Optional[str]], depth: int = 0) -> Optional[bool]:
        if depth > 6:
            return None
        if isinstance(e, ast.UnaryOp) and isinstance(e.op, ast.Not):
            c = cond(e.operand, case, env, depth + 1)
            return None if c is None else not c
        if isinstance(e, ast.BoolOp):
            vs = [cond(v, case, env, depth + 1) for v in e.values]
            if isinstance(e.op, ast.And):
                return False if any(v is False for v in vs) else (None if any(v is None for v in vs) else True)
            return True if any(v is True for v in vs) else (None if any(v is None for v in vs) else False)
        if isinstance(e, ast.Call) and norm(e.func) == "isinstance" and len(e.args) == 2 and norm(e.args[0]) == p0:
            ts = [norm(x) for x in (e.args[1].elts if isinstance(e.args[1], ast.Tuple) else [e.args[1]])]
            res = False
            for t in ts:
                t = t.split(".")[-1]
                if t == "str":
                    res = res or case in ("str", "safe")
                elif t in SAFE_T:
                    res = res or case == "safe"
                elif t in ("bytes", "bytearray"):
                    res = res or case == "bytes"
                else:
                    return None
            return res
        if isinstance(e, ast.Name):
            d = [v for _s, v in assignments(f, e.id) if v is not None]
            if len(d) == 1:
                return cond(d[0], case, env, depth + 1)
        return None

    def ty(e: ast.AST, case: str, env: Dict[str, Optional[str]]) -> Optional[str]:
        if isinstance(e, ast.Name):
            if e.id == W:
                return "bytes"
            if e.id == p0:
                return case
            return env.get(e.id)
        if isinstance(e, ast.Call):
            fn = norm(e.func)
            if fn == "cast" and len(e.args) == 2:
                return ty(e.args[1], case, env)
            if isinstance(e.func, ast.Attribute) and e.func.attr == "decode":
                return "str" if ty(e.func.value, case, env) == "bytes" else None
            if isinstance(e.func, ast.Attribute) and e.func.attr == "encode":
                return "bytes" if ty(e.func.value, case, env) in ("str", "safe") else None
            if fn.split(".")[-1] in ("mark_safe",) + SAFE_T and e.args:
                return "safe" if ty(e.args[0], case, env) in ("str", "safe") else None
            if fn == "str" and e.args:
                return "str" if ty(e.args[0], case, env) in ("str", "safe") else None
            return None
        if isinstance(e, ast.IfExp):
            c = cond(e.test, case, env)
            if c is None:
                a_, b_ = ty(e.body, case, env), ty(e.orelse, case, env)
                return a_ if a_ == b_ else None
            return ty(e.body if c else e.orelse, case, env)
        return None

    names = {"str": "plain str", "safe": "SafeString", "bytes": "bytes"}
    for ri, ret in enumerate(rets):
        rv = ret.value
        outcome: Dict[str, Optional[str]] = {}
        for case in ("str", "safe", "bytes"):
            env: Dict[str, Optional[str]] = {}
            # the definitions of the variables the returned expression uses, in source order (straight-line tail of the function)
            used = {x.id for x in ast.walk(rv) if isinstance(x, ast.Name)} - {W, p0}
            for v in sorted(used):
                for st, val in sorted(assignments(f, v), key=lambda t: t[0].lineno):
                    if val is not None and isinstance(st, ast.Assign) and st in f.body:
                        env[v] = ty(val, case, env)
            outcome[case] = ty(rv, case, env)
        key = "dependencies:render_dependencies:type-round-trip" + (f"#{ri}" if len(rets) > 1 else "")
        if any(v is None for v in outcome.values()):
            chk.undecided("S3", key, m.loc(ret), f"type of the returned expression not evaluable: {outcome}")
        else:
            bad = [c for c in outcome if outcome[c] != c]
            chk.ob("S3", key, m.loc(ret), not bad,
                   "plain str -> plain str, SafeString -> SafeString, bytes -> bytes" if not bad else
                   f"for a {names[bad[0]]} input the function returns a {names[outcome[bad[0]]]}: " + ("a plain (untrusted) string comes back marked safe and is no longer auto-escaped by {{ value }}" if bad[0] == "str" and outcome[bad[0]] == "safe" else "the input's type is not restored"))
    enc = [s for s, v in assignments(f, W) if v is not None and norm(v) == f"{p0}.encode()"]
    okk = bool(enc) and any(pol and t == f"isinstance({p0}, str)" for t, pol in cond_atoms(enc[0]))
    chk.ob("S3", "dependencies:render_dependencies:encode-iff-str", m.loc(enc[0]) if enc else m.loc(f), okk, "the input is encoded only when it is a str")


def s4(chk: Check, proj: Project, m) -> None:
    chk.rule("S4", "every assignment to the content variables has a reviewed right-hand side (encode/decode, the two substitutions, the insertion helper's result, `+= js` only for fragments); placeholder replacements are the per-mode variables")
    f = m.func("render_dependencies")
    R = _rd_roles(f)
    p0, W, JS, H = R["p0"], R["work"], R["js"], R["helper"]
    if not (W and JS and H):
        chk.undecided("S4", "dependencies:render_dependencies:roles", m.loc(f), f"content / js / helper-result variables not identified ({R})")
        return
    n = 0
    enc_call: Optional[ast.Call] = None
    for st in stmts(f):
        tg = [norm(t) for t, _v in assign_targets(st)]
        if W not in tg:
            continue
        n += 1
        v = st.value if isinstance(st, (ast.Assign, ast.AugAssign, ast.AnnAssign)) else None
        t = norm(v) if v is not None else ""
        atoms = cond_atoms(st)
        key = f"dependencies:render_dependencies:{short(st, 70)}"
        if isinstance(st, ast.AugAssign):
            ok = isinstance(st.op, ast.Add) and t == JS and any(pol and t2 == "type == 'fragment'" for t2, pol in atoms)
            chk.ob("S4", key, m.loc(st), ok, "the declaration script is appended only for fragments" if ok else f"`{short(st)}` appends to the document outside the fragment case")
        elif t == f"{p0}.encode()" or t == f"cast(bytes, {p0})":
            chk.holds("S4", key, m.loc(st), "type normalisation", nontrivial=False)
        elif t.startswith(f"_process_dep_declarations({W}"):
            chk.holds("S4", key, m.loc(st), "marker harvest (substitution by the empty string, C04-S2)", nontrivial=False)
        elif t.startswith("PLACEHOLDER_REGEX.sub(") and t.endswith(f", {W})"):
            chk.holds("S4", key, m.loc(st), "placeholder substitution", nontrivial=False)
        elif isinstance(st.value, ast.Call) and isinstance(st.value.func, ast.Attribute) and st.value.func.attr == "encode" and norm(st.value.func.value) == H:
            ok = any(pol and t2 == f"{H} is not None" for t2, pol in atoms)
            chk.ob("S4", key.split(" = ")[0] + " = <helper result>.encode(..)", m.loc(st), ok, "result of the default-location insertion helper")
            enc_call = st.value
        else:
            chk.violated("S4", key, m.loc(st), f"`{short(st)}` transforms the document in a way that is not a marker removal / placeholder substitution / insertion: other bytes of the input can change")
    chk.floor("S4", n, 5)
    # the insertion helper gets the whole decoded content
    ic = calls(f, "_insert_js_css_to_default_locations")
    a0 = ic[0].args[0] if ic and ic[0].args else None
    ok = isinstance(a0, ast.Call) and isinstance(a0.func, ast.Attribute) and a0.func.attr == "decode" and norm(a0.func.value) == W
    chk.ob("S4", "dependencies:render_dependencies:helper-input", m.loc(ic[0]) if ic else m.loc(f), ok, "the insertion helper receives the whole (decoded) content")
    # bytes in, the same bytes out - for EVERY byte string: the decode / encode pair around the helper must round-trip input that
    # is not valid in the codec (a latin-1 page passing through the middleware)
    if ok and enc_call is not None:
        def _codec(c: ast.Call) -> Tuple[str, Optional[str]]:
            cod = c.args[0].value if c.args and isinstance(c.args[0], ast.Constant) else (kwarg(c, "encoding").value if isinstance(kwarg(c, "encoding"), ast.Constant) else "utf-8")
            er = c.args[1] if len(c.args) > 1 else kwarg(c, "errors")
            return str(cod).lower().replace("_", "-"), (er.value if isinstance(er, ast.Constant) else None)
        dc, de = _codec(a0)
        ec, ee = _codec(enc_call)
        lossless = de in ("surrogateescape",) and ee == de and dc == ec
        single_byte = dc == ec and dc in ("latin-1", "latin1", "iso-8859-1") and de is None and ee is None
        # ... AND the encode side must be total on what the helper inserts: the collected tags are arbitrary Unicode text
        # (a component's own JS / CSS), which a single-byte codec cannot encode
        total = ec in ("utf-8", "utf8", "u8", "utf-16", "utf-32")
        chk.ob("S4", "dependencies:render_dependencies:encode-is-total-on-inserted-text", m.loc(enc_call), total,
               f"encode({ec!r}) can encode every character of the inserted <script> / <style> text" if total else
               f"`{short(enc_call)}`: {ec} maps the document's bytes back 1:1, but the text inserted at the default locations is real Unicode (the components' own JS / CSS, decoded from UTF-8): a component whose script contains a character outside {ec} (`€`, `→`) makes render_dependencies raise UnicodeEncodeError - or, for characters inside it, changes their bytes - on every page that relies on the default locations")
        single_byte = single_byte and total
        chk.ob("S4", "dependencies:render_dependencies:decode-encode-round-trips-any-bytes", m.loc(a0), lossless or single_byte,
               f"decode({dc!r}, errors={de!r}) / encode({ec!r}, errors={ee!r}) restore every input byte" if lossless or single_byte else
               f"`{short(a0)}` is a strict decode: bytes that are not valid {dc.upper()} (render_dependencies(b'caf\\xe9</body>'), a latin-1 or otherwise encoded text/html response through the middleware) raise UnicodeDecodeError in document mode whenever a placeholder kind is absent - with both placeholders present the same bytes pass")
    # replacement variables
    orm = next((x for x in body_walk(f) if isinstance(x, ast.FunctionDef) and x.name == "on_replace_match"), None)
    if orm is None:
        raise AnalysisError("render_dependencies: on_replace_match vanished")
    rname = next((norm(r.value) for r in stmts(orm) if isinstance(r, ast.Return) and isinstance(r.value, ast.Name)), "replacement")
    for s in [x for x in stmts(orm) if isinstance(x, ast.Assign) and norm(x.targets[0]) == rname]:
        v = norm(s.value)
        d = assignments(f, v)
        ok = len(d) == 1 and isinstance(d[0][1], ast.IfExp) and norm(d[0][1].test) == "type == 'document'" and isinstance(d[0][1].orelse, ast.Constant) and d[0][1].orelse.value == b""
        kind = "css" if "css" in v else "js"
        atoms = cond_atoms(s)
        right_kind = any(pol and kind.upper() in t for t, pol in atoms)
        chk.ob("S4", f"dependencies:render_dependencies.on_replace_match:{kind}-replacement", m.loc(s), ok and right_kind,
               f"the {kind} placeholder is replaced by `{v}` = tags for documents, b'' for fragments" if ok and right_kind else
               f"`{short(s)}` replaces the placeholder with `{v}`, which is not the per-mode replacement (tags in document mode, nothing in fragment mode): in a fragment the tags are spliced into the body")
    # matched kind is decided on the placeholder name
    chk.floor("S4-replacements", len([x for x in stmts(orm) if isinstance(x, ast.Assign) and norm(x.targets[0]) == rname]), 2)


def s5(chk: Check, proj: Project, m, rule: str = "S5") -> None:
    chk.rule(rule, "the middleware rewrites response.content only if the response is not streaming and its Content-Type starts with text/html")
    f = m.func("ComponentDependencyMiddleware._process_response")
    chk.analysed(fkey(m, f))
    stores = [s for s in stmts(f) if isinstance(s, ast.Assign) and norm(s.targets[0]).endswith(".content")]
    if len(stores) != 1:
        chk.undecided(rule, "dependencies:middleware:store", m.loc(f), f"{len(stores)} stores to response.content")
        return
    s = stores[0]
    atoms = flatten_conj(path_conditions(s))
    not_stream = any((not pol) and isinstance(e, ast.Call) and norm(e.func) == "isinstance" and "StreamingHttpResponse" in norm(e) for e, pol in atoms)
    html = [e for e, pol in atoms if pol and isinstance(e, ast.Call) and isinstance(e.func, ast.Attribute) and e.func.attr == "startswith" and e.args and isinstance(e.args[0], ast.Constant) and e.args[0].value == "text/html" and "Content-Type" in norm(e.func.value)]
    other = [e for e, pol in atoms if "Content-Type" in norm(e) and not any(e is h for h in html)]
    chk.ob(rule, "dependencies:middleware:not-streaming", m.loc(s), not_stream, "guarded by `not isinstance(response, StreamingHttpResponse)`" if not_stream else "streaming responses are rewritten (their content is consumed)")
    chk.ob(rule, "dependencies:middleware:html-only", m.loc(s), bool(html) and not other, "guarded by Content-Type.startswith('text/html')" if html and not other else
           f"the Content-Type test is `{short(other[0]) if other else 'missing'}`, not `startswith('text/html')`: non-HTML responses whose type merely contains 'html' are decoded and rewritten")
    # ... and is not NARROWER: a further conjunct that looks only at response metadata (status code, other headers,
    # cookies) cannot imply that the body has no markers, so it leaves markers in the responses it excludes
    META = ("status_code", "reason_phrase", "cookies", "charset", "has_header", "headers", "streaming", "closed")
    extra = []
    for e, pol in atoms:
        if any(e is h for h in html) or (isinstance(e, ast.Call) and norm(e.func) == "isinstance" and "StreamingHttpResponse" in norm(e)):
            continue
        extra.append(e)
    meta = [e for e in extra if any(isinstance(x, ast.Attribute) and x.attr in META for x in ast.walk(e)) or (isinstance(e, ast.Call) and last_attr(e.func) == "get" and "Content-Type" not in norm(e))]
    unknown = [e for e in extra if not any(e is x for x in meta) and "Content-Type" not in norm(e)]
    if unknown:
        chk.undecided(rule, "dependencies:middleware:gate-not-narrower", m.loc(s), f"additional gate condition `{short(unknown[0])}` not understood")
    else:
        chk.ob(rule, "dependencies:middleware:gate-not-narrower", m.loc(s), not meta, "the gate has no further condition: every non-streaming text/html response is processed" if not meta else
               f"the gate also requires `{short(meta[0])}` (response metadata): HTML responses it excludes (error pages, 4xx form re-renders) keep their <!-- _RENDERED --> markers and get no JS/CSS")
    # every OTHER write to the response (headers, attributes, cookies) stands under the same gate: a response the gate excludes
    # passes through untouched, headers included
    rp = params(f)[1] if len(params(f)) > 1 else "response"
    MUT = {"setdefault", "set_cookie", "delete_cookie", "set_signed_cookie", "write", "writelines", "flush", "close", "__setitem__", "__delitem__", "pop"}
    writes = []
    for x in ast.walk(f):
        if isinstance(x, (ast.Assign, ast.AugAssign, ast.Delete)):
            tg = x.targets if isinstance(x, (ast.Assign, ast.Delete)) else [x.target]
            for t in tg:
                if isinstance(t, (ast.Attribute, ast.Subscript)) and isinstance(t.value, ast.Name) and t.value.id == rp and x is not s:
                    writes.append(x)
                if isinstance(t, ast.Subscript) and isinstance(t.value, ast.Attribute) and isinstance(t.value.value, ast.Name) and t.value.value.id == rp:
                    writes.append(x)
        elif isinstance(x, ast.Call) and isinstance(x.func, ast.Attribute) and x.func.attr in MUT and ((isinstance(x.func.value, ast.Name) and x.func.value.id == rp) or (isinstance(x.func.value, ast.Attribute) and isinstance(x.func.value.value, ast.Name) and x.func.value.value.id == rp)):
            writes.append(x)
    for wr in writes:
        at2 = flatten_conj(path_conditions(wr if isinstance(wr, ast.stmt) else enclosing_stmt(wr)))
        ns2 = any((not pol) and isinstance(e, ast.Call) and norm(e.func) == "isinstance" and "StreamingHttpResponse" in norm(e) for e, pol in at2)
        h2 = any(pol and isinstance(e, ast.Call) and isinstance(e.func, ast.Attribute) and e.func.attr == "startswith" and e.args and isinstance(e.args[0], ast.Constant) and e.args[0].value == "text/html" for e, pol in at2)
        chk.ob(rule, f"dependencies:middleware:{short(wr, 50)}:under-the-gate", m.loc(wr), ns2 and h2,
               "stands under the not-streaming / text/html gate" if ns2 and h2 else
               f"`{short(wr)}` changes the response outside the `text/html` gate: a non-HTML buffered response (a download's answer to HEAD, a 206 with an explicit Content-Length, JSON) no longer passes through untouched - its header is rewritten from the length the view declared to len(body)")
    rc = s.value
    ok = isinstance(rc, ast.Call) and last_attr(rc.func) == "render_dependencies" and rc.args and norm(rc.args[0]).endswith(".content")
    chk.ob(rule, "dependencies:middleware:calls-render_dependencies", m.loc(s), ok, "content := render_dependencies(content, type='document')")
    # both entry points go through _process_response
    for q in ("ComponentDependencyMiddleware.__call__", "ComponentDependencyMiddleware.__acall__"):
        r = proj.try_func("dependencies", q)
        if r:
            chk.ob(rule, f"dependencies:{q}:uses-guard", r[0].loc(r[1]), bool(calls(r[1], "_process_response")), "response passes through _process_response")


def s17_tag_name_of_every_match(chk: Check, proj: Project, m) -> None:
    chk.rule("S17", "the classification of an end-tag match is total on the scanner's language: the expression that extracts the tag name from a match (constant slice + lower()) evaluates to one of the names the branches compare with for EVERY string the scanner pattern matches - also for the spellings with whitespace before `>` and in upper case (members of the language are generated from the pattern constant; the extraction is evaluated on them symbolically, nothing of the package is run)")
    import re as _re

    from .markers import compiled_regex

    f = m.func("_insert_js_css_to_default_locations")
    chk.analysed(fkey(m, f))
    loop = next((x for x in ast.walk(f) if isinstance(x, ast.For) and isinstance(x.iter, ast.Call) and isinstance(x.iter.func, ast.Attribute) and x.iter.func.attr == "finditer"), None)
    if loop is None or not isinstance(loop.target, ast.Name):
        chk.undecided("S17", "dependencies:_insert_js_css_to_default_locations:tag-name-total", m.loc(f), "the finditer loop was not found")
        return
    mv = loop.target.id
    rx = norm(loop.iter.func.value)
    pat, flags, _n = compiled_regex(proj, "dependencies", rx)
    if isinstance(pat, bytes):
        pat = pat.decode("latin-1")
    # members of the language: every alternative x case x whitespace tail (filtered by the pattern itself)
    cands = [f"</{nm}{ws}>" for nm in ("head", "HEAD", "Head", "body", "BODY", "Body", "html", "header") for ws in ("", " ", "\n", "\t ", "  \r\n")]
    members = [c for c in cands if _re.fullmatch(pat, c, flags)]
    if len(members) < 4:
        raise AnalysisError(f"C08-S17: only {len(members)} sample members of {rx}'s language")
    # the extraction: `<name> = <mv>[0][a:b](.lower())`
    ext = None
    for st in loop.body:
        if isinstance(st, ast.Assign) and len(st.targets) == 1 and isinstance(st.targets[0], ast.Name) and any(isinstance(y, ast.Name) and y.id == mv for y in ast.walk(st.value)):
            ext = st
            break
    if ext is None:
        chk.undecided("S17", "dependencies:_insert_js_css_to_default_locations:tag-name-total", m.loc(loop), "no local is computed from the match inside the loop")
        return
    tn = ext.targets[0].id
    names = {c.comparators[0].value for c in ast.walk(loop) if isinstance(c, ast.Compare) and isinstance(c.left, ast.Name) and c.left.id == tn and len(c.ops) == 1 and isinstance(c.ops[0], (ast.Eq, ast.NotEq)) and isinstance(c.comparators[0], ast.Constant)}
    names |= {e.value for c in ast.walk(loop) if isinstance(c, ast.Compare) and isinstance(c.left, ast.Name) and c.left.id == tn and isinstance(c.ops[0], ast.In) for e in getattr(c.comparators[0], "elts", []) if isinstance(e, ast.Constant)}

    def ev(e: ast.AST, s0: str):
        if isinstance(e, ast.Subscript) and isinstance(e.value, ast.Name) and e.value.id == mv and isinstance(e.slice, ast.Constant) and e.slice.value == 0:
            return s0
        if isinstance(e, ast.Call) and isinstance(e.func, ast.Attribute) and e.func.attr == "group" and isinstance(e.func.value, ast.Name) and e.func.value.id == mv and (not e.args or (isinstance(e.args[0], ast.Constant) and e.args[0].value == 0)):
            return s0
        if isinstance(e, ast.Subscript):
            base = ev(e.value, s0)
            if base is None:
                return None
            sl = e.slice
            if isinstance(sl, ast.Slice):
                def c(x):
                    if x is None:
                        return None
                    if isinstance(x, ast.UnaryOp) and isinstance(x.op, ast.USub) and isinstance(x.operand, ast.Constant) and isinstance(x.operand.value, int):
                        return -x.operand.value
                    ok, v = proj.try_fold(m, x)
                    if not ok:
                        raise ValueError
                    return v
                try:
                    return base[c(sl.lower):c(sl.upper):c(sl.step)]
                except ValueError:
                    return None
            ok, v = proj.try_fold(m, sl)
            try:
                return base[v] if ok else None
            except Exception:
                return None
        if isinstance(e, ast.Call) and isinstance(e.func, ast.Attribute) and e.func.attr in ("lower", "upper", "strip", "rstrip", "lstrip", "casefold") and isinstance(e.func.value, ast.AST):
            base = ev(e.func.value, s0)
            if base is None:
                return None
            args = []
            for a in e.args:
                ok, v = proj.try_fold(m, a)
                if not ok:
                    return None
                args.append(v)
            return getattr(base, e.func.attr)(*args)
        return None

    bad = []
    undec = False
    for s0 in members:
        r = ev(ext.value, s0)
        if r is None:
            undec = True
            break
        if r not in names:
            bad.append((s0, r))
    if undec or not names:
        chk.undecided("S17", "dependencies:_insert_js_css_to_default_locations:tag-name-total", m.loc(ext), f"`{short(ext)}` is not a constant slice / case-fold of the match (or no branch compares `{tn}` with a constant)")
        return
    chk.paths += len(members)
    chk.ob("S17", "dependencies:_insert_js_css_to_default_locations:tag-name-total", m.loc(ext), not bad,
           f"`{short(ext)}` yields one of {sorted(names)} for all {len(members)} sampled members of {rx}'s language" if not bad else
           f"`{short(ext)}` yields {bad[0][1]!r} for the match {bad[0][0]!r}, which {rx} accepts, and no branch knows that name: a document whose end tag is written with whitespace before `>` makes render_dependencies raise (or skip the insertion) instead of inserting the dependencies there")


def s18_marker_removal_exact(chk: Check, proj: Project, m) -> None:
    chk.rule("S18", "what the marker harvest deletes is the marker and nothing else: the removal pattern begins with the literal `<` of `<!--` and ends with the literal `>` of `-->` (no quantified class before or after - whitespace next to a marker is the author's, e.g. inside <pre>), and a deleted comment whose payload is not a component record ends the call with an error (the comment is already gone, so carrying on silently would drop an author's `<!-- _RENDERED ... -->` look-alike)")
    import re._parser as _sp

    from .markers import compiled_regex

    pat, flags, node = compiled_regex(proj, "dependencies", "COMPONENT_COMMENT_REGEX")
    tree = _sp.parse(pat, flags)
    items = list(tree)
    first, last = items[0], items[-1]
    ok = str(first[0]) == "LITERAL" and first[1] == ord("<") and str(last[0]) == "LITERAL" and last[1] == ord(">")
    chk.ob("S18", "dependencies:COMPONENT_COMMENT_REGEX:matches-the-marker-only", m.loc(node), ok,
           "the pattern starts at `<` and ends at `>`" if ok else
           f"the pattern's {'first' if not (str(first[0]) == 'LITERAL' and first[1] == ord('<')) else 'last'} element is `{str((first if not (str(first[0]) == 'LITERAL' and first[1] == ord('<')) else last)[0])}`, not the marker's own delimiter: stripping a marker also removes the text next to it (the newline and indent that follow a component rendered inside <pre>) - other bytes of the document change")
    f = m.func("_process_dep_declarations")
    mv = local_from(f, lambda v: isinstance(v, ast.Call) and isinstance(v.func, ast.Attribute) and v.func.attr in ("match", "fullmatch") and "SCRIPT_NAME_REGEX" in norm(v.func.value))
    if mv is None:
        chk.undecided("S18", "dependencies:_process_dep_declarations:malformed-record-raises", m.loc(f), "SCRIPT_NAME_REGEX.match(...) result not found")
        return
    from ..cfg import always_exits

    guards = [x for x in ast.walk(f) if isinstance(x, ast.If) and norm(x.test) in (f"not {mv}", f"{mv} is None")]
    okg = bool(guards) and all(always_exits(g.body) and any(isinstance(y, ast.Raise) for y in ast.walk(g)) and not any(isinstance(y, (ast.Continue, ast.Break, ast.Return)) for st_ in g.body for y in ast.walk(st_)) for g in guards)
    chk.ob("S18", "dependencies:_process_dep_declarations:malformed-record-raises", m.loc(guards[0]) if guards else m.loc(f), okg,
           "a harvested comment that is not a component record raises" if okg else
           "a harvested comment whose payload does not parse as a component record is skipped silently - but the harvest has already deleted it from the document: an author's or a third party's `<!-- _RENDERED 2024/06/01 -->` disappears from the output without an error")


MANIFEST = {
    "text": "Decides, for every statement that can change the document, that it is one of the reviewed transformations (encode/decode, marker removal, placeholder substitution by the per-mode variable, pure insertion s[:i]+c+s[i:]), that the second insertion index is corrected only when the first insertion precedes it, that first-</head>/last-</body> use the right idiom at match.start(), that the input type is restored, and that the middleware rewrites only non-streaming text/html responses. Also: per-kind gating and frame discipline of the default-location insertion, reader patterns not wider than the writer, abstract evaluation of the returned type for str / SafeString / bytes inputs, optional document positions never tested by truthiness, and a middleware gate with no extra metadata condition. Round 4 / triage: the end-tag scanner's language is included in the head/body end tags (word boundaries modelled), marker removal dominates every return (shared with C04-S2), every return is type-evaluated, and the default-location scan must not see inserted content (known finding F33). Round 5: give-up conditions of the insertion (generalised). Round 6: end-tag scanner completeness (regex inclusion in both directions); no re-scan of text with inserted content inside the insertion helper. Round 7: record inclusion borrowed from C04-S1; no literal pre-test of the insertion point at the call site; no value-keyed memo in front of the entry points. Round 8: kind flow (js / css lattice) from the collected tags to the placeholder replacements and the insertion helper (borrowed from C19-S11).",
    "note": "Trusted: re.sub replaces exactly the matched spans; UTF-8 encode/decode round-trips. Not decided: byte-for-byte preservation as an equality; case of end tags (statement ambiguous).",
    "technique": "static shape/whitelist of content transformations, control dependence of index compensation and guards",
}
