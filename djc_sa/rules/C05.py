"""C05 — inject() returns the nearest enclosing {% provide %} (DESIGN.md section 3, C05).

S1 pass-through completeness: every place that renders nodes in a different Context forwards ALL inject keys
   (unconditionally on the prefix test), into that context's own layer, looking at the whole source context.
S2 lifetime protocol: the provide tag holds its own reference while its body renders (registered before the yield,
   released on both continuations); provided data is deleted only under an emptiness test of its reference set.
S3 register/unregister pairing of component references on exceptional exits (pairing engine of C06).
S4 provided data never enters the template namespace: Context stores in provide code use the inject prefix and an id.
S5 inject() is three-way: found -> that entry; else non-None default; else KeyError.
"""
from __future__ import annotations

import ast
from typing import List, Tuple

from ..absstr import Evaluator
from ..astq import assignments, calls, local_from, local_from_text, params, stmts
from ..callgraph import fkey
from ..cfg import cond_atoms, flatten_conj, path_conditions
from ..report import Check
from ..source import AnalysisError, Project, ancestors, body_walk, dotted, enclosing_func, enclosing_stmt, last_attr, norm, parent, qual_of, short
from .common import world
from .ctxrules import check_forwarding_condition, deferred_live_context, forwarding_loops, isolated_copy_ops, partial_stack_views


def run(chk: Check, proj: Project) -> None:
    chk.explanation = (
        "Structural obligations of provide/inject: completeness and unconditionality of the inject-key forwarding at "
        "every context switch; whole-context views where keys are enumerated; the provider's own reference around its "
        "body; deletion only under an emptiness test; pairing of component references on error paths; prefix/id "
        "discipline of Context stores in provide code; three exits of inject()."
    )
    chk.not_decided = ["'nearest in the rendered structure' as Context-stack shadowing under deferred rendering", "histories of renders"]
    chk.trusted_base = ["Django Context.update()/ContextDict copies the pushed dict", "Context.flatten() sees every layer"]
    w = world(proj)
    s1(chk, proj, w)
    s2(chk, proj, w)
    s3(chk, proj, w)
    s4(chk, proj, w)
    s5(chk, proj, w)
    chk.rule("S6", "deferred code (render hooks, renderer closures) never renders with the live input context: provided keys are read from a snapshot taken while the provider's scope was active")
    deferred_live_context(chk, "S6", proj)
    s7(chk, proj, w)
    s8(chk, proj, w)
    s9(chk, proj, w)
    from . import C03 as _C03, C14 as _C14

    chk.borrow("S11", "the inject keys that SlotNode.render pushes for a fill stay the TOP layer while the fill renders: the captured-variable layer is inserted under it (`len(ctx.dicts) - 1`), never on top - a captured copy of an outer loop layer carries the inject key that was current THEN and would shadow the nearest provider (shared with C03-S12)",
               lambda sub: _C03.s12_layer_frame(sub, proj, w), only=lambda o: "outer-context-case" in o.construct)
    chk.borrow("S12", "inject() reads the context of the render that is CURRENT: the per-instance metadata stack is LIFO - pushed with append, popped from the same end (a component that renders itself again in get_context_data must find its own entry back) (shared with C14-S1)",
               lambda sub: _C14.s1(sub, proj, w), only=lambda o: "lifo" in o.construct.lower() or "stack" in o.construct.lower())
    s10(chk, proj, w)
    from . import C01 as _C01

    chk.borrow("S14", "inject() in a slot's default content that a fill prints through `{{ default }}` finds the provider the FILL put around it: the SlotRef renders on the slot's live Context, the object the fill's `{% provide %}` pushes its key on - not on a snapshot taken before the fill ran (shared with C01-S12)",
               lambda sub: _C01.s12c_slotref_live_context(sub, proj))
    from . import C07 as _C07

    chk.borrow("S13", "inject() reads the context of the render that is current IN THIS THREAD: the stack inject() takes its context from is thread-confined (the library itself shares one component object between all request threads through as_view(), and users keep module-level instances) - a plain per-instance deque lets thread A's inject() return the data of thread B's provider (shared with C07-S1-I)",
               lambda sub: _C07.s1i_shared_instances(sub, proj, w), only=lambda o: "_metadata_stack" in o.construct or "thread-confined" in o.construct)


def s10(chk: Check, proj: Project, w) -> None:
    chk.rule("S10", "every component render registers its reference (unconditionally: the dynamic shim too - its target registers only in the deferred phase, after {% endprovide %}); the error clean-up of a provider unregisters only the references of THAT provider")
    r = proj.try_func("component", "Component._render_with_id") or proj.try_func("component", "Component._render_impl")
    m, f = r  # type: ignore[misc]
    reg = [c for c in calls(f, "register_provide_reference") if enclosing_func(c) is f]
    if len(reg) != 1:
        chk.undecided("S10", "component:render:registers-unconditionally", m.loc(f), f"{len(reg)} register_provide_reference calls")
    else:
        ok = enclosing_stmt(reg[0]) in f.body
        chk.ob("S10", "component:render:registers-unconditionally", m.loc(reg[0]), ok,
               "register_provide_reference(context, render_id) is a top-level statement of the render" if ok else
               f"`{short(reg[0])}` is conditional ({[t for t, _p in cond_atoms(enclosing_stmt(reg[0]))][:2]}): a component that skips it holds no reference while it waits for its deferred render, the provider's data is deleted at {{% endprovide %}} and inject() below it raises KeyError")
    pm, pf = proj.func("perfutil.provide", "managed_provide_cache")
    pid = params(pf)[0]
    loops = [lp for lp in ast.walk(pf) if isinstance(lp, ast.For) and any(isinstance(c, ast.Call) and last_attr(c.func) == "unregister_provide_reference" for c in ast.walk(lp))]
    if not loops:
        chk.holds("S10", "perfutil.provide:managed_provide_cache:error-cleanup-own-references-only", pm.loc(pf), "no bulk unregistration in the provider's error path", nontrivial=False)
    for lp in loops:
        ok = any(isinstance(x, ast.Name) and x.id == pid for x in ast.walk(lp.iter))
        chk.ob("S10", "perfutil.provide:managed_provide_cache:error-cleanup-own-references-only", pm.loc(lp), ok,
               f"the clean-up iterates `{short(lp.iter)}` (keyed by `{pid}`)" if ok else
               f"the clean-up iterates `{short(lp.iter)}`, which is not restricted to `{pid}`: an error that leaves one provider (and is caught by the application) unregisters every waiting component of every provider; their data is deleted and a later inject() raises KeyError")

    # the end-of-tree clean-up releases only what THIS tree registered
    import builtins as _b

    cm_, cf_ = proj.func("perfutil.component", "component_post_render")
    chk.analysed(fkey(cm_, cf_))
    locs = set()
    for fn_ in [x for x in ast.walk(cf_) if isinstance(x, (ast.FunctionDef, ast.Lambda))]:
        a_ = fn_.args
        locs |= {z.arg for z in a_.posonlyargs + a_.args + a_.kwonlyargs} | ({a_.vararg.arg} if a_.vararg else set()) | ({a_.kwarg.arg} if a_.kwarg else set())
    for x in ast.walk(cf_):
        if isinstance(x, ast.Name) and isinstance(x.ctx, ast.Store):
            locs.add(x.id)
    rel_ = [c for c in ast.walk(cf_) if isinstance(c, ast.Call) and last_attr(c.func) == "unregister_provide_reference"]
    chk.floor("S10", len(rel_), 1)
    for c in rel_:
        srcs = list(c.args)
        for a in ancestors(c):
            if isinstance(a, (ast.For, ast.comprehension)) and any(isinstance(y, ast.Name) and y.id in {z.id for z in ast.walk(a.target) if isinstance(z, ast.Name)} for s_ in c.args for y in ast.walk(s_)):
                srcs.append(a.iter)
        foreign = sorted({y.id for s_ in srcs for y in ast.walk(s_) if isinstance(y, ast.Name) and y.id not in locs and not hasattr(_b, y.id)})
        chk.ob("S10", "perfutil.component:component_post_render:tree-cleanup-own-references-only", cm_.loc(c), not foreign,
               f"`{short(c)}` releases ids taken from this render tree's own bookkeeping" if not foreign else
               f"`{short(c)}` releases ids taken from the process-global `{foreign[0]}`: a root render that finishes while ANOTHER tree is still pending (a lazy object printed with {{{{ badge }}}} that renders a component, or another thread) releases that tree's references too; the provider's data is deleted and a later inject() there raises KeyError")


def s9(chk: Check, proj: Project, w) -> None:
    chk.rule("S9", "inject() inside DEFERRED hooks: the metadata that on_render_before / on_render_after run under does not carry the live context of the tag (which has left the {% provide %} scope by then) but a snapshot")
    r = proj.try_func("component", "Component._render_with_id") or proj.try_func("component", "Component._render_impl")
    m, f = r  # type: ignore[misc]
    chk.analysed(fkey(m, f))
    md = [c for c in calls(f, "MetadataItem")]
    if len(md) != 1:
        chk.undecided("S9", "component:render:deferred-metadata-context", m.loc(f), f"{len(md)} MetadataItem(...) constructions")
        return
    ri = next((k.value for k in md[0].keywords if k.arg == "input"), None)
    ctxv = next((k.value for k in ri.keywords if k.arg == "context"), None) if isinstance(ri, ast.Call) else None
    if ctxv is None:
        chk.undecided("S9", "component:render:deferred-metadata-context", m.loc(md[0]), "RenderInput(context=...) not found")
        return
    st = enclosing_stmt(md[0])
    mvar = st.targets[0].id if isinstance(st, ast.Assign) and isinstance(st.targets[0], ast.Name) else None
    # does the SAME metadata object reach deferred code? (the renderer factory / the post-render callback closure)
    deferred_uses = []
    for c in calls(f, "_gen_component_renderer"):
        if any(isinstance(k.value, ast.Name) and k.value.id == mvar for k in c.keywords) or any(isinstance(a, ast.Name) and a.id == mvar for a in c.args):
            deferred_uses.append(c)
    for g in [x for x in ast.walk(f) if isinstance(x, ast.FunctionDef) and x is not f]:
        for c in calls(g, "_with_metadata"):
            if c.args and isinstance(c.args[0], ast.Name) and c.args[0].id == mvar:
                deferred_uses.append(c)
    live = isinstance(ctxv, ast.Name) and ctxv.id in params(f) and not any(isinstance(v, ast.Call) and last_attr(v.func) == "snapshot_context" for _s, v in assignments(f, ctxv.id) if v is not None)
    bad = live and bool(deferred_uses)
    chk.ob("S9", "component:render:deferred-metadata-context", m.loc(deferred_uses[0]) if deferred_uses else m.loc(md[0]), not bad,
           "deferred hooks run under metadata whose context is a snapshot (or no metadata reaches deferred code)" if not bad else
           f"the metadata built with `context={norm(ctxv)}` (the live context of the tag) is what the deferred renderer and the post-render callback push before calling on_render_before / on_render_after: inject() there looks the key up in a context that has already left the {{% provide %}} scope (django mode: returns the default / raises KeyError although the provider encloses the component)")


def s8(chk: Check, proj: Project, w) -> None:
    chk.rule("S8", "inject() is a function of THIS render's context: the inject path stores nothing on the component object or in module state (no memo keyed without the render); the render's provider reference is released only after the last user hook of that render has run")
    n = 0
    for mod, q in (("component", "Component.inject"), ("provide", "get_injected_context_var")):
        m, f = proj.func(mod, q)
        chk.analysed(fkey(m, f))
        n += 1
        stores = []
        for x in body_walk(f):
            if isinstance(x, (ast.Attribute, ast.Subscript)) and isinstance(x.ctx, (ast.Store, ast.Del)):
                root = x
                while isinstance(root, (ast.Attribute, ast.Subscript)):
                    root = root.value
                if isinstance(root, ast.Name) and (root.id in ("self", "cls") or root.id not in {n2.id for n2 in ast.walk(f) if isinstance(n2, ast.Name) and isinstance(n2.ctx, ast.Store)} | set(params(f))):
                    stores.append(x)
            if isinstance(x, ast.Call) and isinstance(x.func, ast.Attribute) and x.func.attr in ("setdefault", "update", "append", "add", "__setitem__") and norm(x.func.value).startswith(("self.", "cls.")):
                stores.append(x)
            if isinstance(x, ast.Global):
                stores.append(x)
        chk.ob("S8", f"{mod}:{q}:memo-free", m.loc(stores[0]) if stores else m.loc(f), not stores,
               "no store outside the function's locals: the answer is recomputed from the render's context each time" if not stores else
               f"`{short(enclosing_stmt(stores[0]))}` keeps state across calls on the inject path: a component object rendered again under another provider (or outside any) answers from the first render")
        # the value returned comes from the lookup, and the lookup receives the input context of this render
    m, f = proj.func("component", "Component.inject")
    cs = calls(f, "get_injected_context_var")
    rets = [r for r in stmts(f) if isinstance(r, ast.Return)]
    ok = len(cs) == 1 and len(cs[0].args) >= 2 and norm(cs[0].args[1]) == "self.input.context" and any(r.value is cs[0] for r in rets)
    chk.ob("S8", "component:Component.inject:returns-the-lookup", m.loc(cs[0]) if cs else m.loc(f), ok, "returns get_injected_context_var(name, self.input.context, key, default) directly")
    # release after last hook
    r = proj.try_func("component", "Component._render_with_id.on_component_rendered") or proj.try_func("component", "Component._render_impl.on_component_rendered")
    if r is None:
        raise AnalysisError("anchor vanished: on_component_rendered closure")
    mm, g = r
    chk.analysed(fkey(mm, g))
    cfg = w.pair.cfgs.get(g)
    rel = [c for c in calls(g) if last_attr(c.func) == "unregister_provide_reference" or (isinstance(c.func, ast.Attribute) and c.func.attr == "pop" and norm(c.func.value) == "component_context_cache")]
    chk.floor("S8", len(rel), 2)
    late = None
    for c in rel:
        for n0 in cfg.node_containing(c):
            for x in cfg.reachable_from([s2 for s2, lab in n0.succ if lab not in ("x", "p")], labels={"n", "T", "F", "b"}):
                if x.ast is None or x.kind in ("handler",):
                    continue
                for y in ast.walk(x.ast) if not isinstance(x.ast, (ast.FunctionDef, ast.With)) else []:
                    if isinstance(y, ast.Call) and isinstance(y.func, ast.Attribute) and isinstance(y.func.value, ast.Name) and y.func.value.id == "self" and y.func.attr.startswith(("on_", "get_")):
                        late = (c, y)
                if isinstance(x.ast, ast.With):
                    for it in x.ast.items:
                        pass
    chk.ob("S8", "component:on_component_rendered:release-after-last-hook", mm.loc(late[1]) if late else mm.loc(g), late is None,
           "no user hook of the component runs after its provider reference / context entry was released" if late is None else
           f"`{short(late[1])}` runs after `{short(late[0])}`: when this component held the last reference, the provided data is already deleted, so inject() inside the hook raises KeyError although the provider encloses the component")


def s1(chk: Check, proj: Project, w) -> None:
    chk.rule("S1", "every context switch forwards all inject keys (prefix test alone) into the new context; key enumeration looks at the whole context")
    n = 0
    # (a) isolated copy
    m, f = proj.func("context", "make_isolated_context_copy")
    chk.analysed(fkey(m, f))
    fl = forwarding_loops(f)
    fresh = [x.targets[0].id for x in body_walk(f) if isinstance(x, ast.Assign) and isinstance(x.value, ast.Call) and isinstance(x.value.func, ast.Attribute) and x.value.func.attr == "new" and isinstance(x.targets[0], ast.Name)]
    n += 1
    if not fl and any(isinstance(x, ast.Name) and x.id == "_INJECT_CONTEXT_KEY_PREFIX" for x in ast.walk(f)):
        chk.undecided("S1", "context:make_isolated_context_copy:forwarding-loop", m.loc(f), "the inject prefix is used but not in the `for k in ctx.flatten(): if k.startswith(PREFIX): new[k] = ...` shape this rule understands: cannot decide whether every provided key (nearest provider winning) reaches the isolated copy")
    elif not fl:
        chk.violated("S1", "context:make_isolated_context_copy:forwarding-loop", m.loc(f), "the isolated context copy does not forward the inject keys: inject() fails across `only` / isolated components")
    else:
        loop, ifst, store, src, tgt = fl[0]
        ok = tgt in fresh and src in params(f)
        chk.ob("S1", "context:make_isolated_context_copy:forwarding-loop", m.loc(loop), ok, f"inject keys of `{src}` are forwarded into the fresh context `{tgt}`" if ok else f"forwarding loop copies from `{src}` into `{tgt}`, not from the source context into the fresh one")
        check_forwarding_condition(chk, "S1", m, "make_isolated_context_copy", ifst)
        n += 1
        outer = next((a for a in ancestors(loop) if isinstance(a, ast.For)), None)
        if outer is not None and ".dicts" in norm(outer.iter):
            rev = "reversed(" in norm(outer.iter)
            chk.ob("S1", "context:make_isolated_context_copy:nearest-provider-wins", m.loc(outer), not rev,
                   "the layers are walked outermost first with unconditional assignment: the nearest provider's id is the one kept" if not rev else
                   f"`for .. in {norm(outer.iter)}` walks the layers innermost first and assigns unconditionally: the OUTERMOST provider of a key overwrites the nearest one")
    # (b) slot fill context
    m2, f2 = proj.func("slots", "SlotNode.render")
    chk.analysed(fkey(m2, f2))
    fl2 = forwarding_loops(f2)
    rs = calls(f2, "_resolve_slot_context")
    n += 1
    if not rs:
        raise AnalysisError("SlotNode.render: call to _resolve_slot_context not found")
    if not fl2:
        chk.violated("S1", "slots:SlotNode.render:forwarding-loop", m2.loc(rs[0]), "fill content is rendered in a context chosen by _resolve_slot_context but the inject keys of the current context are not forwarded to it")
    else:
        loop, ifst, store, src, tgt = fl2[0]
        # the target dict must be what is pushed onto the used context around the slot call
        used = None
        st = enclosing_stmt(rs[0])
        if isinstance(st, ast.Assign) and isinstance(st.targets[0], ast.Name):
            used = st.targets[0].id
        withs = [x for x in body_walk(f2) if isinstance(x, ast.With) and any(isinstance(it.context_expr, ast.Call) and norm(it.context_expr.func) == f"{used}.update" and it.context_expr.args and norm(it.context_expr.args[0]) == tgt for it in x.items)]
        slot_calls = [c for c in calls(f2) if isinstance(c.func, ast.Attribute) and c.func.attr == "slot" and c.args and norm(c.args[0]) == used]
        inside = bool(withs) and bool(slot_calls) and all(any(a is withs[0] for a in ancestors(c)) for c in slot_calls)
        ctx_param = params(f2)[1] if len(params(f2)) > 1 else "context"
        ok = inside and src == ctx_param
        chk.ob("S1", "slots:SlotNode.render:forwarding-loop", m2.loc(loop), ok,
               f"inject keys of the current context are pushed (`{used}.update({tgt})`) around the slot call" if ok else "forwarded keys do not reach the context the fill is rendered in")
        check_forwarding_condition(chk, "S1", m2, "SlotNode.render", ifst)
        n += 1
    # (c) other constructions of Context objects are classified
    for mm, q, fn in proj.all_funcs():
        for c in calls(fn):
            d = dotted(c.func) or ""
            if d in ("Context", "RequestContext") or (isinstance(c.func, ast.Attribute) and c.func.attr == "new" and "context" in norm(c.func.value).lower()):
                key = f"{mm.name.replace('django_components.', '')}:{q}:{short(c, 50)}"
                n += 1
                if q in ("make_isolated_context_copy",):
                    chk.holds("S1", key, mm.loc(c), "isolated copy: forwarding checked above", nontrivial=False)
                elif q.startswith("Component._render") or q == "Component.render":
                    chk.holds("S1", key, mm.loc(c), "top-level Python entry: there is no enclosing context to forward from", nontrivial=False)
                elif q == "SlotNode._resolve_slot_context":
                    chk.holds("S1", key, mm.loc(c), "fresh context for an isolated fill without outer context: keys pushed by SlotNode.render (checked above)", nontrivial=False)
                elif q.startswith("DynamicFilterExpression") or mm.name.endswith(("expression", "util.template_tag")):
                    chk.holds("S1", key, mm.loc(c), "expression evaluation helper, renders no component nodes in it", nontrivial=False)
                else:
                    chk.undecided("S1", key, mm.loc(c), "new Context construction not classified: does rendering continue in it without the inject keys?")
    # whole-context views
    partial_stack_views(chk, "S1", proj, [("perfutil.provide", "register_provide_reference"), ("provide", "get_injected_context_var"), ("context", "make_isolated_context_copy")])
    isolated_copy_ops(chk, "S1", proj)
    chk.floor("S1", n, 6)


def s2(chk: Check, proj: Project, w) -> None:
    chk.rule("S2", "the provide tag registers its own reference before its body runs and releases it on both continuations; provided data is deleted only under an emptiness test of its references")
    m, f = proj.func("perfutil.provide", "managed_provide_cache")
    chk.analysed(fkey(m, f))
    cms = w.pair.cm_summary(m, f)
    own = [e for e in cms["enter"] if e[0] == "insert" and e[1].startswith("perfutil.provide:provide_references") and e[2][0] == "param"]
    chk.ob("S2", "perfutil.provide:managed_provide_cache:own-reference-before-body", m.loc(f), bool(own),
           "the provider registers a reference under its own provide id before the body (yield)" if own else
           "the provider holds no reference of its own while its body renders: a component that finishes inside the body drops the count to zero and the data is deleted while later siblings still need it")
    for cont in ("exc", "normal"):
        rel = [e for e in cms[cont] if e[0] == "remove" and e[1].startswith("perfutil.provide:provide_references") and e[2][0] in ("param", "free")]
        chk.ob("S2", f"perfutil.provide:managed_provide_cache:own-reference-released-{cont}", m.loc(f), bool(rel) or not own,
               f"own reference released on the {cont} continuation" if rel else f"own reference is not released on the {cont} continuation")
    # the body of ProvideNode.render runs inside the context manager
    m2, f2 = proj.func("provide", "ProvideNode.render")
    chk.analysed(fkey(m2, f2))
    w_ = [x for x in body_walk(f2) if isinstance(x, ast.With) and any(isinstance(it.context_expr, ast.Call) and last_attr(it.context_expr.func) == "managed_provide_cache" for it in x.items)]
    rend = [c for c in calls(f2, "render") if "nodelist" in norm(c.func)]
    ok = bool(w_) and bool(rend) and all(any(a is w_[0] for a in ancestors(c)) for c in rend)
    chk.ob("S2", "provide:ProvideNode.render:body-inside-managed_provide_cache", m2.loc(f2), ok, "the tag body is rendered inside `with managed_provide_cache(provide_id)`" if ok else "the tag body is not rendered inside managed_provide_cache")
    # the id handed to the manager is the id under which the data was stored
    if w_:
        cmcall = next(it.context_expr for it in w_[0].items if isinstance(it.context_expr, ast.Call))
        argn = norm(cmcall.args[0]) if cmcall.args else "?"
        a = assignments(f2, argn)
        ok = len(a) == 1 and isinstance(a[0][1], ast.Call) and last_attr(a[0][1].func) == "set_provided_context_var"
        chk.ob("S2", "provide:ProvideNode.render:same-id", m2.loc(cmcall), ok, f"`{argn}` is the id returned by set_provided_context_var")
    # deletion sites of provide_cache
    n = 0
    for a in w.summ.acc["perfutil.provide:provide_cache"]:
        if a.kind != "remove":
            continue
        n += 1
        atoms = cond_atoms(a.stmt())
        guarded = any(pol and t.startswith("not ") and ("references" in t or "provide_references" in t) for t, pol in atoms) or any((not pol) and ("references" in t) and not t.startswith("not ") and " in " not in t and " is " not in t for t, pol in atoms)
        key = f"perfutil.provide:{qual_of(a.node)}:{short(a.stmt(), 60)}"
        chk.ob("S2", key, a.loc, guarded, "deletion of provided data is guarded by an emptiness test of its reference set" if guarded else f"`{short(a.stmt())}` deletes provided data without testing that no reference is left (conditions: {atoms[:3]})")
    chk.floor("S2-deletes", n, 2)


def s3(chk: Check, proj: Project, w) -> None:
    chk.rule("S3", "a component reference registered for a provide is unregistered on every exceptional exit (pairing engine, same as C06-S1a restricted to the provide tables)")
    from .C06 import _acquire_sites

    n = 0
    for m, f, node, gk, key, text in _acquire_sites(w):
        if "perfutil.provide" not in gk:
            continue
        n += 1
        chk.analysed(fkey(m, f))
        start = [s for s, lab in node.succ if lab not in ("x", "p")]
        probs = w.pair.unprotected(m, f, start, gk, key, False)
        ck = f"{m.name.replace('django_components.', '')}:{qual_of(f)}:{text}:{gk.split(':')[1]}"
        if probs:
            p0 = probs[0]
            chk.violated("S3", ck, f"{p0['module'].rel}:{p0['line']}" if p0["line"] else m.loc(node.ast), f"`{text}` is not undone when `{p0['raiser']}` raises (path {' <- '.join(x.split(':')[1] for x in p0['trail'])}): a stale reference keeps provided data alive / a later render sees it")
        else:
            chk.holds("S3", ck, m.loc(node.ast), "release attempt on every exceptional continuation")
    chk.floor("S3", n, 4)


def s4(chk: Check, proj: Project, w) -> None:
    chk.rule("S4", "Context stores in provide code use a key built from the inject prefix and store an id; the tag's kwargs / payload flow only into provide_cache")
    ev = Evaluator(proj, w.cg)
    m = proj.mod("provide")
    n = 0
    for q in ("set_provided_context_var", "ProvideNode.render"):
        f = m.func(q)
        chk.analysed(fkey(m, f))
        pay = local_from(f, lambda v: isinstance(v, ast.Call) and any(isinstance(k, ast.keyword) and k.arg is None for k in v.keywords) and not v.args) or "payload"
        tainted = {"kwargs", "provided_kwargs", pay}
        for x in body_walk(f):
            # context[<k>] = v
            if isinstance(x, ast.Subscript) and isinstance(x.ctx, ast.Store) and isinstance(x.value, ast.Name) and x.value.id == "context":
                n += 1
                st = enclosing_stmt(x)
                k = ev.eval(m, f, x.slice)
                pref_ok = all(alt and alt[0].kind == "lit" and alt[0].text.startswith("_DJC_INJECT__") for alt in k)
                val = st.value if isinstance(st, ast.Assign) else None
                val_ok = isinstance(val, ast.Name) and len(assignments(f, val.id)) == 1 and isinstance(assignments(f, val.id)[0][1], ast.Call) and last_attr(assignments(f, val.id)[0][1].func) == "gen_id"
                chk.ob("S4", f"provide:{q}:{short(st, 60)}", m.loc(x), pref_ok and val_ok,
                       "stores only an id under a key with the inject prefix" if pref_ok and val_ok else f"`{short(st)}` puts {'a non-prefixed key' if not pref_ok else 'something other than a generated id'} into the template context: provided values become template variables")
            # context.update(X) / context.push(X)
            if isinstance(x, ast.Call) and isinstance(x.func, ast.Attribute) and x.func.attr in ("update", "push") and isinstance(x.func.value, ast.Name) and x.func.value.id == "context":
                n += 1
                arg = x.args[0] if x.args else None
                names = {y.id for y in ast.walk(arg) if isinstance(y, ast.Name)} if arg is not None else set()
                bad = names & tainted if arg is not None else set()
                nonempty_dict = isinstance(arg, ast.Dict) and bool(arg.keys)
                ok = not bad and not (x.keywords) and not nonempty_dict
                chk.ob("S4", f"provide:{q}:{short(x, 60)}", m.loc(x), ok, "pushes an empty layer for the inject key" if ok else f"`{short(x)}` pushes the provided data onto the template context")
        # payload sink
        for x in body_walk(f):
            if isinstance(x, ast.Name) and x.id in (pay,) and isinstance(x.ctx, ast.Load):
                st = enclosing_stmt(x)
                ok = isinstance(st, ast.Assign) and isinstance(st.targets[0], ast.Subscript) and norm(st.targets[0].value) == "provide_cache"
                n += 1
                chk.ob("S4", f"provide:{q}:payload-sink:{short(st, 50)}", m.loc(st), ok, "payload is stored in provide_cache only" if ok else f"payload also flows into `{short(st)}`")
    chk.floor("S4", n, 3)


def s5(chk: Check, proj: Project, w) -> None:
    chk.rule("S5", "get_injected_context_var: found -> returns the cache entry of the id stored under the key in that context; else a non-None default; else raises KeyError")
    m, f = proj.func("provide", "get_injected_context_var")
    chk.analysed(fkey(m, f))
    ps = params(f)
    rets = [s for s in stmts(f) if isinstance(s, ast.Return)]
    raises = [s for s in stmts(f) if isinstance(s, ast.Raise)]
    found = [r for r in rets if r.value is not None and "provide_cache" in norm(r.value)]
    dflt = [r for r in rets if r.value is not None and norm(r.value) == "default"]
    ok1 = False
    if found:
        atoms = cond_atoms(found[0])
        ok1 = any(pol and " in context" in t for t, pol in atoms)
        # the looked-up id is read from the same context under the same key
        v = found[0].value
        keyname = None
        if isinstance(v, ast.Subscript):
            kn = v.slice
            if isinstance(kn, ast.Name):
                a = assignments(f, kn.id)
                keyname = norm(a[0][1]) if len(a) == 1 and a[0][1] is not None else None
            else:
                keyname = norm(kn)
        ok1 = ok1 and keyname is not None and keyname.startswith("context[")
    chk.ob("S5", "provide:get_injected_context_var:found", m.loc(found[0]) if found else m.loc(f), ok1, "found: returns provide_cache[context[internal_key]] under `internal_key in context`" if ok1 else "the 'found' exit is missing or does not read the id from the given context")
    ok2 = False
    if dflt and found:
        atoms = cond_atoms(dflt[0])
        ok2 = any(pol and "default is not None" in t for t, pol in atoms) and dflt[0].lineno > found[0].lineno and any((not pol) and " in context" in t for t, pol in atoms)
    chk.ob("S5", "provide:get_injected_context_var:default", m.loc(dflt[0]) if dflt else m.loc(f), ok2, "default is returned only when the key is absent and the default is not None" if ok2 else "the default exit is missing, unguarded, or taken before the lookup")
    ok3 = bool(raises) and any((dotted(r.exc.func) if isinstance(r.exc, ast.Call) else dotted(r.exc)) == "KeyError" for r in raises if r.exc is not None) and isinstance(f.body[-1], ast.Raise)
    chk.ob("S5", "provide:get_injected_context_var:keyerror", m.loc(raises[-1]) if raises else m.loc(f), ok3, "otherwise KeyError is raised" if ok3 else "the final exit is not `raise KeyError`")
    # internal key = prefix + key
    ikey = local_from_text(f, "_INJECT_CONTEXT_KEY_PREFIX") or "internal_key"
    a = assignments(f, ikey)
    ok4 = len(a) == 1 and a[0][1] is not None and "_INJECT_CONTEXT_KEY_PREFIX" in norm(a[0][1]) and "key" in norm(a[0][1])
    chk.ob("S5", "provide:get_injected_context_var:key-construction", m.loc(a[0][0]) if a else m.loc(f), ok4, "lookup key is the inject prefix + the requested key")


def s7(chk: Check, proj: Project, w) -> None:
    chk.rule("S7", "inject keys never outlive their provider: the key is stored under a layer that `with` pops on every exit; fills do not capture internal keys; the payload class is built from THIS call's keyword names")
    from . import C03

    sub = Check(chk.pid, chk.tier, chk.seed, quiet=True)
    C03.s7(sub, proj, w)
    for o in sub.obls:
        if "no-internal-keys-captured" in o.construct:
            chk.obls.append(type(o)(f"{chk.pid}-S7", o.construct, o.loc, o.verdict, o.message, o.nontrivial, o.detail))
    m, f = proj.func("provide", "ProvideNode.render")
    sp = calls(f, "set_provided_context_var")
    ok = bool(sp) and any(isinstance(a, ast.With) and any(isinstance(it.context_expr, ast.Call) and norm(it.context_expr.func) == f"{norm(sp[0].args[0])}.update" for it in a.items) for a in ancestors(sp[0]))
    chk.ob("S7", "provide:ProvideNode.render:key-under-with-layer", m.loc(sp[0]) if sp else m.loc(f), ok,
           "the inject key is stored inside `with context.update({})`, which pops the layer on every exit" if ok else
           "the inject key is stored on a layer that is pushed/popped by hand: when the body raises the layer (and the key) stay on the caller's Context while the error cleanup deletes the data, so a later render with the same Context gets KeyError for the dangling id instead of the default")
    m2, f2 = proj.func("provide", "set_provided_context_var")
    kw = params(f2)[2]
    nts = [c for c in calls(f2) if last_attr(c.func) == "namedtuple"]
    key = "provide:set_provided_context_var:payload-class-from-this-call"
    if len(nts) != 1:
        chk.ob("S7", key, m2.loc(f2), None if not nts else False,
               "the payload's namedtuple class does not come from this call's keyword names (memoised / shared): a later render of the same tag with other keys raises TypeError or returns the earlier provider's fields")
    else:
        nt = nts[0]
        names_ok = len(nt.args) >= 2 and norm(nt.args[1]) in (f"{kw}.keys()", f"list({kw}.keys())", f"tuple({kw}.keys())", f"list({kw})", f"tuple({kw})", kw)
        ren = next((k.value for k in nt.keywords if k.arg == "rename"), None)
        renamed = ren is not None and not (isinstance(ren, ast.Constant) and ren.value is False)
        local_cls = isinstance(enclosing_stmt(nt), ast.Assign) and enclosing_stmt(nt) in f2.body
        okp = names_ok and not renamed and local_cls
        chk.ob("S7", key, m2.loc(nt), okp,
               f"the payload class is namedtuple(..., {kw}.keys()) built in this call, with the provider's own keyword names as fields" if okp else
               (f"`{short(nt)}` lets namedtuple RENAME fields: a provider keyword that is not a valid field name (`class`, `_hidden`, `data-id`) is silently turned into `_0`, `_1`, ..., and inject() returns an object that does not carry the keyword arguments the provider was given (it used to be refused loudly)" if renamed else
                "the payload's namedtuple class does not come from this call's keyword names (memoised / shared): a later render of the same tag with other keys raises TypeError or returns the earlier provider's fields"))

MANIFEST = {
    "text": "Decides the structural obligations provide/inject needs on every path: inject keys are forwarded completely and unconditionally at every context switch and enumerated on the whole context; the provider holds its own reference for the extent of its body; provided data is deleted only under an emptiness test; component references are released on every exceptional exit; provide code stores only prefixed ids into the Context; inject() has its three exits in order. Also: deferred code never renders with the live input context; inject keys do not outlive their provider; the inject path keeps no memo on the component object; the provider reference is released only after the render's last user hook. Round 4 / triage: deferred hooks run under metadata that carries the live context (known finding F34). Round 5: the layer-wise forwarding form is understood (nearest provider wins), registration is unconditional, error cleanup releases own references only. Round 6: the payload namedtuple keeps the provider's own keyword names (no rename).",
    "note": "Trusted: Django's Context.update copies the pushed dict and flatten() sees all layers. Not decided: 'nearest provider' as a statement about Context-stack shadowing and snapshots under deferred rendering; histories.",
    "technique": "static pass-through completeness, typestate of the provide entry (context-manager summaries), acquire/release pairing, key/taint discipline",
}
