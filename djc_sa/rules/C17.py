"""C17 — the static-files finder exposes exactly the allowed, non-forbidden files (DESIGN.md section 3, C17).

S1 no unescaped setting text in a regex: every non-constant string that reaches re.compile passes re.escape.
S2 every exposure path is filtered: find_location returns only a safe_join'ed path that passed _is_path_valid; every
   yield of list() is dominated by _is_path_valid.
S3 allow AND NOT forbid, with the any/all helpers having the right bodies and the right settings on each side.
S4 default tables: forbidden covers Python and template suffixes, allowed and forbidden are disjoint.
S5 settings accessors respect configured falsy values (None-check `default(...)`, never `value or fallback`).
"""
from __future__ import annotations

import ast
from typing import List, Optional, Set

from ..astq import assignments, calls, kwarg, params, stmts
from ..callgraph import fkey
from ..cfg import CFG, cond_atoms, flatten_conj, path_conditions
from ..report import Check
from ..source import AnalysisError, Project, ancestors, body_walk, dotted, enclosing_func, enclosing_stmt, last_attr, norm, parent, qual_of, short

COMPILE_OK = {
    ("apps", "ComponentsConfig.ready"): "recompiles Django's own tag_re.pattern (already a regex) with DOTALL",
}


def run(chk: Check, proj: Project) -> None:
    chk.explanation = (
        "Taint rule for regex construction (settings text must be escaped), must-pass-through of the path filter and of "
        "safe_join on every exposure path of the finder, shape of the allow/forbid predicate and its helpers, constant "
        "default tables, and None-semantics of the settings accessors."
    )
    chk.not_decided = ["behaviour on real directory trees", "traversal beyond django.utils._os.safe_join (trusted)"]
    chk.trusted_base = ["django.utils._os.safe_join raises for paths outside the root", "django.contrib.staticfiles.utils.get_files lists files under the storage root"]
    s1(chk, proj)
    s2(chk, proj)
    s3(chk, proj)
    s4(chk, proj)
    s5_accessors(chk, proj, ["STATIC_FILES_ALLOWED", "STATIC_FILES_FORBIDDEN", "DIRS", "APP_DIRS"])
    s6_raw_settings_forms(chk, proj)
    s7_same_path_kind(chk, proj)
    s8_one_filter_judged_now(chk, proj)
    s9_every_dir_every_time(chk, proj)


def s8_one_filter_judged_now(chk: Check, proj: Project) -> None:
    chk.rule("S8", "the exposed set is decided by _is_path_valid ALONE and on the tree as it is NOW: list() hands Django's walker the caller's ignore patterns unchanged (ignore patterns are globs that also prune DIRECTORIES), and the finder's constructor - which Django runs once and caches for the process - does not test the file system")
    m, f = proj.func("finders", "ComponentsFileSystemFinder.list")
    chk.analysed(fkey(m, f))
    ip = params(f)[1] if len(params(f)) > 1 else "ignore_patterns"
    gf = [c for c in calls(f) if last_attr(c.func) == "get_files"]
    if not gf:
        chk.undecided("S8", "finders:list:walker-gets-callers-ignore-patterns", m.loc(f), "get_files(...) call not found")
    for c in gf:
        arg = c.args[1] if len(c.args) > 1 else kwarg(c, "ignore_patterns")
        ok = arg is not None and norm(arg) == ip and len(assignments(f, ip)) == 0
        chk.ob("S8", "finders:list:walker-gets-callers-ignore-patterns", m.loc(c), ok,
               f"get_files(storage, {ip}) - the caller's patterns, nothing added" if ok else
               f"`{short(c)}` adds patterns of its own to the walk: ignore patterns are fnmatch globs applied to DIRECTORY names too, so an allowed file inside a directory named like `legacy.py/` or `mail.html/` vanishes from list() / collectstatic while find() still serves it (and a suffix with glob metacharacters hides look-alike names)")
    r = proj.try_func("finders", "ComponentsFileSystemFinder.__init__")
    if r is None:
        chk.undecided("S8", "finders:__init__:no-file-system-test-at-construction", m.loc(f), "__init__ not found")
    else:
        im, init = r
        chk.analysed(fkey(im, init))
        fs = [c for c in calls(init) if (dotted(c.func) or "").startswith(("os.path.isdir", "os.path.exists", "os.path.isfile", "os.listdir", "os.scandir")) or (isinstance(c.func, ast.Attribute) and c.func.attr in ("is_dir", "exists", "is_file", "iterdir"))]
        chk.ob("S8", "finders:__init__:no-file-system-test-at-construction", im.loc(fs[0]) if fs else im.loc(init), not fs,
               "the constructor only records the configured directories; whether one exists is asked when files are listed / found" if not fs else
               f"`{short(enclosing_stmt(fs[0]))}` decides at construction which directories take part, and Django creates the finder once per process (get_finder is memoised): a component directory that is created later is exposed by neither list() nor find() until the process restarts")


def s9_every_dir_every_time(chk: Check, proj: Project) -> None:
    chk.rule("S9", "every configured directory takes part in every lookup: the loops over COMPONENTS.dirs / app_dirs have no break, find() never skips a directory because of what an EARLIER call searched (Django's `searched_locations` is a process-wide debugging list), and the relative path handed to the name filter is computed with a PREFIX operation (os.path.relpath), never with str.lstrip / strip, which remove a character SET")
    lm, lf = proj.func("util.loader", "get_component_dirs")
    chk.analysed(fkey(lm, lf))
    n = 0
    for lp in [x for x in ast.walk(lf) if isinstance(x, ast.For)]:
        if not any(k in norm(lp.iter) for k in ("APP_DIRS", "app_dirs", "DIRS", "component_dirs", "app_paths", "apps")):
            continue
        n += 1
        brk = [x for x in ast.walk(lp) if isinstance(x, ast.Break) and next((a for a in ancestors(x) if isinstance(a, (ast.For, ast.While))), None) is lp]
        chk.ob("S9", f"util.loader:get_component_dirs:loop-over-{short(lp.iter, 30)}-is-complete", lm.loc(brk[0]) if brk else lm.loc(lp), not brk,
               f"`for .. in {short(lp.iter, 40)}` visits every entry" if not brk else
               f"`break` ends `for .. in {short(lp.iter, 40)}` at the first hit: an app that has two of the configured directory names (components/ and widgets/) contributes only the first, the files of the other are exposed by neither list() nor find()")
    chk.floor("S9-loops", n, 2)
    # an explicitly EMPTY COMPONENTS.dirs means "no directories": the legacy fallback to STATICFILES_DIRS is taken only when the
    # setting is ABSENT (None)
    raw = [t.id for st in stmts(lf) if isinstance(st, ast.Assign) and ("dirs" in norm(st.value).lower()) and ("getattr" in norm(st.value) or "._settings" in norm(st.value) or "raw" in norm(st.targets[0]).lower()) for t in st.targets if isinstance(t, ast.Name) and "raw" in t.id.lower()]
    if raw:
        rv_ = raw[0]
        truthy = [x for x in ast.walk(lf) if (isinstance(x, ast.UnaryOp) and isinstance(x.op, ast.Not) and norm(x.operand) == rv_) or (isinstance(x, (ast.If, ast.IfExp, ast.While)) and norm(x.test) == rv_) or (isinstance(x, ast.BoolOp) and any(norm(v_) == rv_ for v_ in x.values))]
        chk.ob("S9", "util.loader:get_component_dirs:dirs-set-means-not-None", lm.loc(truthy[0]) if truthy else lm.loc(lf), not truthy,
               f"whether COMPONENTS.dirs was set is judged by `{rv_} is not None`" if not truthy else
               f"`{short(truthy[0])}` judges by truthiness whether COMPONENTS.dirs was set: an explicitly empty list (`dirs=[]`, i.e. no component directories) counts as 'not set', every STATICFILES_DIRS entry becomes a component directory and find() / list() expose files outside the configured directories")
    from ..state import accesses as _acc, inventory as _inv

    fmod = proj.mod("finders")
    tables = [a for k_, g_ in _inv(proj).items() if g_.mod is fmod for a in _acc(proj, g_) if a.kind in ("insert", "rebind", "elem-insert") and a.func is not None and not (g_.name == "searched_locations")]
    chk.ob("S9", "finders:no-table-of-compiled-patterns", tables[0].loc if tables else fmod.loc(fmod.tree), not tables,
           "the finder keeps no module-level table: the allow / forbid patterns are read from the settings for every file" if not tables else
           f"`{short(tables[0].stmt())}` keeps compiled patterns in module-level `{tables[0].g.name}` under a key that forgets whether an entry was a suffix or a regex, and its flags: a later configuration with the same pattern TEXT is judged with the earlier one's patterns (data.json exposed under allowed=['.js'] after re.compile('.js') was used)")
    # (prefix, path) entries: the loader, the finder's __init__ and its check() unpack the same sequence types as Django's
    # own FileSystemFinder (list AND tuple)
    import importlib.util as _ilu

    def _pair_types(fn_: ast.AST) -> List[Tuple[Set[str], ast.AST]]:
        out_ = []
        for c_ in ast.walk(fn_):
            if isinstance(c_, ast.Call) and norm(c_.func) == "isinstance" and len(c_.args) == 2:
                ts = {x.id for x in ast.walk(c_.args[1]) if isinstance(x, ast.Name)}
                if ts & {"list", "tuple"} and ts <= {"list", "tuple"}:
                    out_.append((ts, c_))
        return out_

    dj_spec = _ilu.find_spec("django.contrib.staticfiles.finders")
    dj_types: Set[str] = set()
    if dj_spec and dj_spec.origin:
        djt = ast.parse(open(dj_spec.origin).read())
        fsf = next((c_ for c_ in djt.body if isinstance(c_, ast.ClassDef) and c_.name == "FileSystemFinder"), None)
        if fsf is not None:
            for ts, _c in _pair_types(fsf):
                dj_types |= ts
    if dj_types != {"list", "tuple"}:
        raise AnalysisError(f"django's FileSystemFinder accepts {sorted(dj_types)} as (prefix, path) entries - expected list and tuple")
    sites = []
    for mod_, qn in (("util.loader", "get_component_dirs"), ("finders", "ComponentsFileSystemFinder.__init__"), ("finders", "ComponentsFileSystemFinder.check")):
        r_ = proj.try_func(mod_, qn)
        if r_ is None:
            continue
        for ts, c_ in _pair_types(r_[1]):
            # only tests of a loop variable / single entry (not of the whole setting, which check() also tests)
            if isinstance(c_.args[0], ast.Name) and any(isinstance(lp_, ast.For) and any(isinstance(t_, ast.Name) and t_.id == c_.args[0].id for t_ in ast.walk(lp_.target)) for lp_ in ast.walk(r_[1])):
                sites.append((r_[0], qn, ts, c_))
    chk.floor("S9-pair-forms", len(sites), 3)
    for mod2, qn, ts, c_ in sites:
        chk.ob("S9", f"{mod2.name.replace('django_components.', '')}:{qn.split('.')[-1]}:{short(c_, 50)}:pair-forms-as-django", mod2.loc(c_), ts == dj_types,
               "a (prefix, path) entry may be a list or a tuple, as in Django's FileSystemFinder" if ts == dj_types else
               f"`{short(c_)}` unpacks a (prefix, path) entry only when it is a {sorted(ts)[0]}: the finder's own check(), its __init__ and Django accept {sorted(dj_types)} - a directory written as `['ui', '/abs/dir']` fails in Path(), is skipped with a warning, and none of its allowed files is exposed by find() / list()")
    # every directory get_component_dirs() returns becomes a finder location (the only test allowed is the exact-duplicate test)
    im, initf = proj.func("finders", "ComponentsFileSystemFinder.__init__")
    chk.analysed(fkey(im, initf))
    loc_loops = [lp for lp in ast.walk(initf) if isinstance(lp, ast.For) and any(isinstance(c, ast.Call) and isinstance(c.func, ast.Attribute) and c.func.attr == "append" and norm(c.func.value) == "self.locations" for c in ast.walk(lp))]
    if not loc_loops or not isinstance(loc_loops[0].iter, ast.Name):
        chk.undecided("S9", "finders:__init__:every-component-dir-is-a-location", im.loc(initf), "the loop that fills self.locations from a local list was not found")
    else:
        dv = loc_loops[0].iter.id
        filt = []
        todo_, seen_ = [dv], set()
        from_dirs = False
        while todo_:
            nm_ = todo_.pop()
            if nm_ in seen_:
                continue
            seen_.add(nm_)
            for _s, v_ in assignments(initf, nm_):
                if v_ is None:
                    continue
                if any(isinstance(c, ast.Call) and last_attr(c.func) == "get_component_dirs" for c in ast.walk(v_)):
                    from_dirs = True
                for comp in [x for x in ast.walk(v_) if isinstance(x, (ast.ListComp, ast.GeneratorExp, ast.SetComp))]:
                    for g_ in comp.generators:
                        filt += g_.ifs
                filt += [c for c in ast.walk(v_) if isinstance(c, ast.Call) and norm(c.func) == "filter"]
                todo_ += [x.id for x in ast.walk(v_) if isinstance(x, ast.Name) and x.id not in seen_]
        skips_ = [x for x in ast.walk(loc_loops[0]) if isinstance(x, (ast.Continue, ast.Break))]
        okl = from_dirs and not filt and not skips_
        bad_ = (filt + skips_)[0] if (filt or skips_) else None
        chk.ob("S9", "finders:__init__:every-component-dir-is-a-location", im.loc(bad_) if bad_ is not None else im.loc(loc_loops[0]), okl,
               "self.locations receives every directory of get_component_dirs() (exact duplicates aside)" if okl else
               (f"`{short(bad_)}` drops configured directories before they become finder locations: a string-prefix test without a path separator (`d.startswith(other)`) also drops a SIBLING that merely shares a prefix (`.../components_admin` next to `.../components`, `ui2` next to `ui`), whose allowed files are then exposed by neither find() nor list()" if bad_ is not None else "the list that fills self.locations is not derived from get_component_dirs()"))
    fm, ff = proj.func("finders", "ComponentsFileSystemFinder.find")
    chk.analysed(fkey(fm, ff))
    skips = [x for x in ast.walk(ff) if isinstance(x, (ast.Continue, ast.Break, ast.Return)) and any("searched_locations" in t for t, _p in cond_atoms(x))]
    chk.ob("S9", "finders:find:searched_locations-does-not-gate-the-lookup", fm.loc(skips[0]) if skips else fm.loc(ff), not skips,
           "`searched_locations` is only appended to; the lookup runs for every directory on every call" if not skips else
           f"`{short(enclosing_stmt(skips[0]))}` skips a directory that is already in `searched_locations`, a module-level list nothing ever clears: only the FIRST find() of the process searches a directory, every later lookup returns nothing for files that list() still exposes")
    pth = params(ff)[1]
    early = [r for r in ast.walk(ff) if isinstance(r, (ast.Return, ast.Continue, ast.Break)) and any(any(isinstance(x, ast.Name) and x.id == pth for x in ast.walk(e)) for e, _p in flatten_conj(path_conditions(r)))]
    chk.ob("S9", "finders:find:no-exit-on-the-text-of-the-path", fm.loc(early[0]) if early else fm.loc(ff), not early,
           "find() hands every requested path to find_location(); no exit depends on the text of the path" if not early else
           f"`{short(early[0])}` under `{' and '.join(('' if p_ else 'not ') + t_ for t_, p_ in cond_atoms(early[0]))}` ends the lookup because of the TEXT of the requested path: a substring test such as `'..' in path` also refuses allowed files whose NAME contains the substring (`jquery..min.js`, `v1..2/app.js`), which list() still exposes - traversal is already refused by safe_join in find_location")
    fl, flf = proj.func("finders", "ComponentsFileSystemFinder.find_location")
    strips = [c for fn in (ff, flf) for c in ast.walk(fn) if isinstance(c, ast.Call) and isinstance(c.func, ast.Attribute) and c.func.attr in ("lstrip", "rstrip", "strip") and c.args and not (isinstance(c.args[0], ast.Constant) and isinstance(c.args[0].value, str) and len(c.args[0].value) == 1)]
    chk.ob("S9", "finders:find_location:relative-path-by-prefix-operation", fl.loc(strips[0]) if strips else fl.loc(flf), not strips,
           "no strip-family call with a multi-character argument on the lookup path" if not strips else
           f"`{short(strips[0])}` removes every leading CHARACTER that occurs in the root path, not the root prefix: the relative name handed to the allow / forbid patterns loses its first letters (`notes/app.js` under .../components -> `app.js`: a forbidden `^notes/` no longer matches; `test.css` under .../site.v2/components becomes the empty string)")


def s7_same_path_kind(chk: Check, proj: Project) -> None:
    chk.rule("S7", "both exposure routes judge the SAME string: the allow/forbid predicate receives the path relative to the component directory in list() and in find_location() (never the absolute path, whose directory part can itself match or defeat an anchored pattern)")
    m = proj.mod("finders")
    n = 0
    for q in ("ComponentsFileSystemFinder.list", "ComponentsFileSystemFinder.find_location"):
        f = m.func(q)
        chk.analysed(f"{m.name}:{q}")
        for c in [c for c in calls(f) if last_attr(c.func) == "_is_path_valid" and c.args]:
            n += 1
            a = c.args[0]
            kind = "unknown"
            if isinstance(a, ast.Name):
                # nearest earlier definition of the variable in source order
                ds = [(st, v) for st, v in assignments(f, a.id) if st.lineno < c.lineno]
                loopvar = any(isinstance(x, ast.For) and any(isinstance(t, ast.Name) and t.id == a.id for t in ast.walk(x.target)) and any(y is c for y in ast.walk(x))
                              and isinstance(x.iter, ast.Call) and last_attr(x.iter.func) == "get_files" for x in ast.walk(f))
                ds = [(st, v) for st, v in ds if v is not None and not isinstance(st, ast.For)]
                if loopvar and not ds:
                    kind = "relative"  # element of get_files(storage, ...): relative to the storage root
                elif ds:
                    v = sorted(ds, key=lambda t: t[0].lineno)[-1][1]
                    if v is not None and any(isinstance(x, ast.Call) and last_attr(x.func) in ("safe_join", "join", "abspath", "realpath") for x in ast.walk(v)):
                        kind = "absolute"
                    elif v is not None and (any(isinstance(x, ast.Call) and last_attr(x.func) in ("removeprefix", "relpath") for x in ast.walk(v)) or isinstance(v, ast.Subscript)):
                        kind = "relative"
                    if v is not None and any(isinstance(x, ast.Call) and last_attr(x.func) == "relpath" for x in ast.walk(v)):
                        kind = "relative"
                elif a.id in params(f):
                    kind = "relative"  # the requested static path as given by the caller
            elif any(isinstance(x, ast.Call) and last_attr(x.func) in ("safe_join", "join", "abspath") for x in ast.walk(a)):
                kind = "absolute"
            key = f"finders:{q}:predicate-sees-relative-path"
            if kind == "relative":
                chk.holds("S7", key, m.loc(c), f"`{short(c)}` receives the path relative to the component directory")
            elif kind == "absolute":
                chk.violated("S7", key, m.loc(c), f"`{short(c)}` receives the ABSOLUTE path (result of safe_join) while list() judges the relative one: with forbidden `^private/` collectstatic hides private/app.js but find('private/app.js') serves it; a component directory whose own path matches an allowed pattern exposes every file in it")
            else:
                chk.undecided("S7", key, m.loc(c), f"kind of path passed in `{short(c)}` not determined")
    chk.floor("S7", n, 2)


def s6_raw_settings_forms(chk: Check, proj: Project) -> None:
    chk.rule("S6", "every reader of the raw COMPONENTS setting handles BOTH documented forms (a dict and a ComponentsSettings instance)")
    n = 0
    for m, q, f in proj.all_funcs():
        raw = [c for c in calls(f, "getattr") if len(c.args) >= 2 and isinstance(c.args[1], ast.Constant) and c.args[1].value == "COMPONENTS" and norm(c.args[0]).split(".")[-1] == "settings"]
        for c in raw:
            st = enclosing_stmt(c)
            var = st.targets[0].id if isinstance(st, ast.Assign) and isinstance(st.targets[0], ast.Name) else None
            if var is None:
                continue
            n += 1
            chk.analysed(f"{m.name}:{q}")
            tests = set()
            for x in ast.walk(f):
                if isinstance(x, ast.Call) and norm(x.func) == "isinstance" and len(x.args) == 2 and norm(x.args[0]) == var:
                    for t in (x.args[1].elts if isinstance(x.args[1], ast.Tuple) else [x.args[1]]):
                        tests.add(norm(t).split(".")[-1])
            as_dict = "dict" in tests or "Mapping" in tests or any(isinstance(x, ast.keyword) and x.arg is None and norm(x.value) == var for x in ast.walk(f))
            as_obj = "ComponentsSettings" in tests
            ok = as_dict and as_obj
            chk.ob("S6", f"{m.name.replace('django_components.', '')}:{q}:both-setting-forms", m.loc(c), ok,
                   f"`{var}` is handled as a dict and as a ComponentsSettings instance" if ok else
                   f"`{var}` (settings.COMPONENTS) is handled only as {'a dict' if as_dict else 'a ComponentsSettings instance' if as_obj else 'neither form'}: with the other documented form `dirs` counts as unset, the finder falls back to STATICFILES_DIRS and exposes files outside the component directories")
    chk.floor("S6", n, 2)


def _escaped(proj: Project, m, f, e: ast.AST, depth: int = 0) -> Optional[ast.AST]:
    """First raw (non-constant, non-escaped) leaf of a regex-building expression, or None if all is escaped."""
    if depth > 5:
        return e
    ok, _v = proj.try_fold(m, e)
    if ok:
        return None
    if isinstance(e, ast.Call):
        d = dotted(e.func) or ""
        if d == "re.escape":
            return None
        if isinstance(e.func, ast.Attribute) and e.func.attr == "join" and e.args:
            a = e.args[0]
            if isinstance(a, (ast.GeneratorExp, ast.ListComp)):
                return _escaped(proj, m, f, a.elt, depth + 1)
            return _escaped(proj, m, f, a, depth + 1)
        if isinstance(e.func, ast.Attribute) and e.func.attr == "format":
            for a in list(e.args) + [k.value for k in e.keywords]:
                r = _escaped(proj, m, f, a, depth + 1)
                if r is not None:
                    return r
            return _escaped(proj, m, f, e.func.value, depth + 1)
        return e
    if isinstance(e, ast.JoinedStr):
        for v in e.values:
            if isinstance(v, ast.FormattedValue):
                r = _escaped(proj, m, f, v.value, depth + 1)
                if r is not None:
                    return r
        return None
    if isinstance(e, ast.BinOp) and isinstance(e.op, (ast.Add, ast.Mod)):
        return _escaped(proj, m, f, e.left, depth + 1) or _escaped(proj, m, f, e.right, depth + 1)
    if isinstance(e, ast.IfExp):
        return _escaped(proj, m, f, e.body, depth + 1) or _escaped(proj, m, f, e.orelse, depth + 1)
    if isinstance(e, ast.Name) and f is not None:
        asg = assignments(f, e.id)
        if asg and e.id not in params(f):
            for _s, v in asg:
                if v is None:
                    return e
                r = _escaped(proj, m, f, v, depth + 1)
                if r is not None:
                    return r
            return None
    return e


def s1(chk: Check, proj: Project) -> None:
    chk.rule("S1", "every non-constant string reaching re.compile passes re.escape (package-wide)")
    n = 0
    for m, q, f in proj.all_funcs():
        if "management" in m.name:
            continue
        for c in calls(f):
            if dotted(c.func) != "re.compile" or not c.args:
                continue
            n += 1
            chk.analysed(fkey(m, f))
            key = f"{m.name.replace('django_components.', '')}:{q}:{short(c, 60)}"
            tbl = COMPILE_OK.get((m.name.replace("django_components.", ""), q))
            raw = _escaped(proj, m, f, c.args[0])
            if raw is None:
                chk.holds("S1", key, m.loc(c), "pattern is built from constants and re.escape()d parts")
            elif tbl:
                chk.holds("S1", key, m.loc(c), f"reviewed: {tbl}", nontrivial=False)
            else:
                chk.violated("S1", key, m.loc(c), f"`{short(c)}` interpolates `{short(raw)}` into a regex without re.escape: metacharacters in a configured suffix change what is matched (`.ts` also matches `secrets`, `.min.js` matches `a.minXjs`) or raise re.error")
    chk.floor("S1", n, 3)


def s2(chk: Check, proj: Project) -> None:
    chk.rule("S2", "find_location returns only a safe_join(root, ...) path that passed _is_path_valid; every yield of list() is dominated by _is_path_valid; no other method of the finder hands out paths")
    m, f = proj.func("finders", "ComponentsFileSystemFinder.find_location")
    chk.analysed(fkey(m, f))
    rets = [s for s in stmts(f) if isinstance(s, ast.Return) and s.value is not None and not (isinstance(s.value, ast.Constant) and s.value.value is None)]
    chk.floor("S2-returns", len(rets), 1)
    for r in rets:
        v = norm(r.value)
        asg = assignments(f, v)
        sj = [a for a in asg if isinstance(a[1], ast.Call) and last_attr(a[1].func) == "safe_join"]
        last = max((a[0].lineno for a in asg), default=0)
        ok_join = bool(sj) and sj[-1][0].lineno == last and norm(sj[-1][1].args[0]) == params(f)[1]
        chk.ob("S2", "finders:find_location:safe_join", m.loc(r), ok_join, f"the returned `{v}` is the result of safe_join({params(f)[1]}, ...)" if ok_join else
               f"the returned `{v}` is not (last) assigned from safe_join(root, ...): a request path with `..` can resolve to a file outside the component directory (a string-prefix check has no separator boundary)")
        at = cond_atoms(r)
        # the tested string is the joined (normalised) path itself or computed from it (e.g. relpath(<joined>, root))
        def from_joined(name: str) -> bool:
            if name == v:
                return True
            return any(val is not None and any(isinstance(x, ast.Name) and x.id == v for x in ast.walk(val)) for _s, val in assignments(f, name))

        tested = []
        for t, pol in at:
            if pol and "self._is_path_valid(" in t:
                try:
                    e = ast.parse(t, mode="eval").body
                except SyntaxError:
                    continue
                for c in ast.walk(e):
                    if isinstance(c, ast.Call) and last_attr(c.func) == "_is_path_valid" and c.args and isinstance(c.args[0], ast.Name):
                        tested.append(c.args[0].id)
        ok_valid = bool(tested)
        # ... and the validity test looks at the JOINED (normalised) path: it is evaluated after the safe_join assignment
        from ..cfg import CFG

        cfg = CFG(f)
        dom = cfg.dominators()
        tests = [n for n in cfg.nodes if n.kind == "test" and n.ast is not None and "self._is_path_valid(" in norm(n.ast)]
        joins = [n for a in sj for n in cfg.nodes_of(a[0])]
        after_join = bool(tests) and bool(joins) and all(any(cfg.dominates(j, t, dom) for j in joins) for t in tests) and all(from_joined(x) for x in tested)
        chk.ob("S2", "finders:find_location:filtered", m.loc(r), ok_valid and after_join,
               "returned only if _is_path_valid(<joined path>)" if ok_valid and after_join else
               ("a path is returned without passing _is_path_valid" if not ok_valid else
                "the allowed/forbidden test is applied to the raw request string BEFORE safe_join normalises it: `card/card.py/.` does not end in a forbidden suffix, passes, and is then resolved to the forbidden file"))
    m2, f2 = proj.func("finders", "ComponentsFileSystemFinder.list")
    chk.analysed(fkey(m2, f2))
    ys = [n for n in body_walk(f2) if isinstance(n, ast.Yield)]
    chk.floor("S2-yields", len(ys), 1)
    for y in ys:
        at = cond_atoms(enclosing_stmt(y))
        first = norm(y.value.elts[0]) if isinstance(y.value, ast.Tuple) else norm(y.value) if y.value is not None else "?"
        ok = any(pol and f"self._is_path_valid({first})" in t for t, pol in at)
        chk.ob("S2", "finders:list:filtered", m2.loc(y), ok, f"`{first}` is yielded only if _is_path_valid" if ok else f"`{short(y)}` yields a path that did not pass _is_path_valid: collectstatic exposes forbidden files")
    # every configured location is listed: the loop over the locations is never left early
    lp = next((x for x in f2.body if isinstance(x, ast.For)), None)
    if lp is not None:
        early = [x for x in ast.walk(lp) if isinstance(x, (ast.Return, ast.Break)) and next((a for a in ancestors(x) if isinstance(a, (ast.For, ast.While))), None) is lp]
        chk.ob("S2", "finders:list:every-location-visited", m2.loc(early[0]) if early else m2.loc(lp), not early,
               "the loop over the component directories has no return / break" if not early else
               f"`{short(enclosing_stmt(early[0]))}` ends the listing at the first directory that fails the test: every component directory after a missing one disappears from list() / collectstatic while find() still serves its files")
    # the predicate judges the path it was given, unchanged, against the configured patterns
    mp, fp = proj.func("finders", "ComponentsFileSystemFinder._is_path_valid")
    pth = params(fp)[1]
    re_assign = [st for st in stmts(fp) if any(isinstance(t, ast.Name) and t.id == pth for t, _v in __import__("djc_sa.source", fromlist=["assign_targets"]).assign_targets(st))]
    helper_args = [c.args[0] for c in calls(fp) if last_attr(c.func) in ("any_regex_match", "no_regex_match") and c.args]
    okp = not re_assign and len(helper_args) >= 2 and all(isinstance(a, ast.Name) and a.id == pth for a in helper_args)
    chk.ob("S2", "finders:_is_path_valid:path-judged-unchanged", mp.loc(re_assign[0]) if re_assign else mp.loc(fp), okp,
           f"`{pth}` reaches any_regex_match / no_regex_match unchanged" if okp else
           f"`{short(re_assign[0]) if re_assign else 'the helpers receive another value'}`: the path is transformed before it is matched while the configured patterns are not - a forbidden pattern with an upper-case letter (`^Private/`, `SECRET`) never matches any more and the files it hides become exposed")
    # a configured suffix must match at the exact END of the path: `$` also matches before a trailing newline
    anchors = [b.right for b in ast.walk(fp) if isinstance(b, ast.BinOp) and isinstance(b.op, ast.Add) and isinstance(b.right, ast.Constant) and isinstance(b.right.value, str)
               and any(isinstance(c, ast.Call) and last_attr(c.func) == "escape" for c in ast.walk(b.left))]
    if anchors:
        bad_a = [a for a in anchors if a.value != "\\Z"]
        chk.ob("S2", "finders:_is_path_valid:suffix-anchored-at-exact-end", mp.loc(bad_a[0]) if bad_a else mp.loc(anchors[0]), not bad_a,
               "suffixes are compiled as `<escaped suffix>\\Z`" if not bad_a else
               f"suffixes are compiled with `{bad_a[0].value}` as the end anchor, which also matches before a trailing newline: a file named 'evil.css\\n' counts as ending in '.css' and is exposed, 'mod.py\\n' counts as a '.py' file")
    # other methods returning / yielding paths
    cls = proj.mod("finders").cls("ComponentsFileSystemFinder")
    for st in cls.body:
        if isinstance(st, ast.FunctionDef) and st.name not in ("find_location", "list", "find", "__init__", "check", "_is_path_valid"):
            gives = any(isinstance(n, (ast.Yield, ast.YieldFrom)) for n in ast.walk(st)) or any(isinstance(n, ast.Return) and n.value is not None for n in ast.walk(st))
            if gives:
                chk.undecided("S2", f"finders:ComponentsFileSystemFinder.{st.name}", m.loc(st), "new finder method that returns/yields values: does it expose paths without the filter?")
    mf, ff = proj.func("finders", "ComponentsFileSystemFinder.find")
    returned = {norm(r.value) for r in stmts(ff) if isinstance(r, ast.Return) and isinstance(r.value, ast.Name)}
    lists = {norm(c.func.value) for c in calls(ff, "append")} & returned  # type: ignore[union-attr]
    gives = (returned - lists) | {norm(c.args[0]) for c in calls(ff, "append") if c.args and isinstance(c.args[0], ast.Name) and norm(c.func.value) in lists}  # type: ignore[union-attr]
    okf = bool(gives) and all(assignments(ff, g) and all(isinstance(a[1], ast.Call) and last_attr(a[1].func) == "find_location" for a in assignments(ff, g)) for g in gives)
    chk.ob("S2", "finders:find:through-find_location", mf.loc(ff), okf, "find() only returns what find_location returned")


def s3(chk: Check, proj: Project) -> None:
    chk.rule("S3", "_is_path_valid = any-match over the allowed setting AND none-match over the forbidden setting")
    m, f = proj.func("finders", "ComponentsFileSystemFinder._is_path_valid")
    chk.analysed(fkey(m, f))
    rets = [s for s in stmts(f) if isinstance(s, ast.Return)]
    ok = False
    msg = ""
    if len(rets) == 1 and isinstance(rets[0].value, ast.BoolOp) and isinstance(rets[0].value.op, ast.And) and len(rets[0].value.values) == 2:
        a, b = rets[0].value.values
        if isinstance(a, ast.Call) and isinstance(b, ast.Call):
            names = {last_attr(a.func): a, last_attr(b.func): b}
            if set(names) == {"any_regex_match", "no_regex_match"}:
                al, fo = names["any_regex_match"].args[1], names["no_regex_match"].args[1]
                src_a = " ".join(norm(v) for _s, v in assignments(f, norm(al)) if v is not None)
                src_f = " ".join(norm(v) for _s, v in assignments(f, norm(fo)) if v is not None)
                ok = "STATIC_FILES_ALLOWED" in src_a and "FORBIDDEN" not in src_a and "STATIC_FILES_FORBIDDEN" in src_f and "ALLOWED" not in src_f and norm(names["any_regex_match"].args[0]) == norm(names["no_regex_match"].args[0]) == params(f)[1]
                msg = "allowed list from STATIC_FILES_ALLOWED, forbidden list from STATIC_FILES_FORBIDDEN, same path"
    chk.ob("S3", "finders:_is_path_valid:allow-and-not-forbid", m.loc(rets[0]) if rets else m.loc(f), ok, msg if ok else f"`{short(rets[0]) if rets else '?'}` is not `any_regex_match(path, allowed) and no_regex_match(path, forbidden)` over the right settings")
    mm = proj.mod("util.misc")
    fa = mm.func("any_regex_match")
    fn = mm.func("no_regex_match")
    ra = norm(next(s for s in stmts(fa) if isinstance(s, ast.Return)).value)
    rn = norm(next(s for s in stmts(fn) if isinstance(s, ast.Return)).value)
    chk.ob("S3", "util.misc:any_regex_match", mm.loc(fa), ra.startswith("any(") and ".search(" in ra and "is not None" in ra, f"any_regex_match = `{ra}`")
    chk.ob("S3", "util.misc:no_regex_match", mm.loc(fn), rn.startswith("all(") and ".search(" in rn and rn.count("is None") == 1 and "is not None" not in rn, f"no_regex_match = `{rn}`")


def s4(chk: Check, proj: Project) -> None:
    chk.rule("S4", "default tables: forbidden contains .py .pyc .html .django .dj .tpl; allowed and forbidden are disjoint; no allowed entry is a Python / template suffix")
    m = proj.mod("app_settings")
    dv = m.global_value("defaults")
    if not isinstance(dv, ast.Call):
        raise AnalysisError("app_settings.defaults vanished")
    tables = {}
    for k in dv.keywords:
        if k.arg in ("static_files_allowed", "static_files_forbidden"):
            ok, v = proj.try_fold(m, k.value)
            if not ok:
                raise AnalysisError(f"defaults.{k.arg} is not a constant list")
            tables[k.arg] = list(v)
    al, fo = set(tables.get("static_files_allowed", [])), set(tables.get("static_files_forbidden", []))
    need = {".py", ".pyc", ".html", ".django", ".dj", ".tpl"}
    chk.ob("S4", "app_settings:defaults:forbidden-covers-code-and-templates", m.loc(dv), need <= fo, f"forbidden defaults contain {sorted(need)}" if need <= fo else f"forbidden defaults lack {sorted(need - fo)}: Python / template files are exposed by default")
    chk.ob("S4", "app_settings:defaults:disjoint", m.loc(dv), not (al & fo) and bool(al), "allowed and forbidden defaults are disjoint" if not (al & fo) else f"{sorted(al & fo)} are both allowed and forbidden")
    bad = {x for x in al if x.lower() in need or x.lower() in (".pyo", ".pyd", ".jinja", ".jinja2", ".htm")}
    chk.ob("S4", "app_settings:defaults:no-code-in-allowed", m.loc(dv), not bad, "no Python / template suffix is allowed by default" if not bad else f"allowed defaults contain {sorted(bad)}")
    chk.ob("S4", "app_settings:defaults:suffix-form", m.loc(dv), all(isinstance(x, str) and x.startswith(".") for x in al | fo), "all default entries are dot-suffixes")


def s5_accessors(chk: Check, proj: Project, names: List[str], rule: str = "S5") -> None:
    chk.rule(rule, "settings accessors fall back to the default only for None (`default(value, fallback)`), so configured falsy values ([] / 0 / False) are respected")
    m = proj.mod("app_settings")
    n = 0
    for nm in names:
        r = proj.try_func("app_settings", f"InternalSettings.{nm}")
        if r is None:
            raise AnalysisError(f"anchor vanished: InternalSettings.{nm}")
        f = r[1]
        n += 1
        rets = [s for s in stmts(f) if isinstance(s, ast.Return) and s.value is not None]
        ors = [b for s in stmts(f) for b in ast.walk(s) if isinstance(b, ast.BoolOp) and isinstance(b.op, ast.Or) and any("_settings." in norm(v) or norm(v) == "val" for v in b.values)]
        dflt = [c for st_ in stmts(f) for c in ast.walk(st_) if isinstance(c, ast.Call) and last_attr(c.func) == "default"]
        # a value that already went through default(x, <non-None>) is never None: a later `is None` fallback is dead
        dead = []
        for st_ in stmts(f):
            if isinstance(st_, ast.If) and isinstance(st_.test, ast.Compare) and isinstance(st_.test.ops[0], ast.Is) and isinstance(st_.test.left, ast.Name) and isinstance(st_.test.comparators[0], ast.Constant) and st_.test.comparators[0].value is None:
                prior = [a for a in assignments(f, st_.test.left.id) if a[0].lineno < st_.lineno]
                if prior and isinstance(prior[-1][1], ast.Call) and last_attr(prior[-1][1].func) == "default":
                    dead.append(st_)
        if dead:
            chk.violated(rule, f"app_settings:InternalSettings.{nm}:dead-fallback", m.loc(dead[0]), f"`{short(dead[0].test)}` can never be true because the value already went through default(...): the fallback to the deprecated setting name below it is dead, so a list configured under the old name is silently ignored")
        # ... and hands the configured value out as it is (no normalisation of the patterns behind the consumer's back)
        direct = bool(rets) and all(isinstance(r.value, ast.Call) and last_attr(r.value.func) in ("default", "cast", "_validate_context_behavior") or isinstance(r.value, (ast.Name, ast.Attribute)) for r in rets)
        if nm.startswith("STATIC_FILES"):
            chk.ob(rule, f"app_settings:InternalSettings.{nm}:value-unchanged", m.loc(rets[0]) if rets else m.loc(f), direct,
                   "the accessor returns default(<configured>, <fallback>) itself" if direct else
                   f"`{short(rets[0])}` rewrites the configured patterns (e.g. prepends a dot): a suffix such as 'secrets.json' or '_secret.json' becomes '.secrets.json' and no longer matches the files it was meant to forbid")
        ok = bool(dflt) and not ors
        chk.ob(rule, f"app_settings:InternalSettings.{nm}", m.loc(f), ok, "returns default(<configured>, <fallback>) (None-check)" if ok else
               f"`{short(ors[0]) if ors else short(rets[0]) if rets else nm}` falls back to the default for every FALSY configured value: an explicit empty list / 0 is silently replaced by the default")
    chk.floor(rule, n, len(names))


MANIFEST = {
    "text": "Decides that setting text can only enter a regex through re.escape (package-wide taint rule), that find/list can only hand out paths that went through safe_join and the validity predicate (dominance), that the predicate is allow-AND-NOT-forbid over the right settings with correct any/all helpers, that the default tables are disjoint and forbid Python/template suffixes, and that the settings accessors respect configured falsy values. Also: a dead fallback lint, both documented forms of the raw COMPONENTS setting are handled by every reader, and list() and find() judge the same (relative, normalised) path. Round 4 / triage: every location is listed, the path reaches the predicate unchanged, accessors hand out the configured patterns unchanged, suffixes are anchored with \\Z. Round 6: list() hands the walker the caller's ignore patterns unchanged and the constructor does not test the file system. Round 7: every configured directory on every lookup (no break, no gating by searched_locations, prefix operation for the relative path).",
    "note": "Trusted: django's safe_join and get_files. Not decided: behaviour on real directory trees.",
    "technique": "static taint (re.escape as sanitizer), dominance of filters on exposure paths, constant-table checks, sibling agreement of accessors",
}
