"""C10 — stock templating preserved; composes with components (DESIGN.md section 3, C10).

S1 patch-vs-upstream structural diff: the two monkey-patched Template methods differ from the INSTALLED Django's
   methods only by the reviewed deltas.
S2 stock templates keep isolated_context=True; the nesting flag is stored only on component-owned templates.
S3 token-stream identity for quote-free sources and escape pairs in quoted strings (shared with C09-S4/S5).
S4 inventory of mutations of Django objects (patch points).
S5 deferred rendering copies the block / extends context per layer (snapshot_context, shared with C03-S6).
S6 the block layer is re-pushed around every slot render, filled or not.
"""
from __future__ import annotations

import ast
import copy
import difflib
import importlib.util
import os
from typing import Dict, List, Optional, Tuple

from ..astq import assignments, calls, kwarg, params, stmts
from ..callgraph import fkey
from ..cfg import cond_atoms
from ..report import Check
from ..source import AnalysisError, Project, ancestors, body_walk, dotted, enclosing_func, enclosing_stmt, last_attr, norm, parent, short
from . import C03, C09

PATCH_POINTS = {
    ("util.django_monkeypatch", "monkeypatch_template_cls", "_djc_patched"): "marker that the class was patched",
    ("util.django_monkeypatch", "monkeypatch_template_compile_nodelist", "compile_nodelist"): "reviewed patch (S1)",
    ("util.django_monkeypatch", "monkeypatch_template_render", "render"): "reviewed patch (S1)",
    ("apps", "ComponentsConfig.ready", "tag_re"): "documented `multiline_tags` feature, only when the setting is on",
}


def run(chk: Check, proj: Project) -> None:
    chk.explanation = (
        "Structural diff of the two patched Template methods against the installed Django source (parsed, not imported) "
        "with every difference required to be one of the reviewed deltas; control dependence of isolated_context; "
        "inventory of all stores to Django objects; copy discipline of block/extends contexts for deferred rendering."
    )
    chk.not_decided = ["byte-identical output and errors of stock templates as behaviour", "the inlining clause for {% extends %}/{% block %}/{% include %} with components (run-time state in RenderContext)"]
    chk.trusted_base = ["the installed Django source found through importlib is the Django that runs"]
    s1(chk, proj)
    s2(chk, proj)
    s3(chk, proj)
    s4(chk, proj)
    s5(chk, proj)
    s6(chk, proj)
    s7(chk, proj)
    from .C17 import s5_accessors

    s5_accessors(chk, proj, ["MULTILINE_TAGS"], rule="S8")
    s9(chk, proj)
    from . import C03
    from .common import world

    s11(chk, proj)
    _m9, _f9 = proj.func("util.template_parser", "parse_template")
    chk.borrow("S12", "tokens of a stock template keep Django's line numbers and positions (error messages and the debug page quote them): relexed segments are shifted by the segment origin and an ASSIGNED absolute line offset (shared with C09-S1..S3)",
               lambda sub: C09.s1_s3(sub, proj, _m9, _f9))
    chk.borrow("S14", "a stock template that takes the quote-aware path (any tag with a quote in it) is lexed as Django lexes it: the decisions re-implemented from Lexer.create_token - when a verbatim block starts, which tag ends it ('end' + the whole contents of the start tag), how contents are stripped - are Django's own, compared with the installed source (shared with C09-S10)",
               lambda sub: C09.s10_same_as_django(sub, proj, _m9, _f9))
    from . import C01 as _C01

    chk.borrow("S15", "a component body composes with {% include %}: fills are discovered by RENDERING the body (an included template may contribute them), not by searching the body's own node tree; and the dynamic component hands its target a snapshot of the context taken at the tag's position, so a deferred render does not inherit block overrides that were popped in between (shared with C01-S11 / C01-S5)",
               lambda sub: (_C01.s11(sub, proj, world(proj)), _C01.s5(sub, proj, world(proj))), only=lambda o: "discovery" in o.construct or "dynamic" in o.construct.lower())
    from . import C18 as _C18

    chk.borrow("S13", "a component's template is compiled with ITS OWN name and origin: the template cache key covers every input of the compilation - `origin.template_name` is what Django resolves a relative {% extends './base.html' %} / {% include './row.html' %} against, so two components with byte-identical template files in different directories must not share one compiled Template (shared with C18-S4)",
               lambda sub: _C18.s4(sub, proj), only=lambda o: "key-covers-every-input" in o.construct or "key" in o.construct)
    chk.borrow("S10", "the render_context layer pushed for a component render is popped on every normal path of THAT call (not later from a callback): a layer left on the parent's RenderContext makes an enclosing {% include %} pop the wrong one and later {% block %}s lose their BlockContext (shared with C03-S3)",
               lambda sub: C03.s3(sub, proj, world(proj)))


def s11(chk: Check, proj: Project) -> None:
    chk.rule("S11", "the library's tags stay transparent to Django's tree walks: every in-package Node class that keeps its body in `self.nodelist` advertises it through `child_nodelists` (Node.get_nodes_by_type is how ExtendsNode finds the {% block %} tags of a parent template, also inside component / fill / slot / provide bodies)")
    import importlib.util
    spec = importlib.util.find_spec("django.template.base")
    if spec is None or not spec.origin:
        raise AnalysisError("django.template.base not found")
    dj = ast.parse(open(spec.origin).read())
    node_cls = next((c for c in dj.body if isinstance(c, ast.ClassDef) and c.name == "Node"), None)
    default = None
    walker_uses = False
    if node_cls is not None:
        for st in node_cls.body:
            if isinstance(st, ast.Assign) and norm(st.targets[0]) == "child_nodelists":
                default = [e.value for e in st.value.elts if isinstance(e, ast.Constant)] if isinstance(st.value, (ast.Tuple, ast.List)) else None
            if isinstance(st, ast.FunctionDef) and st.name == "get_nodes_by_type":
                walker_uses = any(isinstance(x, ast.Attribute) and x.attr == "child_nodelists" for x in ast.walk(st))
    if default is None or not walker_uses:
        raise AnalysisError("django.template.base.Node: child_nodelists default / get_nodes_by_type walk not found")
    n = 0
    for m in proj.modules.values():
        for cls in [c for c in ast.walk(m.tree) if isinstance(c, ast.ClassDef)]:
            bases = {last_attr(b) for b in cls.bases}
            if not (bases & {"Node", "BaseNode"}):
                continue
            n += 1
            own = [st for st in cls.body if isinstance(st, (ast.Assign, ast.AnnAssign)) and norm(st.targets[0] if isinstance(st, ast.Assign) else st.target) == "child_nodelists"]
            keeps_body = any(isinstance(x, ast.Attribute) and isinstance(x.ctx, ast.Store) and x.attr == "nodelist" and norm(x.value) == "self" for x in ast.walk(cls)) or "BaseNode" in bases or cls.name == "BaseNode"
            key = f"{m.name.replace('django_components.', '')}:{cls.name}:child-nodelists"
            if not own:
                chk.holds("S11", key, m.loc(cls), f"inherits child_nodelists (Django's default {tuple(default)})", nontrivial=False)
                continue
            v = own[0].value
            vals = [e.value for e in v.elts if isinstance(e, ast.Constant)] if isinstance(v, (ast.Tuple, ast.List)) else None
            ok = vals is not None and (not keeps_body or "nodelist" in vals)
            chk.ob("S11", key, m.loc(own[0]), ok if vals is not None else None,
                   f"child_nodelists = {vals} names the body" if ok else
                   f"`{short(own[0])}` hides the tag's body from Node.get_nodes_by_type: a {{% block %}} written inside a component / fill / slot / provide body of a PARENT template is no longer registered by ExtendsNode, so `{{{{ block.super }}}}` in a child's override renders empty")
    chk.floor("S11", n, 6)


def s9(chk: Check, proj: Project) -> None:
    chk.rule("S9", "the block layer of a component render exists before any context of that render is snapshotted; the loop layer handed to an isolated component is found by its `forloop` key (not by position); a component template's Origin.template_name is the name it was compiled under (relative {% extends %}/{% include %} resolve against it)")
    from ..cfg import CFG

    r = proj.try_func("component", "Component._render_with_id") or proj.try_func("component", "Component._render_impl")
    m, f = r  # type: ignore[misc]
    chk.analysed(f"{m.name}:{f.name}")
    cfg = CFG(f)
    dom = cfg.dominators()
    push = [c for c in calls(f) if isinstance(c.func, ast.Attribute) and c.func.attr == "push" and norm(c.func.value).endswith(".render_context") and any("BLOCK_CONTEXT_KEY" in norm(a) for a in c.args)]
    snaps = [c for c in calls(f, "snapshot_context") if enclosing_func(c) is f]
    if len(push) != 1 or not snaps:
        chk.undecided("S9", "component:render:block-layer-before-snapshots", m.loc(f), f"{len(push)} block-layer pushes, {len(snaps)} snapshots")
    else:
        pn = cfg.node_containing(push[0])
        late = [c for c in snaps if not any(cfg.dominates(p_, x, dom) for p_ in pn for x in cfg.node_containing(c))]
        chk.ob("S9", "component:render:block-layer-before-snapshots", m.loc(late[0]) if late else m.loc(push[0]), not late,
               f"the render_context push dominates all {len(snaps)} snapshot_context() calls of the render" if not late else
               f"`{short(late[0])}` is taken before the render's block layer is pushed: the outer-context snapshot used by isolated-mode fills lacks that layer, so a {{% block %}} inside a fill of a nested extends-based component shows the parent's content instead of the override")
    cm, cf = proj.func("context", "_copy_forloop_context")
    chk.analysed(f"{cm.name}:{cf.name}")
    src = params(cf)[0]
    subs = [x for x in ast.walk(cf) if isinstance(x, ast.Subscript) and norm(x.value) == f"{src}.dicts" and not isinstance(x.slice, ast.Slice) and isinstance(x.ctx, ast.Load)]
    okl = False
    why = "no layer subscript found"
    for x in subs:
        idx = x.slice
        d = [v for _s, v in assignments(cf, idx.id)] if isinstance(idx, ast.Name) else [idx]
        okl = any(v is not None and any(isinstance(c, ast.Call) and last_attr(c.func) in ("get_last_index", "get_index") for c in ast.walk(v)) and "'forloop' in" in norm(v) for v in d)
        why = f"index `{norm(idx)}`"
    chk.ob("S9", "context:_copy_forloop_context:layer-found-by-key", cm.loc(subs[0]) if subs else cm.loc(cf), okl if subs else None,
           "the forwarded layer is the last one that contains `forloop`" if okl else
           f"the forwarded loop layer is chosen by position ({why}), not by the `forloop` key: {{% block %}}, {{{{ block.super }}}}, {{% include %}} and {{% with %}} push their own layer above the loop's, so an isolated component reached through them loses `forloop` and the loop variable")
    gm, gf = proj.func("component", "Component._get_template")
    chk.analysed(f"{gm.name}:{gf.name}")
    n = 0
    for c in [c for c in calls(gf) if kwarg(c, "origin") is not None and kwarg(c, "name") is not None]:
        org = kwarg(c, "origin")
        if isinstance(org, ast.Call) and kwarg(org, "template_name") is not None:
            n += 1
            a, b = norm(kwarg(c, "name")), norm(kwarg(org, "template_name"))
            chk.ob("S9", "component:_get_template:origin-template_name-is-the-template-name", gm.loc(org), a == b,
                   f"Origin.template_name == name == `{a}`" if a == b else
                   f"the Template is named `{a}` but its Origin.template_name is `{b}`: Django resolves './x.html' / '../x.html' in {{% extends %}} and {{% include %}} against origin.template_name, so a component whose template_file lives in a sub-directory picks up a same-named template elsewhere or raises TemplateDoesNotExist")
    chk.floor("S9", n, 1)


def s7(chk: Check, proj: Project) -> None:
    chk.rule("S7", "block state reaches components: the isolated copy shares the caller's render_context object, and the layer pushed around a component render inherits the current BlockContext")
    m, f = proj.func("context", "make_isolated_context_copy")
    fresh = next((x.targets[0].id for x in body_walk(f) if isinstance(x, ast.Assign) and isinstance(x.value, ast.Call) and isinstance(x.value.func, ast.Attribute) and x.value.func.attr == "new" and isinstance(x.targets[0], ast.Name)), None)
    src = params(f)[0]
    ok = any(isinstance(st, ast.Assign) and norm(st.targets[0]) == f"{fresh}.render_context" and norm(st.value) == f"{src}.render_context" for st in stmts(f))
    chk.ob("S7", "context:make_isolated_context_copy:shares-render_context", m.loc(f), ok,
           "the isolated copy uses the caller's render_context object (Context.new() alone only copies it)" if ok else
           "the isolated copy no longer shares the caller's render_context: the block layer pushed for the component is missing from the outer context, so a {% block %} inside a fill loses the child template's override in isolated mode")
    r = proj.try_func("component", "Component._render_with_id") or proj.try_func("component", "Component._render_impl")
    mm, ff = r  # type: ignore[misc]
    ps = [c for c in calls(ff, "push") if norm(c.func.value).endswith(".render_context") and c.args and isinstance(c.args[0], ast.Dict)]  # type: ignore[union-attr]
    okp = False
    for c in ps:
        for k, v in zip(c.args[0].keys, c.args[0].values):
            if k is not None and norm(k) == "BLOCK_CONTEXT_KEY":
                okp = isinstance(v, ast.Call) and isinstance(v.func, ast.Attribute) and v.func.attr == "get" and norm(v.func.value).endswith(".render_context") and v.args and norm(v.args[0]) == "BLOCK_CONTEXT_KEY"
    chk.ob("S7", "component:render:pushed-layer-inherits-block-context", mm.loc(ps[0]) if ps else mm.loc(ff), okp if ps else None,
           "the pushed render-context layer carries the CURRENT BlockContext (render_context.get(BLOCK_CONTEXT_KEY, ...))" if okp else
           "the layer pushed around the component render starts from a fresh BlockContext instead of the current one: a component that relays its slot no longer knows the page's blocks, so {% block %} overrides inside fills are lost")


def _upstream() -> Tuple[Dict[str, ast.FunctionDef], str, str]:
    spec = importlib.util.find_spec("django")
    if spec is None or spec.origin is None:
        raise AnalysisError("installed Django not found")
    path = os.path.join(os.path.dirname(spec.origin), "template", "base.py")
    with open(path) as f:
        src = f.read()
    tree = ast.parse(src)
    from ..source import _canonicalise

    _canonicalise(tree)
    ver = ""
    try:
        with open(os.path.join(os.path.dirname(spec.origin), "__init__.py")) as f:
            for line in f:
                if line.startswith("VERSION"):
                    ver = line.strip()
    except OSError:
        pass
    for c in tree.body:
        if isinstance(c, ast.ClassDef) and c.name == "Template":
            return {f.name: f for f in c.body if isinstance(f, ast.FunctionDef)}, path, ver
    raise AnalysisError("django.template.base.Template not found")


def _flat(f: ast.FunctionDef) -> List[Tuple[str, ast.AST]]:
    """Pre-order list of statement headers (compound statements contribute their header, then their blocks).
    Local variables are replaced by the wildcard `_L` so that renaming a local is not a difference."""
    out: List[Tuple[str, ast.AST]] = []
    a = f.args
    pnames = {x.arg for x in a.posonlyargs + a.args + a.kwonlyargs} | ({a.vararg.arg} if a.vararg else set()) | ({a.kwarg.arg} if a.kwarg else set())
    locs = {n.id for n in ast.walk(f) if isinstance(n, ast.Name) and isinstance(n.ctx, ast.Store)} - pnames
    for h in ast.walk(f):
        if isinstance(h, ast.ExceptHandler) and h.name:
            locs.add(h.name)

    def nz(node: ast.AST) -> str:
        c = copy.deepcopy(node)
        for n in ast.walk(c):
            if isinstance(n, ast.Name) and n.id in locs:
                n.id = "_L"
        return norm(c)

    def hdr(st: ast.stmt) -> None:
        if isinstance(st, ast.Expr) and isinstance(st.value, ast.Constant) and isinstance(st.value.value, str):
            return  # docstring
        if isinstance(st, ast.If):
            out.append((f"if {nz(st.test)}", st))
            for s in st.body:
                hdr(s)
            if st.orelse:
                out.append(("else", st))
                for s in st.orelse:
                    hdr(s)
        elif isinstance(st, ast.With):
            out.append(("with " + ", ".join(nz(i.context_expr) for i in st.items), st))
            for s in st.body:
                hdr(s)
        elif isinstance(st, ast.Try):
            out.append(("try", st))
            for s in st.body:
                hdr(s)
            for h in st.handlers:
                out.append((f"except {norm(h.type) if h.type else ''} as _L", h))
                for s in h.body:
                    hdr(s)
            for s in st.finalbody:
                hdr(s)
        else:
            out.append((nz(st), st))

    for s in f.body:
        hdr(s)
    return out


def _explained(kind: str, ups: List[str], ours: List[str]) -> Optional[str]:
    if kind == "compile_nodelist":
        if ours == ["_L = parse_template(self.source)"] and all(x in ("else", "if self.engine.debug", "_L = DebugLexer(self.source)", "_L = Lexer(self.source)", "_L = _L.tokenize()") for x in ups) and "_L = _L.tokenize()" in ups:
            return "lexer selection replaced by parse_template(self.source)"
        if ups == ["self.extra_data = _L.extra_data"] and ours == ["self.extra_data = getattr(_L, 'extra_data', {})"]:
            return "tolerant getattr for Django < 5.1"
        if not ups and ours == ["self.extra_data = getattr(_L, 'extra_data', {})"]:
            return "extra_data added for Django >= 5.1 compatibility"
    if kind == "render":
        # (modules are loaded in canonical form: `if not C: A else: B` is seen as `if C: B else: A`)
        flag = ("if hasattr(self, '_djc_is_component_nested')", "if not hasattr(self, '_djc_is_component_nested')", "else", "_L = True", "_L = not self._djc_is_component_nested")
        if not ups and ours and all(x in flag for x in ours) and ours[0] in flag[:2]:
            return "computation of isolated_context from the component-nesting flag"
        if ups == ["with context.render_context.push_state(self)"] and ours == ["with context.render_context.push_state(self, isolated_context=_L)"]:
            return "push_state parametrised with isolated_context"
        if ups == ["return self._render(context)"] and ours == ["return self._render(context, *args, **kwargs)"]:
            return "argument pass-through"
        if ups and ours and ups[-1] == "with context.render_context.push_state(self)" and ours[-1] == "with context.render_context.push_state(self, isolated_context=_L)":
            return _explained(kind, ups[:-1], ours[:-1]) if (ups[:-1] or ours[:-1]) else "push_state parametrised"
    return None


def s1(chk: Check, proj: Project) -> None:
    chk.rule("S1", "the patched Template.compile_nodelist / Template.render differ from the installed Django's methods only by the reviewed deltas")
    up, path, ver = _upstream()
    chk.extra["django_source"] = path
    chk.extra["django_version"] = ver
    m = proj.mod("util.django_monkeypatch")
    pairs = (("compile_nodelist", "monkeypatch_template_compile_nodelist._compile_nodelist"), ("render", "monkeypatch_template_render._template_render"))
    for uname, q in pairs:
        f = m.func(q)
        chk.analysed(fkey(m, f))
        if uname not in up:
            raise AnalysisError(f"upstream Template.{uname} not found")
        a = [t for t, _n in _flat(up[uname])]
        b = [t for t, _n in _flat(f)]
        bn = [n for _t, n in _flat(f)]
        sm = difflib.SequenceMatcher(a=a, b=b, autojunk=False)
        deltas = 0
        for tag, i1, i2, j1, j2 in sm.get_opcodes():
            if tag == "equal":
                continue
            deltas += 1
            ups, ours = a[i1:i2], b[j1:j2]
            why = _explained(uname, ups, ours)
            where = m.loc(bn[j1]) if j1 < len(bn) else m.loc(f)
            key = f"util.django_monkeypatch:{uname}:delta:{short(' ; '.join(ours) or '(deleted) ' + ' ; '.join(ups), 70)}"
            if why:
                chk.holds("S1", key, where, f"reviewed delta: {why}", detail={"upstream": ups, "patched": ours})
            else:
                chk.violated("S1", key, where, f"the patched Template.{uname} differs from the installed Django in an unreviewed way: upstream {ups or '(nothing)'} vs patched {ours or '(nothing)'}: templates that do not use components no longer behave like stock Django", detail={"upstream": ups, "patched": ours})
        eq = sum(i2 - i1 for tag, i1, i2, j1, j2 in sm.get_opcodes() if tag == "equal")
        chk.ob("S1", f"util.django_monkeypatch:{uname}:common-skeleton", m.loc(f), eq >= 3, f"{eq} statements identical to upstream, {deltas} reviewed delta block(s)")
        # signature: upstream params are a prefix of ours
        pu, po = params(up[uname]), params(f)
        chk.ob("S1", f"util.django_monkeypatch:{uname}:signature", m.loc(f), po[: len(pu)] == pu, f"parameters {po} extend upstream {pu}")
    # the patched functions are installed on the class under the upstream names
    for fn, attr, val in (("monkeypatch_template_compile_nodelist", "compile_nodelist", "_compile_nodelist"), ("monkeypatch_template_render", "render", "_template_render")):
        f = m.func(fn)
        ok = any(isinstance(s, ast.Assign) and norm(s.targets[0]) == f"{params(f)[0]}.{attr}" and norm(s.value) == val for s in stmts(f))
        chk.ob("S1", f"util.django_monkeypatch:{fn}:installs", m.loc(f), ok, f"{attr} := {val}")


def s2(chk: Check, proj: Project) -> None:
    chk.rule("S2", "isolated_context is True whenever the template has no `_djc_is_component_nested`; the flag is stored only on templates the library owns")
    m = proj.mod("util.django_monkeypatch")
    f = m.func("monkeypatch_template_render._template_render")
    ps_ = [c for c in calls(f, "push_state")]
    icv = norm(kwarg(ps_[0], "isolated_context")) if ps_ and kwarg(ps_[0], "isolated_context") is not None else "isolated_context"
    a = assignments(f, icv)
    ok = False
    for s, v in a:
        at = cond_atoms(s)
        if any(pol and t == "not hasattr(self, '_djc_is_component_nested')" for t, pol in at) or any((not pol) and t == "hasattr(self, '_djc_is_component_nested')" for t, pol in at):
            ok = isinstance(v, ast.Constant) and v.value is True
    chk.ob("S2", "util.django_monkeypatch:_template_render:stock-templates-isolated", m.loc(a[0][0]) if a else m.loc(f), ok, "without the flag isolated_context = True (stock behaviour)" if ok else "a template without the component-nesting flag does not get isolated_context=True: stock {% extends %}/{% block %} state leaks between renders")
    other = [v for s, v in a if not (isinstance(v, ast.Constant) and v.value is True)]
    ok2 = len(other) == 1 and norm(other[0]) == "not self._djc_is_component_nested"
    chk.ob("S2", "util.django_monkeypatch:_template_render:flag-negated", m.loc(f), ok2, "with the flag: isolated_context = not flag")
    stores = []
    for mm, q, fn in proj.all_funcs():
        for s in stmts(fn):
            if isinstance(s, ast.Assign) and any(isinstance(t, ast.Attribute) and t.attr == "_djc_is_component_nested" for t in s.targets):
                stores.append((mm, q, s))
    okq = {q for _m, q, _s in stores} <= {"_prepare_template", "_nodelist_to_slot_render_func"} and len(stores) >= 2
    chk.ob("S2", "flag-writers", stores[0][0].loc(stores[0][2]) if stores else m.loc(f), okq, f"`_djc_is_component_nested` is written only in {sorted({q for _m, q, _s in stores})}" if okq else f"`_djc_is_component_nested` is written in {sorted({q for _m, q, _s in stores})}: templates the library does not own lose isolated_context")
    # the flag's value: "is there a BlockContext to inherit" - presence, not content. Every component render pushes a BlockContext
    # (C10-S9), so the component's template must always join the current layer; an EMPTY inherited BlockContext is still the
    # one the template's own {% extends %} chain has to register its blocks in
    for _m, q, s_ in stores:
        if q != "_prepare_template":
            continue
        v_ = s_.value
        deps = {x.attr for x in ast.walk(v_) if isinstance(x, ast.Attribute)} | {x.id for x in ast.walk(v_) if isinstance(x, ast.Name)}
        for _s2, v2 in [(a_, b_) for n_ in list(deps) for a_, b_ in assignments(_m.func("_prepare_template"), n_)]:
            if v2 is not None:
                deps |= {x.attr for x in ast.walk(v2) if isinstance(x, ast.Attribute)} | {x.id for x in ast.walk(v2) if isinstance(x, ast.Name)}
        presence = "BLOCK_CONTEXT_KEY" in deps and "render_context" in deps
        content = sorted(deps & {"blocks", "get_block", "__len__", "len"})
        okv = (isinstance(v_, ast.Constant) and v_.value is True) or (presence and not content)
        chk.ob("S2", "component:_prepare_template:flag-means-block-context-present", _m.loc(s_), okv if (presence or isinstance(v_, ast.Constant)) else None,
               "the flag is true whenever the render context carries a BlockContext (always, for a component render)" if okv else
               f"`{short(s_)}` makes the flag depend on the CONTENT of the inherited BlockContext ({', '.join(content)}): outside an {{% extends %}} page it is empty, the component template then renders in an extra isolated layer, its own extends chain registers its blocks there, and SlotNode re-pushes the layer below - a {{% block %}} inside a slot default of a three-level component family prints the middle template's content instead of the leaf's override")
    # ownership: the flag stays on the object; an object the template LOADER hands out is the same one stock code renders
    cm = proj.mod("component")
    gt = cm.func("Component._get_template")
    chk.analysed(fkey(cm, gt))
    shared = []
    for r in [x for x in ast.walk(gt) if isinstance(x, ast.Return) and x.value is not None]:
        for c in [c for c in ast.walk(r.value) if isinstance(c, ast.Call)]:
            src = cm.imports.get(last_attr(c.func) or "")
            if last_attr(c.func) == "get_template" and src is not None and src[0].startswith("django.template"):
                shared.append(r)
    resets = [s_ for _m, q, s_ in stores if q == "_prepare_template" and isinstance(s_.value, ast.Constant) and s_.value.value is False] + [c for mm, q, fn in proj.all_funcs() for c in calls(fn) if norm(c.func) == "delattr" and len(c.args) == 2 and isinstance(c.args[1], ast.Constant) and c.args[1].value == "_djc_is_component_nested"]
    okown = not shared or bool(resets)
    chk.ob("S2", "component:_prepare_template:flag-on-loader-shared-template", cm.loc(shared[0]) if shared else cm.loc(gt), okown,
           "every Template the flag is stored on was created by the library for this purpose (or the flag is taken back after the render)" if okown else
           f"`{short(shared[0])}` hands _prepare_template the Template object of Django's template loader; with the cached loader (the default outside DEBUG) that very object also serves stock `{{% include %}}` / get_template() of the same file, and the flag stored on it is never taken back: after the component has rendered once, a stock include of that file renders with isolated_context=False and its {{% block %}}s pick up the including page's BlockContext")


def s3(chk: Check, proj: Project) -> None:
    chk.rule("S3", "stock token stream: hand-over exactly for BLOCK tokens containing a quote; quoted strings treat backslash + any character as a pair (as Django's smart_split does)")
    sub = Check(chk.pid, chk.tier, chk.seed, quiet=True)
    m, f = proj.func("util.template_parser", "parse_template")
    C09.s4(sub, proj, m, f)
    C09.s5(sub, proj)
    for o in sub.obls:
        if o.rule.endswith(("S4", "S5")):
            chk.obls.append(type(o)(f"{chk.pid}-S3", o.construct, o.loc, o.verdict, o.message, o.nontrivial, o.detail))
    chk.errors.extend(sub.errors)


def s4(chk: Check, proj: Project) -> None:
    chk.rule("S4", "every store to an attribute of a Django class / module is a reviewed patch point")
    n = 0
    for m, q, f in proj.all_funcs():
        if "management" in m.name:
            continue
        for s in stmts(f):
            tgts = s.targets if isinstance(s, ast.Assign) else [s.target] if isinstance(s, (ast.AugAssign, ast.AnnAssign)) else []
            for t in tgts:
                if not isinstance(t, ast.Attribute) or not isinstance(t.value, ast.Name):
                    continue
                root = t.value.id
                is_django = False
                r = proj.resolve(m, root)
                if r and r[0] == "external" and str(r[1]).startswith("django"):
                    is_django = True
                if root in params(f) and root in ("template_cls",):
                    is_django = True
                # local import inside the function: `from django.template import base`
                for imp in [x for x in ast.walk(f) if isinstance(x, ast.ImportFrom) and (x.module or "").startswith("django")]:
                    if any((a.asname or a.name) == root for a in imp.names):
                        is_django = True
                if not is_django:
                    continue
                n += 1
                key = (m.name.replace("django_components.", ""), q, t.attr)
                why = PATCH_POINTS.get(key)
                if why:
                    chk.holds("S4", f"{key[0]}:{q}:{root}.{t.attr}", m.loc(s), f"reviewed patch point: {why}", nontrivial=False)
                else:
                    chk.violated("S4", f"{key[0]}:{q}:{root}.{t.attr}", m.loc(s), f"`{short(s)}` changes Django's `{root}.{t.attr}` -- a new monkey patch: templates that do not use components can behave differently from stock Django")
        for c in calls(f, "setattr"):
            if c.args and isinstance(c.args[0], ast.Name):
                r = proj.resolve(m, c.args[0].id)
                if (r and r[0] == "external" and str(r[1]).startswith("django")) or c.args[0].id == "template_cls":
                    n += 1
                    chk.violated("S4", f"{m.name}:{q}:{short(c, 50)}", m.loc(c), f"`{short(c)}` sets an attribute on a Django object")
    chk.floor("S4", n, 4)
    am, af = proj.func("apps", "ComponentsConfig.ready")
    tr = [s for s in stmts(af) if isinstance(s, ast.Assign) and norm(s.targets[0]).endswith(".tag_re")]
    ok = bool(tr) and any(pol and "MULTILINE_TAGS" in t for t, pol in cond_atoms(tr[0]))
    chk.ob("S4", "apps:ready:tag_re-only-if-multiline", am.loc(tr[0]) if tr else am.loc(af), ok, "tag_re is recompiled only when MULTILINE_TAGS is on" if ok else "Django's tag_re is recompiled unconditionally")


def s5(chk: Check, proj: Project) -> None:
    chk.rule("S5", "snapshot_context copies block_context / extends_context of every render-context layer it has not copied before (own loop variables only)")
    sub = Check(chk.pid, chk.tier, chk.seed, quiet=True)
    C03.s6(sub, proj, None)
    for o in sub.obls:
        if "snapshot_context" in o.construct:
            chk.obls.append(type(o)(f"{chk.pid}-S5", o.construct, o.loc, o.verdict, o.message, o.nontrivial, o.detail))
    chk.errors.extend(sub.errors)
    m, f = proj.func("util.context", "snapshot_context")
    loops = [x for x in f.body if isinstance(x, ast.For)]
    if len(loops) == 2:
        lp = loops[1]
        txt = norm(lp)
        ok = "_copy_block_context(" in txt and "['extends_context'].copy()" in txt
        chk.ob("S5", "util.context:snapshot_context:copies-block-and-extends", m.loc(lp), ok, "block_context is copied per layer with _copy_block_context and extends_context with .copy()" if ok else "the render-context layers are not deep enough copied (block_context / extends_context shared)")
    # the snapshot has every layer of the original: when the walk stops at a layer that is already a copy, the reused prefix
    # INCLUDES that layer (it was not added by the loop before the break)
    n_re = 0
    for lp in [x for x in f.body if isinstance(x, ast.For)]:
        idxv = norm(lp.target) if isinstance(lp.target, ast.Name) else None
        layer_vars = {norm(t) for st0 in lp.body if isinstance(st0, ast.Assign) and idxv is not None and isinstance(st0.value, ast.Subscript) and norm(st0.value.slice) == idxv for t in st0.targets}
        for st in [x for x in ast.walk(lp) if isinstance(x, ast.Assign) and isinstance(x.value, ast.BinOp) and isinstance(x.value.op, ast.Add)]:
            parts = []
            todo_ = [st.value]
            while todo_:
                e_ = todo_.pop(0)
                if isinstance(e_, ast.BinOp) and isinstance(e_.op, ast.Add):
                    todo_ = [e_.left, e_.right] + todo_
                else:
                    parts.append(e_)
            sl = [p_ for p_ in parts if isinstance(p_, ast.Subscript) and isinstance(p_.slice, ast.Slice) and norm(p_.value).endswith(".dicts")]
            if len(sl) != 1:
                continue
            n_re += 1
            up = sl[0].slice.upper
            extra = [p_ for p_ in parts if isinstance(p_, ast.List) and len(p_.elts) == 1 and any(isinstance(y, ast.Name) and y.id in layer_vars for y in ast.walk(p_))]
            incl = up is not None and idxv is not None and norm(up) in (f"{idxv} + 1", f"1 + {idxv}") and not extra
            recopied = up is not None and idxv is not None and norm(up) == idxv and len(extra) == 1
            okr = (incl or recopied) and sl[0].slice.lower is None
            what = "render-context" if "render_context" in norm(sl[0].value) else "context"
            chk.ob("S5", f"util.context:snapshot_context:{what}-reuse-includes-the-copied-layer", m.loc(st), okr,
                   (f"the reused prefix is `{norm(sl[0])}`: every layer up to and including the already copied one" if incl else f"`{norm(sl[0])}` plus a fresh copy of the layer the walk stopped at") if okr else
                   f"`{short(st)}` reuses `{norm(sl[0])}`: the layer the walk stopped at (already a copy, so the loop adds nothing for it) is left out - the snapshot of a nested component lacks the parent component's {what} layer (its BlockContext), and a {{% block %}} the child template overrides inside a nested component's fill renders the base content on an {{% extends %}} page")
    chk.floor("S5-reuse", n_re, 2)
    bm, bf = proj.func("util.context", "_copy_block_context")
    okb = any(isinstance(s, ast.Assign) and ".blocks[" in norm(s.targets[0]) and norm(s.value).endswith(".copy()") for s in stmts(bf))
    chk.ob("S5", "util.context:_copy_block_context:copies-lists", bm.loc(bf), okb, "each block list is copied")


def s6(chk: Check, proj: Project) -> None:
    chk.rule("S6", "SlotNode.render re-pushes the enclosing block layer around EVERY slot render; which layer is chosen depends only on the render context")
    m, f = proj.func("slots", "SlotNode.render")
    chk.analysed(fkey(m, f))
    sc = [c for c in calls(f) if isinstance(c.func, ast.Attribute) and c.func.attr == "slot" and len(c.args) >= 2]
    if not sc:
        raise AnalysisError("SlotNode.render: slot call vanished")
    used = norm(sc[0].args[0])
    w_ = [a for a in ancestors(sc[0]) if isinstance(a, ast.With) and any(isinstance(it.context_expr, ast.Call) and norm(it.context_expr.func) == f"{used}.render_context.push" for it in a.items)]
    ok = bool(w_)
    layer = norm(w_[0].items[0].context_expr.args[0]) if ok and w_[0].items[0].context_expr.args else None  # type: ignore[union-attr]
    chk.ob("S6", "slots:SlotNode.render:block-layer-repushed", m.loc(w_[0]) if w_ else m.loc(sc[0]), ok, f"the slot is rendered inside `with {used}.render_context.push({layer})`" if ok else "the slot content is rendered without re-pushing the block layer")
    if layer:
        defs = assignments(f, layer)
        bad = None
        allowed = {used.split(".")[0], "len"}
        changed = True
        while changed:  # locals derived only from the used context are about the render context too
            changed = False
            for x in body_walk(f):
                if isinstance(x, ast.Assign) and len(x.targets) == 1 and isinstance(x.targets[0], ast.Name) and x.targets[0].id not in allowed:
                    rn = {y.id for y in ast.walk(x.value) if isinstance(y, ast.Name)}
                    if rn and rn <= allowed and len(assignments(f, x.targets[0].id)) == 1:
                        allowed.add(x.targets[0].id)
                        changed = True
        for s, _v in defs:
            # only the tests that ENCLOSE the assignment decide which layer is taken
            for a in ancestors(s):
                if a is f:
                    break
                if isinstance(a, ast.If):
                    t = norm(a.test)
                    names = {x.id for x in ast.walk(a.test) if isinstance(x, ast.Name)}
                    if not names <= allowed:
                        bad = bad or (s, t)
        chk.ob("S6", "slots:SlotNode.render:layer-choice-independent-of-fill", m.loc(defs[0][0]) if defs else m.loc(f), bad is None and bool(defs),
               "the re-pushed layer is chosen from the render context alone" if bad is None else
               f"`{short(bad[0])}` chooses the block layer depending on `{bad[1]}`: for default (unfilled) slot content the enclosing {{% extends %}} layer is not re-pushed, so a component in the default content renders the enclosing component's block instead of its own")


MANIFEST = {
    "text": "Diffs the two monkey-patched Template methods against the source of the INSTALLED Django (parsed with ast, never imported) and requires every difference to be one of the reviewed deltas; decides that templates without the component flag keep isolated_context=True and who may set the flag; enumerates every store to a Django object (patch points); shares the token-stream identity and escape-pair rules with C09; requires per-layer copying of block/extends contexts and an unconditional re-push of the block layer around slot renders. Also: block state reaches components (shared render_context, inherited BlockContext), the render's block layer exists before any snapshot, the loop layer handed to an isolated component is found by key, and Origin.template_name equals the name the template was compiled under. Round 4: the render_context layer of a component render is popped on every normal path of that call (shared with C03-S3). Round 5: the library's Node classes keep their bodies visible to Node.get_nodes_by_type (child_nodelists, against the installed Django's Node); the nesting flag is stored only on Templates the library owns - known finding F44 (loader-shared Template). Round 6: the nesting flag means 'a BlockContext is present', never its content. Round 7: line numbers of relexed segments (shared with C09-S1..S3); the reused prefix of a snapshot includes the already copied layer.",
    "note": "Trusted: the Django source located through importlib is the Django that runs. Not decided: byte-identical output of stock templates as behaviour; the inlining clause for extends/block/include with components (run-time RenderContext state).",
    "technique": "static translation diff against upstream source (normalised statement alignment), control dependence, patch-point inventory",
}
