"""C11 — a tag accepts its arguments exactly when the Python call would (DESIGN.md section 3, C11).

S1 sibling agreement: the fast (__code__) and the fallback (Signature) validator perform the same sequence of checks
   and bindings, phase by phase, at the same conditional depth.
S2 parameter-kind exhaustiveness: both validators treat positional-only parameters separately from
   positional-or-keyword ones (a) when recording names for duplicate-keyword detection and (b) when materialising
   defaults.
S3 error surface: every raise in the validators is TypeError; the wrapper adds SyntaxError only for a positional
   argument after a special keyword.
S4 no re-binding after validation: render is called with exactly what validate_params returned.
S5 keyword names that are not identifiers are collected with duplicate detection, and flow only into extra kwargs.
S6 spreads: a resolved value is spread as keywords iff it is a Mapping (ABC), as positionals iff Iterable.
S7 no memo across calls: defaults are read from the function object on every validation.
"""
from __future__ import annotations

import ast
import re
from typing import Dict, List, Optional, Set, Tuple

from ..astq import assignments, calls, kwarg, local_from, local_from_text, params, stmts
from ..callgraph import fkey
from ..cfg import cond_atoms, flatten_conj, path_conditions
from ..report import Check
from ..source import AnalysisError, Project, ancestors, body_walk, dotted, enclosing_stmt, last_attr, norm, parent, short
from ..state import inventory


def run(chk: Check, proj: Project) -> None:
    chk.explanation = (
        "Cross-checking of the two sibling validators (event sequences per phase), a dataflow requirement that both "
        "consult the positional-only boundary at the two decision points where binding differs, raise classification, "
        "single reaching definition of the arguments handed to render, duplicate detection for non-identifier keys, "
        "the ABC used to recognise mappings, and freshness of defaults."
    )
    chk.not_decided = ["equivalence with CPython's binding algorithm over the product of signatures and call shapes (an enumeration)"]
    chk.trusted_base = ["the final `render(self, context, *args, **kwargs)` call is bound by CPython itself"]
    m = proj.mod("util.template_tag")
    fc = m.func("_validate_params_with_code")
    fs = m.func("_validate_params_with_signature")
    chk.analysed(fkey(m, fc), fkey(m, fs))
    s1(chk, m, fc, fs)
    s2(chk, m, fc, fs)
    s3(chk, proj, m, fc, fs)
    s4_s5(chk, proj)
    s6(chk, proj, m)
    s7(chk, proj, m, fc)
    s8(chk, proj, m, fc)
    s9(chk, proj, m, fc, fs)
    s10(chk, proj, m)
    s11_keyword_means_key_is_not_none(chk, proj)
    s12_dispatch_by_the_render_function(chk, proj, m)


def s10(chk: Check, proj: Project, m) -> None:
    chk.rule("S10", "what is validated is what is called: the keys of a spread mapping reach the binding unchanged (Python's own `**` judges a non-string key), and the callable whose signature is inspected is the callable that is invoked (no unwrapping of decorators)")
    f = m.func("resolve_params")
    chk.analysed(fkey(m, f))
    n = 0
    for lp in [x for x in ast.walk(f) if isinstance(x, ast.For) and isinstance(x.iter, ast.Call) and isinstance(x.iter.func, ast.Attribute) and x.iter.func.attr == "items" and isinstance(x.target, ast.Tuple)]:
        kv = norm(lp.target.elts[0])
        for c in [c for c in ast.walk(lp) if isinstance(c, ast.Call) and last_attr(c.func) == "TagParam"]:
            karg = kwarg(c, "key") or (c.args[0] if c.args else None)
            n += 1
            ok = karg is not None and norm(karg) == kv and not any(st for st, _v in assignments(f, kv) if any(a is lp for a in ancestors(st)))
            chk.ob("S10", "util.template_tag:resolve_params:spread-keys-unchanged", m.loc(c), ok,
                   f"TagParam(key={kv}, ...) forwards the mapping's key as it is" if ok else
                   f"`{short(c)}` converts the key of a spread mapping: `...{{1: 2}}` calls render with the keyword '1' (Python's render(**{{1: 2}}) raises 'keywords must be strings'), and any object whose str() equals a parameter name binds that parameter")
    chk.floor("S10", n, 1)
    v = m.func("validate_params")
    chk.analysed(fkey(m, v))
    fp = params(v)[0]
    bad = [st for st, _v in assignments(v, fp)] + [x for fn in (v, m.func("_validate_params_with_code"), m.func("_validate_params_with_signature")) for x in ast.walk(fn)
                                                  if (isinstance(x, ast.Attribute) and x.attr in ("unwrap", "__wrapped__")) or (isinstance(x, ast.keyword) and x.arg == "follow_wrapped" and not (isinstance(x.value, ast.Constant) and x.value.value is False))]
    chk.ob("S10", "util.template_tag:validate_params:inspects-the-callable-it-is-given", m.loc(bad[0]) if bad and hasattr(bad[0], "lineno") else m.loc(v), not bad,
           f"`{fp}` is inspected as given (wrapper_render calls the same object)" if not bad else
           f"`{short(bad[0] if isinstance(bad[0], ast.stmt) else enclosing_stmt(bad[0]))}`: the validator reads the signature / defaults of the UNDECORATED function while wrapper_render calls the decorated one - a functools.wraps decorator that injects or consumes an argument makes valid calls fail ('missing a required argument') and the inner default silently overrides the decorator's")


def s9(chk: Check, proj: Project, m, fc, fs) -> None:
    chk.rule("S9", "boundaries: a positional argument is mapped to a parameter NAME only while its index is strictly below the number of named positional parameters (the slot after them is *args); the set a keyword is looked up in and the set whose complement goes to **kwargs are the same set (a name in neither is wrongly rejected)")
    n = 0
    for f in (fc, fs):
        curs = {x.target.id for x in ast.walk(f) if isinstance(x, ast.AugAssign) and isinstance(x.op, ast.Add) and isinstance(x.target, ast.Name) and isinstance(x.value, ast.Constant) and x.value.value == 1}
        for iff in [x for x in ast.walk(f) if isinstance(x, ast.If)]:
            t = iff.test
            if not (isinstance(t, ast.Compare) and len(t.ops) == 1 and isinstance(t.left, ast.Name) and t.left.id in curs and isinstance(t.comparators[0], ast.Name)):
                continue
            # the guarded block indexes a name list with the cursor
            idx = [sub for sub in ast.walk(iff) if isinstance(sub, ast.Subscript) and isinstance(sub.slice, ast.Name) and sub.slice.id == t.left.id and any(sub is y for st in iff.body for y in ast.walk(st))]
            if not idx:
                continue
            n += 1
            ok = isinstance(t.ops[0], ast.Lt)
            chk.ob("S9", f"util.template_tag:{f.name}:positional-name-guard-strict", m.loc(iff), ok,
                   f"`{norm(t)}` (strict) guards `{norm(idx[0])}`" if ok else
                   f"`{norm(t)}` lets the index reach the count: the first positional that overflows into *args is mapped to the *args parameter's own name and marks it used, so `{{% tag 1 2 args=3 %}}` raises 'multiple values' where Python binds kwargs={{'args': 3}}")
            # the bound itself: in the signature-based validator it is computed from parameter kinds, and Python binds
            # BOTH positional-only and positional-or-keyword parameters by position
            if f is fs:
                bound = t.comparators[0].id
                kinds: Set[str] = set()
                for st, v in assignments(f, bound):
                    srcs = [e for e, pol in flatten_conj(path_conditions(st)) if pol] + ([v] if v is not None else [])
                    for e in srcs:
                        kinds |= {x.attr for x in ast.walk(e) if isinstance(x, ast.Attribute) and x.attr.isupper() and "Parameter" in norm(x.value)}
                pos = {"POSITIONAL_ONLY", "POSITIONAL_OR_KEYWORD"}
                if not (kinds & pos):
                    chk.undecided("S9", f"util.template_tag:{f.name}:positional-count-covers-both-kinds", m.loc(iff), f"`{bound}` is not computed from inspect.Parameter kinds any more")
                else:
                    okk = pos <= kinds
                    chk.ob("S9", f"util.template_tag:{f.name}:positional-count-covers-both-kinds", m.loc(assignments(f, bound)[-1][0]), okk,
                           f"`{bound}` counts POSITIONAL_ONLY and POSITIONAL_OR_KEYWORD parameters" if okk else
                           f"`{bound}` counts only {sorted(kinds & pos)} parameters: for a render without __code__ (callable object, so the signature-based validator runs) whose signature has the other positional kind - `render(a, /)` - the tag `{{% tag 1 %}}` is refused with 'takes 0 positional arguments' although the Python call binds a=1")
    chk.floor("S9", n, 1)
    # complement consistency in the fast path
    hit = 0
    for b in [x for x in ast.walk(fc) if isinstance(x, ast.BoolOp) and isinstance(x.op, ast.Or) and len(x.values) == 2]:
        a, c = b.values
        inn = a if isinstance(a, ast.Compare) and isinstance(a.ops[0], ast.In) else None
        neg = next((v for v in (c.values if isinstance(c, ast.BoolOp) else [c]) if isinstance(v, ast.Compare) and isinstance(v.ops[0], ast.NotIn)), None)
        if inn is None or neg is None or norm(inn.left) != norm(neg.left):
            continue
        hit += 1

        def base(e: ast.AST, depth: int = 0):
            """(collection name, lower bound text or None)"""
            if isinstance(e, ast.Name) and depth < 3:
                d = [v for _s, v in assignments(fc, e.id) if v is not None]
                if len(d) == 1 and isinstance(d[0], ast.Subscript) and isinstance(d[0].slice, ast.Slice):
                    return base(d[0], depth + 1)
                return (e.id, None)
            if isinstance(e, ast.Subscript) and isinstance(e.slice, ast.Slice) and isinstance(e.value, ast.Name):
                lo = e.slice.lower
                return (e.value.id, None if lo is None or (isinstance(lo, ast.Constant) and lo.value == 0) else norm(lo))
            return (norm(e), "?")

        s_in, s_not = base(inn.comparators[0]), base(neg.comparators[0])
        ok = s_in[0] == s_not[0] and s_in[1] is None and s_not[1] is None
        chk.ob("S9", "util.template_tag:_validate_params_with_code:kwarg-sets-complementary", m.loc(b), ok,
               f"`{norm(inn.comparators[0])}` and `{norm(neg.comparators[0])}` start at the same element of `{s_in[0]}`" if ok else
               f"a keyword is accepted if it is in `{norm(inn.comparators[0])}` or (with **kwargs) NOT in `{norm(neg.comparators[0])}` - the first set starts later than the second: a name that is only in the second (a positional-only parameter's name) is in neither, so `{{% tag 1 a=2 %}}` on `def render(self, context, a, /, **kwargs)` is rejected although Python puts it into **kwargs")
    if hit == 0:
        chk.undecided("S9", "util.template_tag:_validate_params_with_code:kwarg-sets-complementary", m.loc(fc), "`key in S or (has_var_keyword and key not in S')` not found")


def _linear(f: ast.AST, e: ast.AST, stop: Set[str], depth: int = 0) -> Optional[Dict[str, int]]:
    """Linear form {symbol: coefficient, '1': constant} of an integer expression; names with a single definition are
    expanded, names in `stop` (or with several definitions) are symbols; anything non-linear (max(), //, calls) -> None."""
    if depth > 8:
        return None
    if isinstance(e, ast.Constant) and isinstance(e.value, int) and not isinstance(e.value, bool):
        return {"1": e.value}
    if isinstance(e, ast.Name):
        d = [v for _s, v in assignments(f, e.id) if v is not None]
        if e.id in stop or len(d) != 1:
            return {e.id: 1}
        return _linear(f, d[0], stop, depth + 1)
    if isinstance(e, ast.Call) and norm(e.func) == "len" and len(e.args) == 1:
        return {f"len({norm(e.args[0])})": 1}
    if isinstance(e, ast.UnaryOp) and isinstance(e.op, ast.USub):
        a = _linear(f, e.operand, stop, depth + 1)
        return None if a is None else {k: -v for k, v in a.items()}
    if isinstance(e, ast.BinOp) and isinstance(e.op, (ast.Add, ast.Sub)):
        a, b = _linear(f, e.left, stop, depth + 1), _linear(f, e.right, stop, depth + 1)
        if a is None or b is None:
            return None
        sg = 1 if isinstance(e.op, ast.Add) else -1
        out = dict(a)
        for k, v in b.items():
            out[k] = out.get(k, 0) + sg * v
        return {k: v for k, v in out.items() if v != 0}
    return None


def s8(chk: Check, proj: Project, m, fc) -> None:
    chk.rule("S8", "frames agree: the index into __defaults__ counts from the END of the positional parameters (defaults also cover a defaulted `context`); the fallback signature drops the first two parameters BY POSITION like the fast path; the 'already wrapped' marker is read from the render function, not inherited through the class")
    # (a) defaults[<idx>] with idx == i - P + len(defaults)
    subs = [x for x in ast.walk(fc) if isinstance(x, ast.Subscript) and isinstance(x.ctx, ast.Load) and isinstance(x.value, ast.Name) and not isinstance(x.slice, ast.Slice)
            and any(v is not None and "__defaults__" in norm(v) for _s, v in assignments(fc, x.value.id))]
    if not subs:
        chk.undecided("S8", "util.template_tag:_validate_params_with_code:defaults-index-frame", m.loc(fc), "subscript of the __defaults__ tuple not found")
    for x in subs:
        dn = x.value.id
        loopv = next((t.id for lp in ast.walk(fc) if isinstance(lp, ast.For) and any(y is x for y in ast.walk(lp)) for t in ast.walk(lp.target) if isinstance(t, ast.Name)), None)
        P = next((t.id for st in stmts(fc) if isinstance(st, ast.Assign) and isinstance(st.targets[0], ast.Name) and isinstance(st.value, ast.Attribute) and st.value.attr == "co_argcount" for t in st.targets), None)
        if P is None:
            chk.undecided("S8", "util.template_tag:_validate_params_with_code:defaults-index-frame", m.loc(x), "variable holding co_argcount not found")
            continue
        lin = _linear(fc, x.slice, {P, loopv or "i"})
        sliced = any(v is not None and isinstance(v, ast.Subscript) for _s, v in assignments(fc, dn))
        key = "util.template_tag:_validate_params_with_code:defaults-index-frame"
        if sliced:
            chk.undecided("S8", key, m.loc(x), "the defaults tuple is sliced; frame not evaluated")
            continue
        want = {loopv or "i": 1, P: -1, f"len({dn})": 1}
        ok = lin == want
        chk.ob("S8", key, m.loc(x), ok, f"{dn}[{norm(x.slice)}] == {dn}[i - {P} + len({dn})]: counted from the end, so defaults of the skipped `context` parameter are accounted for" if ok else
               f"the index `{norm(x.slice)}` into `{dn}` is " + ("not a linear function of (i, positional_count, len(defaults)) - a clamp such as max(0, ...) is involved" if lin is None else f"{lin}") +
               f": when `context` itself has a default (def render(self, context=None, a='A')) the tuple is longer than the tag's own parameters and every default is taken from one slot too early")
    # (a2) one frame for every count: the tag's arguments are indexed AFTER the skipped receiver / context parameters, so every
    # count of the code object that is compared with such an index went through the skip adjustment first
    raw_attrs = ("co_argcount", "co_posonlyargcount")
    for cmp_ in [x for x in ast.walk(fc) if isinstance(x, ast.Compare)]:
        raws = [y for y in ast.walk(cmp_) if isinstance(y, ast.Attribute) and y.attr in raw_attrs]
        for y in raws:
            chk.violated("S8", f"util.template_tag:_validate_params_with_code:raw-count-in-comparison:{y.attr}", m.loc(cmp_),
                         f"`{short(cmp_)}` compares an index of the TAG's arguments with the raw `{norm(y)}`, which still counts the skipped `self` / `context` parameters: with a `/` in the signature (def render(self, context, a, /, b)) a positionally passed `b` is not recorded as supplied and `{{% tag 1 2 %}}` raises 'missing a required argument', a call Python accepts")
    adj = [st for st in stmts(fc) if isinstance(st, ast.Assign) and isinstance(st.targets[0], ast.Name) and any(isinstance(y, ast.Attribute) and y.attr == "co_posonlyargcount" for y in ast.walk(st.value))]
    # (the subtrahend is whatever the positional count is reduced by: same variable / constant in both adjustments)
    def _subtrahends(attr: str) -> Set[str]:
        out: Set[str] = set()
        names = {attr} | {t.id for st in stmts(fc) if isinstance(st, ast.Assign) and isinstance(st.targets[0], ast.Name) and isinstance(st.value, ast.Attribute) and st.value.attr == attr for t in st.targets}
        for st in stmts(fc):
            if isinstance(st, ast.Assign):
                for b in ast.walk(st.value):
                    if isinstance(b, ast.BinOp) and isinstance(b.op, ast.Sub) and any((isinstance(y, ast.Attribute) and y.attr in names) or (isinstance(y, ast.Name) and y.id in names) for y in ast.walk(b.left)):
                        out.add(norm(b.right))
        return out

    sub_pos, sub_po = _subtrahends("co_argcount"), _subtrahends("co_posonlyargcount")
    okadj = bool(adj) and bool(sub_po) and sub_po <= (sub_pos or sub_po)
    chk.ob("S8", "util.template_tag:_validate_params_with_code:posonly-count-in-tag-frame", m.loc(adj[0]) if adj else m.loc(fc), okadj if adj else None,
           f"`{short(adj[0])}`: the positional-only count is moved into the tag's frame once, where it is defined" if okadj and adj else "the positional-only count is not reduced by the two skipped parameters")
    # (b) fallback signature: positional skip
    nm, nf = proj.func("node", "NodeMeta.__new__")
    chk.analysed(fkey(nm, nf))
    rep = [c for c in calls(nf) if isinstance(c.func, ast.Attribute) and c.func.attr == "replace" and kwarg(c, "parameters") is not None]
    okp = False
    whyp = "signature.replace(parameters=...) not found"
    if rep:
        pv = kwarg(rep[0], "parameters")
        ds = [v for _s, v in assignments(nf, pv.id) if v is not None] if isinstance(pv, ast.Name) else [pv]
        okp = any(isinstance(v, ast.Subscript) and isinstance(v.slice, ast.Slice) and v.slice.lower is not None and norm(v.slice.lower) in ("2", "skip_params") and v.slice.upper is None for v in ds) \
            and not any(isinstance(v, (ast.ListComp, ast.GeneratorExp)) and any(isinstance(y, ast.Attribute) and y.attr == "name" for y in ast.walk(v)) for v in ds)
        whyp = f"parameters = {[short(v) for v in ds]}"
    chk.ob("S8", "node:NodeMeta.__new__:fallback-signature-skips-two-by-position", nm.loc(rep[0]) if rep else nm.loc(nf), okp,
           "the validation signature is parameters[2:] (the same positional skip as skip_params = 2 on the fast path)" if okp else
           f"the fallback validation signature does not drop the first two parameters by position ({whyp}): a render whose receiver / context parameters have other names (node, ctx) keeps a spurious leading parameter, so the fallback path rejects calls the fast path accepts")
    # (c) wrapped marker
    g = [c for c in calls(nf, "getattr") if len(c.args) >= 2 and isinstance(c.args[1], ast.Constant) and "wrapped" in str(c.args[1].value)]
    okw = False
    whyw = "marker test not found"
    if g:
        a0 = g[0].args[0]
        src = a0
        if isinstance(a0, ast.Name):
            d = [v for _s, v in assignments(nf, a0.id) if v is not None]
            src = d[0] if len(d) == 1 else a0
        okw = isinstance(src, ast.Attribute) and src.attr == "render" or "__dict__" in norm(src)
        whyw = f"read from `{norm(src)}`"
    if g:
        skip_ifs = [st for st in ast.walk(nf) if isinstance(st, ast.If) and any(g[0] is y for y in ast.walk(st.test)) and any(isinstance(r, ast.Return) for r in st.body)]
        for st in skip_ifs:
            alone = st.test is g[0] or (isinstance(st.test, ast.Name))
            if isinstance(st.test, ast.BoolOp) and isinstance(st.test.op, ast.Or):
                alone = False
            chk.ob("S8", "node:NodeMeta.__new__:wrapping-skipped-only-for-wrapped-functions", nm.loc(st), alone,
                   "the class is left alone only when its render function already carries the marker" if alone else
                   f"`if {short(st.test)}: return cls` also skips classes for another reason: a render() inherited from a plain mixin (or BaseNode's own default) is never wrapped - Django calls render(context) directly, the tag's arguments are neither resolved, validated nor bound (`a=1 2`, `a=1 a=2` are accepted, valid calls fail with 'missing argument')")
    chk.ob("S8", "node:NodeMeta.__new__:wrapped-marker-on-the-function", nm.loc(g[0]) if g else nm.loc(nf), okw,
           "the marker is read from the class's current render function (an overriding render is a new, unmarked function)" if okw else
           f"the 'already wrapped' marker is {whyw}: a class attribute is inherited, so a subclass that overrides render() with its own signature is never wrapped and its arguments are not validated")


def _msg(r: ast.Raise) -> str:
    a = r.exc.args[0] if isinstance(r.exc, ast.Call) and r.exc.args else None
    if isinstance(a, ast.Constant):
        t = str(a.value)
    elif isinstance(a, ast.JoinedStr):
        t = "".join(str(v.value) if isinstance(v, ast.Constant) else "{}" for v in a.values)
    else:
        t = "?"
    t = re.sub(r"\d+", "N", t)
    t = re.sub(r"\{\}", "_", t)
    return re.sub(r"takes (N|_) positional arguments? but (N|_) was given", "takes N positional arguments but N was given", t).strip()


def _roles(f) -> dict:
    """Rename-proof roles of a validator's locals."""
    ret = [r for r in stmts(f) if isinstance(r, ast.Return) and isinstance(r.value, ast.Tuple) and len(r.value.elts) == 2]
    if not ret:
        raise AnalysisError(f"{f.name}: `return args, kwargs` not found")
    a, k = ret[-1].value.elts
    A = norm(a.args[0]) if isinstance(a, ast.Call) and a.args else norm(a)
    K = norm(k)
    U = local_from(f, lambda v: isinstance(v, ast.Call) and norm(v) == "set()")
    loops = [s for s in f.body if isinstance(s, ast.For)]
    pl = next((l for l in loops if norm(l.iter) == params(f)[1]), None)
    if pl is None or U is None:
        raise AnalysisError(f"{f.name}: argument loop / used-names set not found")
    P = norm(pl.target)
    return {"A": A, "K": K, "U": U, "P": P, "arg_loop": pl, "extra": params(f)[2]}


def _events(f) -> List[Tuple[str, int, str]]:
    """(phase, conditional depth inside the phase, event) in source order; events are recognised by ROLE
    (returned args list, returned kwargs dict, the used-names set, the loop variable), not by variable name."""
    out: List[Tuple[str, int, str]] = []
    R = _roles(f)
    A, K, U, P, X = R["A"], R["K"], R["U"], R["P"], R["extra"]
    loops = [s for s in f.body if isinstance(s, ast.For)]
    extra = [s for s in f.body if isinstance(s, ast.If) and norm(s.test) == X]
    arg_loop = R["arg_loop"]
    later = [l for l in loops if l.lineno > arg_loop.lineno]
    if not later or not extra:
        raise AnalysisError(f"{f.name}: expected argument loop, extra-kwargs block and defaults loop")
    dflt_loop = later[-1]

    def classify(st: ast.stmt) -> Optional[str]:
        if isinstance(st, ast.Expr) and isinstance(st.value, ast.Call) and isinstance(st.value.func, ast.Attribute):
            recv, meth = norm(st.value.func.value), st.value.func.attr
            arg0 = norm(st.value.args[0]) if st.value.args else ""
            if recv == A and meth == "append":
                return "args.append"
            if recv == U and meth == "add":
                return "used.add(key)" if arg0 == f"{P}.key" else "used.add(positional name)"
            if recv == K and meth == "update" and arg0 == X:
                return "kwargs.update(extra)"
        if isinstance(st, ast.Assign) and len(st.targets) == 1:
            t = st.targets[0]
            if isinstance(t, ast.Subscript) and norm(t.value) == K:
                return "kwargs[key]=value" if norm(t.slice) == f"{P}.key" else "kwargs[name]=default"
            if isinstance(t, ast.Name) and isinstance(st.value, ast.Constant) and st.value.value is True:
                return "flag=True"
        if isinstance(st, ast.AugAssign) and isinstance(st.op, ast.Add) and isinstance(st.target, ast.Name) and norm(st.value) == "1":
            return "counter++"
        return None

    def walk(block, phase: str, depth: int) -> None:
        for st in block:
            if isinstance(st, ast.If):
                walk(st.body, phase, depth + 1)
                walk(st.orelse, phase, depth + (0 if len(st.orelse) == 1 and isinstance(st.orelse[0], ast.If) else 1))
            elif isinstance(st, ast.Raise):
                cls = norm(st.exc.func) if isinstance(st.exc, ast.Call) else norm(st.exc) if st.exc is not None else "reraise"
                out.append((phase, depth, f"raise {cls}: {_msg(st)}"))
            elif isinstance(st, ast.Continue):
                out.append((phase, depth, "continue"))
            elif isinstance(st, (ast.For, ast.While)):
                walk(st.body, phase, depth + 1)
            else:
                ev = classify(st)
                if ev:
                    out.append((phase, depth, ev))

    pos = next((s for s in arg_loop.body if isinstance(s, ast.If) and norm(s.test) == f"{P}.key is None"), None)
    if pos is None:
        # the same dispatch written by truthiness (`if not <param>.key`, canonical form `if <param>.key: keyword else: positional`):
        # the event comparison still applies; S11 judges the test itself
        alt = next((s for s in arg_loop.body if isinstance(s, ast.If) and norm(s.test) == f"{P}.key"), None)
        if alt is None:
            raise AnalysisError(f"{f.name}: `if <param>.key is None` dispatch vanished")
        walk(alt.orelse, "positional", 0)
        walk(alt.body, "keyword", 0)
    else:
        walk(pos.body, "positional", 0)
        walk(pos.orelse, "keyword", 0)
    walk(extra[0].body, "extra-kwargs", 0)
    for s in [x for x in dflt_loop.body if isinstance(x, ast.If)]:
        if isinstance(s.body[-1], ast.Continue) and len(s.body) == 1:
            out.append(("defaults", 0, "skip bound"))
            continue
        walk(s.body, "defaults-positional", 0)
        walk(s.orelse, "defaults-kwonly", 0)
    return out


def s1(chk: Check, m, fc, fs) -> None:
    chk.rule("S1", "the two validators perform the same checks and bindings: equal event sequences (phase, conditional depth, raise message / state update)")
    ec, es = _events(fc), _events(fs)
    if ec == es:
        chk.holds("S1", "util.template_tag:validators-agree", m.loc(fc), f"{len(ec)} events agree between the __code__ path and the Signature path", detail={"events": [f"{p}/{d}: {e}" for p, d, e in ec]})
    else:
        i = next((k for k, (a, b) in enumerate(zip(ec, es)) if a != b), min(len(ec), len(es)))
        a = ec[i] if i < len(ec) else ("-", 0, "(nothing)")
        b = es[i] if i < len(es) else ("-", 0, "(nothing)")
        chk.violated("S1", "util.template_tag:validators-agree", m.loc(fs), f"the validators disagree at event {i}: fast path does `{a[2]}` (phase {a[0]}, depth {a[1]}), fallback path does `{b[2]}` (phase {b[0]}, depth {b[1]}): a tag whose render has no __code__ accepts / rejects calls differently",
                     detail={"code_path": [f"{p}/{d}: {e}" for p, d, e in ec], "signature_path": [f"{p}/{d}: {e}" for p, d, e in es]})
    chk.extra["validator_events"] = len(ec)
    if len(ec) < 18:
        chk.error(f"C11-S1: only {len(ec)} validator events recognised (floor 18)")


def s2(chk: Check, m, fc, fs) -> None:
    chk.rule("S2", "positional-only parameters are distinguished (a) where a positionally bound name is recorded for duplicate-keyword detection and (b) where defaults are materialised as keywords")
    for f, marks in ((fc, ("co_posonlyargcount",)), (fs, ("POSITIONAL_ONLY",))):
        R = _roles(f)
        K, U, P = R["K"], R["U"], R["P"]
        # names that carry the positional-only boundary (derived from the marker attribute)
        carriers = set(marks)
        for n in body_walk(f):
            if isinstance(n, ast.Assign) and isinstance(n.targets[0], ast.Name) and n.value is not None and any(mk in norm(n.value) for mk in marks):
                carriers.add(n.targets[0].id)

        def mentions(text: str) -> bool:
            return any(c in text for c in carriers)

        # (b) defaults: stores K[<name>] = <positional default> in the defaults loop
        st = [s for s in stmts(f) if isinstance(s, ast.Assign) and isinstance(s.targets[0], ast.Subscript) and norm(s.targets[0].value) == K and norm(s.targets[0].slice) != f"{P}.key"]
        st = [s for s in st if "kwdefaults" not in norm(s.value) and "KEYWORD_ONLY" not in " ".join(t for t, pol in cond_atoms(s) if pol)]
        st = [s for s in st if any(pol and ("POSITIONAL_OR_KEYWORD" in t or "<" in t) for t, pol in cond_atoms(s))]
        okb = bool(st) and all(any(mentions(t) and ("!=" in t or ">=" in t) for t, pol in cond_atoms(s) if pol) for s in st)
        chk.ob("S2", f"util.template_tag:{f.name}:defaults-skip-positional-only", m.loc(st[0]) if st else m.loc(f), okb if st else None,
               "the default of an omitted positional parameter is passed as keyword only if the parameter is NOT positional-only" if okb else
               f"{f.name} materialises the default of a positional-only parameter as a keyword argument: `def render(self, context, a=5, /)` used as `{{% tag %}}` raises TypeError where Python binds a=5")
        # (a) duplicate detection
        add = [s for s in stmts(f) if isinstance(s, ast.Expr) and isinstance(s.value, ast.Call) and isinstance(s.value.func, ast.Attribute) and norm(s.value.func.value) == U and s.value.func.attr == "add" and s.value.args and norm(s.value.args[0]) != f"{P}.key"]
        oka = bool(add) and all(any(mentions(t) for t, pol in cond_atoms(s)) for s in add)
        chk.ob("S2", f"util.template_tag:{f.name}:posonly-name-not-a-duplicate", m.loc(add[0]) if add else m.loc(f), oka if add else None,
               "a positionally bound POSITIONAL-ONLY name is not recorded as used, so the same name may still arrive as a keyword for **kwargs" if oka else
               f"{f.name} records every positionally bound parameter name as used: for `def render(self, context, a, /, **kwargs)` the call `{{% tag 1 a=2 %}}` is rejected with 'multiple values for argument a' although Python binds a=1, kwargs={{'a': 2}}")


def s3(chk: Check, proj: Project, m, fc, fs) -> None:
    chk.rule("S3", "every raise reachable in the validators is TypeError; the wrapper's only other raise is SyntaxError for a positional argument after a special keyword")
    n = 0
    for f in (fc, fs, m.func("validate_params")):
        for r in [x for x in body_walk(f) if isinstance(x, ast.Raise)]:
            n += 1
            cls = norm(r.exc.func) if isinstance(r.exc, ast.Call) else (norm(r.exc) if r.exc is not None else None)
            chk.ob("S3", f"util.template_tag:{f.name}:{short(r, 60)}", m.loc(r), cls in ("TypeError", None), "TypeError" if cls in ("TypeError", None) else f"`{short(r)}` raises {cls} from argument validation", nontrivial=False)
    chk.floor("S3", n, 18)
    nm, nf = proj.func("node", "NodeMeta.__new__")
    wr = next((x for x in ast.walk(nf) if isinstance(x, ast.FunctionDef) and x.name == "wrapper_render"), None)
    if wr is None:
        raise AnalysisError("wrapper_render vanished")
    for r in [x for x in ast.walk(wr) if isinstance(x, ast.Raise)]:
        cls = norm(r.exc.func) if isinstance(r.exc, ast.Call) else "?"
        ok = cls in ("SyntaxError", "TypeError")
        chk.ob("S3", f"node:wrapper_render:{short(r, 60)}", nm.loc(r), ok, f"{cls}" if ok else f"wrapper raises {cls}")


def s4_s5(chk: Check, proj: Project) -> None:
    chk.rule("S4", "wrapper_render calls the original render with exactly the (args, kwargs) returned by validate_params; nothing rebinds them in between")
    chk.rule("S5", "non-identifier / keyword-named keys are collected with duplicate detection and flow only into the extra-kwargs argument")
    nm, nf = proj.func("node", "NodeMeta.__new__")
    wr = next((x for x in ast.walk(nf) if isinstance(x, ast.FunctionDef) and x.name == "wrapper_render"), None)
    chk.analysed("django_components.node:NodeMeta.__new__.wrapper_render")
    vp = [c for c in ast.walk(wr) if isinstance(c, ast.Call) and last_attr(c.func) == "validate_params"]
    # the original render: the module-level-of-closure variable bound from `cls.render` before wrapping
    orn = next((n.targets[0].id for n in ast.walk(nf) if isinstance(n, ast.Assign) and isinstance(n.targets[0], ast.Name) and norm(n.value) == "cls.render"), "orig_render")
    oc = [c for c in ast.walk(wr) if isinstance(c, ast.Call) and norm(c.func) == orn]
    ok = False
    if len(vp) == 1 and len(oc) == 1:
        st = parent(vp[0])
        tg = [norm(t) for t in st.targets[0].elts] if isinstance(st, ast.Assign) and isinstance(st.targets[0], ast.Tuple) else []
        star = [norm(a.value) for a in oc[0].args if isinstance(a, ast.Starred)]
        dstar = [norm(k.value) for k in oc[0].keywords if k.arg is None]
        plain = [norm(a) for a in oc[0].args if not isinstance(a, ast.Starred)]
        rebind = [s for s in ast.walk(wr) if isinstance(s, (ast.Assign, ast.AugAssign)) and s is not st and any(norm(t) in tg for t in (s.targets if isinstance(s, ast.Assign) else [s.target]))]
        mutate = [c for c in ast.walk(wr) if isinstance(c, ast.Call) and isinstance(c.func, ast.Attribute) and norm(c.func.value) in tg]
        ok = len(tg) == 2 and star == [tg[0]] and dstar == [tg[1]] and plain == ["self", "context"] and not rebind and not mutate and not oc[0].keywords[1:] if oc[0].keywords else False
    chk.ob("S4", "node:wrapper_render:calls-render-with-validated", nm.loc(oc[0]) if oc else nm.loc(wr), ok, "orig_render(self, context, *args, **kwargs) with args, kwargs = validate_params(...) and no rebinding" if ok else "render is not called with exactly the validated (args, kwargs)")
    # S5
    inv = None
    for s in ast.walk(wr):
        if isinstance(s, ast.Assign) and isinstance(s.targets[0], ast.Subscript) and isinstance(s.targets[0].value, ast.Name) and isinstance(s.targets[0].slice, ast.Name) and norm(s.value).endswith(".value"):
            kd = [x for x in ast.walk(wr) if isinstance(x, ast.Assign) and norm(x.targets[0]) == s.targets[0].slice.id and norm(x.value).endswith(".key")]
            if kd:
                inv = s
    if inv is None:
        chk.undecided("S5", "node:wrapper_render:special-keys", nm.loc(wr), "collection of non-identifier keys not found")
        return
    dname = norm(inv.targets[0].value)
    kname = norm(inv.targets[0].slice)
    atoms = cond_atoms(inv)
    cond_ok = any(pol and "isidentifier" in t for t, pol in atoms)
    dup = any((not pol) and t == f"{kname} in {dname}" for t, pol in atoms)
    dup_raise = any(isinstance(s, ast.If) and norm(s.test) == f"{kname} in {dname}" and any(isinstance(r, ast.Raise) and "TypeError" in norm(r) for r in s.body) for s in ast.walk(wr))
    chk.ob("S5", "node:wrapper_render:special-keys-duplicate-detection", nm.loc(inv), dup and dup_raise,
           f"a repeated non-identifier key raises TypeError before `{short(inv)}`" if dup and dup_raise else
           f"`{short(inv)}` overwrites an earlier value for the same non-identifier key: `{{% tag data-x=1 data-x=2 %}}` is accepted with the last value where Python raises 'got multiple values for keyword argument'")
    chk.ob("S5", "node:wrapper_render:special-keys-condition", nm.loc(inv), cond_ok, "only keys that are not identifiers (or are Python keywords) are diverted")
    passed = len(vp) == 1 and any(norm(a) == dname for a in vp[0].args)
    other = [n for n in ast.walk(wr) if isinstance(n, ast.Name) and n.id == dname and isinstance(n.ctx, ast.Load) and not (isinstance(parent(n), ast.Subscript) and isinstance(parent(n).ctx, ast.Store)) and not any(n is a for a in (vp[0].args if vp else [])) and not isinstance(parent(n), ast.Compare)]
    chk.ob("S5", "node:wrapper_render:special-keys-only-to-extra-kwargs", nm.loc(inv), passed and not other, f"`{dname}` flows only into validate_params' extra-kwargs argument")


def s6(chk: Check, proj: Project, m) -> None:
    chk.rule("S6", "resolve_params spreads a resolved value as keywords iff isinstance(value, Mapping) (the ABC), else as positionals iff Iterable, else raises")
    f = m.func("resolve_params")
    chk.analysed(fkey(m, f))
    rv = local_from(f, lambda v: isinstance(v, ast.Call) and last_attr(v.func) == "resolve") or "resolved"
    tests = [s for s in stmts(f) if isinstance(s, ast.If) and f"isinstance({rv}," in norm(s.test)]
    first = tests[0] if tests else None
    ok = first is not None and norm(first.test) == f"isinstance({rv}, Mapping)"
    if ok:
        src = m.imports.get("Mapping")
        ok = src is not None and src[0] in ("typing", "collections.abc")
    chk.ob("S6", "util.template_tag:resolve_params:mapping-abc", m.loc(first) if first is not None else m.loc(f), ok,
           "mappings are recognised with the Mapping ABC" if ok else
           f"spread values are treated as keyword sources only if `{short(first.test) if first is not None else '?'}`: a non-dict mapping (MappingProxyType, ChainMap, os.environ, request.headers) is spread as POSITIONAL arguments (its keys)")
    # nothing in front of the type dispatch lets a value slip through: the raise for "cannot be spread" depends on the TYPE only
    rs_ = [r for r in ast.walk(f) if isinstance(r, ast.Raise) and any(t.startswith(f"isinstance({rv},") and not pol for t, pol in cond_atoms(r))]
    if rs_:
        extra_ = [(t, pol) for t, pol in cond_atoms(rs_[0]) if rv in t and not t.startswith("isinstance(")]
        chk.ob("S6", "util.template_tag:resolve_params:non-spreadable-always-raises", m.loc(rs_[0]), not extra_,
               "whether a spread value is refused depends on its type alone" if not extra_ else
               f"the refusal is reached only if `{('' if extra_[0][1] else 'not ') + extra_[0][0]}`: a falsy value that cannot be spread (None, 0, False) is silently skipped - `{{% tag ...attrs %}}` with attrs=None calls render as if the spread were absent, where Python's f(**None) raises TypeError")
    second = first.orelse[0] if first is not None and first.orelse and isinstance(first.orelse[0], ast.If) else None
    ok2 = second is not None and norm(second.test) == f"isinstance({rv}, Iterable)" and second.orelse and isinstance(second.orelse[-1], ast.Raise)
    chk.ob("S6", "util.template_tag:resolve_params:iterable-then-raise", m.loc(second) if second is not None else m.loc(f), ok2, "other iterables are spread positionally; anything else raises")


def s7(chk: Check, proj: Project, m, fc) -> None:
    chk.rule("S7", "the fast validator reads defaults / kwdefaults / code from the function object on every call; the module keeps no per-function memo")
    fnp = params(fc)[0]
    for attr in ("__code__", "__defaults__", "__kwdefaults__"):
        reads = [(s_, v) for s_ in stmts(fc) if isinstance(s_, ast.Assign) for v in [s_.value] if attr in norm(v)]
        ok = bool(reads) and all(fnp in {x.id for x in ast.walk(v) if isinstance(x, ast.Name)} for _s, v in reads)
        chk.ob("S7", f"util.template_tag:_validate_params_with_code:{attr}-fresh", m.loc(reads[0][0]) if reads else m.loc(fc), ok, f"`{attr}` is read from `{fnp}` in this call" if ok else
               f"`{attr}` is not read from the function object `{fnp}` in this call: two render functions that share a code object but differ in defaults (closures, factories) get each other's defaults")
    def _bounded_use(n: ast.AST) -> bool:
        p_ = parent(n)
        if isinstance(p_, ast.Subscript) and p_.value is n and isinstance(p_.slice, ast.Slice) and p_.slice.upper is not None:
            return True
        if isinstance(p_, ast.Call) and norm(p_.func) == "len":
            return True
        return False

    raw_alias = {t.id for st in stmts(fc) if isinstance(st, ast.Assign) and isinstance(st.value, ast.Attribute) and st.value.attr == "co_varnames" for t in st.targets if isinstance(t, ast.Name)}
    raw = [n for n in ast.walk(fc) if ((isinstance(n, ast.Attribute) and n.attr == "co_varnames" and not (isinstance(parent(n), ast.Assign) and parent(n).value is n and all(isinstance(t, ast.Name) for t in parent(n).targets)))
                                      or (isinstance(n, ast.Name) and n.id in raw_alias and isinstance(n.ctx, ast.Load))) and not _bounded_use(n)]
    chk.ob("S7", "util.template_tag:_validate_params_with_code:varnames-only-sliced", m.loc(raw[0]) if raw else m.loc(fc), not raw,
           "co_varnames is only used sliced to the parameter names" if not raw else
           f"`{short(enclosing_stmt(raw[0]))}` uses the whole co_varnames (parameters AND the *args/**kwargs names AND every local variable of render) as if it were the parameter list: a keyword spelled like a local of render() is rejected although **kwargs would take it")
    inv = {k: g for k, g in inventory(proj).items() if k.startswith("util.template_tag:") and g.kind in ("dict", "list", "set", "container", "lru_cache", "weakdict")}
    chk.ob("S7", "util.template_tag:no-module-memo", m.loc(m.tree), not inv, "util.template_tag has no module-level mutable state" if not inv else f"module-level state {sorted(inv)} in the validation module: validation results depend on earlier calls")


def s11_keyword_means_key_is_not_none(chk: Check, proj: Project) -> None:
    chk.rule("S11", "an argument is a keyword argument exactly when it HAS a key (`key is not None`): the wrapper and both validators never decide by the key's truthiness - the empty string is a legal key of a spread mapping (`...d` with d = {'': 5}), Python binds it into **kwargs, and a truthiness test turns it into a positional argument (bound to the first free parameter, or refused with a bogus 'positional argument follows keyword argument')")
    sites = [("util.template_tag", "_validate_params_with_code"), ("util.template_tag", "_validate_params_with_signature"), ("util.template_tag", "merge_repeated_kwargs"), ("node", "NodeMeta.__new__")]
    n = 0
    for mod_, qn in sites:
        r = proj.try_func(mod_, qn)
        if r is None:
            continue
        m2, fn = r
        for t in [x.test for x in ast.walk(fn) if isinstance(x, (ast.If, ast.IfExp, ast.While))] + [g for x in ast.walk(fn) if isinstance(x, ast.comprehension) for g in x.ifs]:
            for e in ast.walk(t):
                iskey = (isinstance(e, ast.Name) and e.id == "key") or (isinstance(e, ast.Attribute) and e.attr == "key")
                if not iskey:
                    continue
                par = getattr(e, "parent", None)
                n += 1
                truthy = par is None or e is t or (isinstance(par, ast.UnaryOp) and isinstance(par.op, ast.Not)) or (isinstance(par, ast.BoolOp))
                in_cmp = isinstance(par, ast.Compare) or isinstance(par, (ast.Call, ast.Subscript, ast.Attribute, ast.JoinedStr, ast.FormattedValue))
                if in_cmp and not (e is t):
                    truthy = False
                chk.ob("S11", f"{mod_}:{qn.split('.')[-1]}:{short(t, 50)}:key-tested-against-None", m2.loc(e), not truthy,
                       f"`{short(t)}` compares / uses the key, it does not test its truthiness" if not truthy else
                       f"`{short(t)}` decides keyword-vs-positional by the TRUTHINESS of the key: a spread mapping with the empty-string key (`{{% tag ...d %}}`, d = {{'': 5}}) is handed to render() as a positional argument, where the Python call `render(**d)` binds kwargs[''] = 5")
    chk.floor("S11", n, 3)


def s12_dispatch_by_the_render_function(chk: Check, proj: Project, m) -> None:
    chk.rule("S12", "the fast validator reads the code object of the very callable that wrapper_render will call with (self, context, ...): it is chosen only when THAT callable has `__code__`, and it is handed that callable - a callable object's `__call__` is a bound method whose code object also counts its own `self`, so the fixed 'skip two parameters' strips (self, node) instead of (node, context) and `context` is taken for the first tag argument")
    f = m.func("validate_params")
    chk.analysed(fkey(m, f))
    fp = params(f)[0]
    cs = [c for c in calls(f) if last_attr(c.func) == "_validate_params_with_code"]
    chk.floor("S12", len(cs), 1)
    for c in cs:
        a0 = c.args[0] if c.args else None
        ok = isinstance(a0, ast.Name) and a0.id == fp and not [1 for st, v in assignments(f, fp)]
        chk.ob("S12", "util.template_tag:validate_params:fast-path-gets-the-render-callable", m.loc(c), ok,
               f"the fast path inspects `{fp}` itself" if ok else
               f"`{short(c)}` inspects `{short(a0) if a0 is not None else '?'}`, which is not the callable that will be called (`{fp}`): for a render given as a callable object the code object is that of the bound `__call__`, the two skipped parameters are the wrong two, and `{{% tag 'John' %}}` raises TypeError although the Python call succeeds")
    # the test that selects the fast path asks `__code__` of the parameter itself
    sel = [x for x in ast.walk(f) if isinstance(x, ast.Call) and norm(x.func) == "hasattr" and len(x.args) == 2 and isinstance(x.args[1], ast.Constant) and x.args[1].value == "__code__"]
    oks = bool(sel) and all(isinstance(x.args[0], ast.Name) and x.args[0].id == fp for x in sel)
    chk.ob("S12", "util.template_tag:validate_params:fast-path-chosen-for-the-render-callable", m.loc(sel[0]) if sel else m.loc(f), oks,
           f"hasattr({fp}, '__code__') selects the fast path" if oks else "the fast path is selected by the `__code__` of something other than the render callable")


MANIFEST = {
    "text": "Cross-checks the two argument validators as siblings (equal event sequences per phase and conditional depth), requires both to consult the positional-only boundary at the two points where Python's binding differs, classifies every raise, fixes that render receives exactly the validated arguments, that non-identifier keys are collected with duplicate detection, that mappings are recognised by the ABC, and that defaults are read per call. Also: raw co_varnames is only used sliced to the parameters, the index into __defaults__ is a linear form counted from the end of the positional parameters, the fallback signature skips two parameters by position, and the 'already wrapped' marker is read from the function. Round 4: strict index-vs-count guard when a positional is mapped to a name; the keyword lookup set and the **kwargs complement set are the same set. Round 5: spread-mapping keys reach the binding unchanged; the callable that is inspected is the callable that is called (no unwrapping). Round 6: no raw co_argcount / co_posonlyargcount in a comparison with an index of the tag's arguments. Round 7: the metaclass skips wrapping only for functions that already carry the marker.",
    "note": "Trusted: the final render(self, context, *args, **kwargs) call is bound by CPython. Not decided: full equivalence with CPython's binding algorithm over signatures x call shapes (an enumeration, another family).",
    "technique": "static sibling cross-checking, dataflow/control-dependence requirements at kind-sensitive decision points, raise classification, single reaching definition",
}
