"""C09 — the template lexer partitions the source with right positions and lines (DESIGN.md section 3, C09).

S1 coordinate kinds: tokens of a re-lexed segment are shifted by that segment's origin (positions) and by the absolute
   line offset (line numbers); the line offset is (re)assigned -- never accumulated -- from an absolute line number
   plus a newline count.
S2 the newline count is taken on a slice of the raw text that spans from the fixed token's start to the next segment's
   origin (not on stripped / truncated text).
S3 contiguity: the next segment's origin is the end position of the last emitted token.
S4 stock identity: the hand-over to the quote-aware scanner happens exactly for BLOCK tokens that contain a quote.
S5 terminator visibility: outside quoted strings the quote-aware scanner never skips over a `%`; inside strings a
   backslash escapes exactly one following character.
"""
from __future__ import annotations

import ast
from typing import List, Optional, Tuple

from ..astq import assignments, calls, kwarg, params, stmts
from ..callgraph import fkey
from ..cfg import CFG, cond_atoms, flatten_conj, path_conditions
from ..regexlang import MAXREPEAT, sre_parse
from ..report import Check
from ..source import AnalysisError, Project, ancestors, assign_targets, body_walk, dotted, enclosing_stmt, last_attr, norm, parent, short


def run(chk: Check, proj: Project) -> None:
    chk.explanation = (
        "Frame discipline of the two-lexer hand-over in parse_template (which variable is an absolute origin, which a "
        "relative position or count, and that the same variable is used in both roles that must coincide), the exact "
        "hand-over condition, and which characters the quote-aware scanner may skip."
    )
    chk.not_decided = ["that token contents equal the span without delimiters", "exact handling of unterminated constructs"]
    chk.trusted_base = ["DebugLexer(text[a:b]).tokenize() reports positions and line numbers relative to the slice it was given"]
    m, f = proj.func("util.template_parser", "parse_template")
    chk.analysed(fkey(m, f))
    if not s7_fresh_lexer(chk, proj, m, f):
        return
    s1_s3(chk, proj, m, f)
    s4(chk, proj, m, f)
    s5(chk, proj)
    s6(chk, proj, m, f)
    s8_patch_installed(chk, proj)
    s9_no_token_lost(chk, proj, m, f)
    s10_same_as_django(chk, proj, m, f)
    s11_string_body_language(chk, proj)
    s13_repaired_token_keeps_its_line(chk, proj)
    s15_source_not_rebound(chk, proj, m, f)
    s17_handover_depends_on_the_token_alone(chk, proj, m, f)
    from . import C12
    from . import C07 as _C07
    from .common import world as _world

    _w = _world(proj)
    chk.borrow("S14", "the token stream is a function of the source text alone: the lexer keeps its working state (the pieces of the tag being rebuilt, positions, flags) in locals - a module-level scratch buffer that is cleared and refilled per call is shared by threads compiling templates at the same time, and one thread's token then holds the other's text (shared with C07-S1-C)",
               lambda sub: _C07.s1c_shared(sub, proj, _w, _C07.reach_set(proj, _w)), only=lambda o: o.construct.startswith("util.template_parser:"))
    from . import C10 as _C10

    chk.borrow("S16", "an error of the lexer reaches the caller as the lexer raised it: in the patched Template.compile_nodelist only Parser.parse() runs inside the try whose debug handler reads `e.token` - the library's own tokenizer errors (unterminated string, a tag whose only `%}` is inside a string) carry no token, so with the tokenizer inside that try an Engine(debug=True) replaces the TemplateSyntaxError by AttributeError (shared with C10-S1)",
               lambda sub: _C10.s1(sub, proj), only=lambda o: "compile_nodelist" in o.construct)
    chk.borrow("S12", "malformed tags end in TemplateSyntaxError, not in a crash of the scanner: every text[<index>] read of the quote-aware tag scanner is guarded by a fresh bounds test for that offset (shared with C12-S2b)",
               lambda sub: C12.s2_subscripts(sub, proj), only=lambda o: "template_parser" in o.construct)


def s7_fresh_lexer(chk: Check, proj: Project, m, f) -> bool:
    chk.rule("S7", "each hand-over round lexes its remaining text with a FRESH stock lexer built from that slice (Lexer objects carry state - `verbatim` - from the END of the text they lexed, not from the hand-over point)")
    lex = [c for c in calls(f) if last_attr(c.func) in ("DebugLexer", "Lexer")]
    tok = [c for c in calls(f) if isinstance(c.func, ast.Attribute) and c.func.attr == "tokenize"]
    loops = [x for x in body_walk(f) if isinstance(x, ast.While)]
    if not lex or not tok or not loops:
        raise AnalysisError("parse_template: stock lexer construction / tokenize() / hand-over loop not found")
    loop = loops[0]
    inside = lambda n: any(a is loop for a in ancestors(n))  # noqa: E731
    retarget = [s2 for s2 in stmts(f) if isinstance(s2, ast.Assign) and isinstance(s2.targets[0], ast.Attribute) and s2.targets[0].attr == "template_string"]
    fresh = all(inside(c) for c in lex) and all(inside(c) for c in tok) and not retarget
    # a re-used lexer object is harmless only if its one piece of state (`verbatim`) is explicitly (re)set in every round
    reset = [s2 for s2 in stmts(f) if isinstance(s2, ast.Assign) and isinstance(s2.targets[0], ast.Attribute) and s2.targets[0].attr == "verbatim" and inside(s2) and all(s2.lineno < c.lineno for c in tok)]
    ok = fresh or bool(reset)
    chk.ob("S7", "util.template_parser:parse_template:lexer-state-defined-per-round", m.loc((retarget or lex)[0]), ok,
           ("the stock lexer is constructed inside the hand-over loop from the remaining slice" if fresh else "the lexer object is re-used, but its `verbatim` state is assigned in every round before tokenize()") if ok else
           f"the stock lexer is created once and re-pointed (`{short(retarget[0]) if retarget else short(enclosing_stmt(lex[0]))}`): tokenize() leaves `verbatim` as it was at the END of the previous text, so after a hand-over inside/before an unterminated or oddly closed verbatim block all following tags are emitted as TEXT")
    # the one piece of lexer state that must survive the switch: the open {% verbatim %} block
    lv = next((norm(st.targets[0]) for st in stmts(f) if isinstance(st, ast.Assign) and st.value is lex[0] and isinstance(st.targets[0], ast.Name)), None)
    sets = [st for st in stmts(f) if isinstance(st, ast.Assign) and isinstance(st.targets[0], ast.Attribute) and st.targets[0].attr == "verbatim" and norm(st.targets[0].value) == lv and inside(st)]
    carried = False
    why = "the fresh lexer always starts outside verbatim"
    if sets and isinstance(sets[0].value, ast.Name):
        V = sets[0].value.id
        upd = [st for st in stmts(f) if isinstance(st, (ast.Assign, ast.AnnAssign)) and inside(st) and any(isinstance(t, ast.Name) and t.id == V for t, _v in assign_targets(st))]
        # the update happens in the hand-over branch and is derived from the handed-over token's contents
        def from_contents(e: ast.AST, depth: int = 0) -> bool:
            if any(isinstance(x, ast.Attribute) and x.attr == "contents" for x in ast.walk(e)):
                return True
            if depth < 3:
                for x in ast.walk(e):
                    if isinstance(x, ast.Name):
                        for _s, v in assignments(f, x.id):
                            if v is not None and v is not e and from_contents(v, depth + 1):
                                return True
            return False

        carried = any(st.value is not None and from_contents(st.value) and any(isinstance(x, ast.Constant) and isinstance(x.value, str) and "verbatim" in x.value for y in [st.value] + [v for n2 in ast.walk(st.value) if isinstance(n2, ast.Name) for _s, v in assignments(f, n2.id) if v is not None] for x in ast.walk(y)) for st in upd)
        why = f"`{V}` is not updated from the handed-over token's contents"
    # ... and ONLY from it: the previous round's lexer has tokenized the whole rest of the text, so its `verbatim` attribute is
    # the state at the END of the text, not the state at the fixed tag
    stale = [st for st in stmts(f) if isinstance(st, ast.Assign) and any(isinstance(x, ast.Attribute) and x.attr == "verbatim" and isinstance(x.ctx, ast.Load) for x in ast.walk(st.value))]
    chk.ob("S7", "util.template_parser:parse_template:verbatim-state-not-read-back-from-a-lexer", m.loc(stale[0]) if stale else m.loc(f), not stale,
           "no lexer's `verbatim` attribute is read: the state after the fixed tag is computed from the tag alone" if not stale else
           f"`{short(stale[0])}` takes the state from a lexer that has already run to the end of the text: when the source ends inside a verbatim block (an unclosed {{% verbatim %}} much later, or one that only occurs inside the quoted string) every {{{{ }}}} / {{% %}} after the repaired tag comes out as TEXT")
    chk.ob("S7", "util.template_parser:parse_template:verbatim-state-carried", m.loc(sets[0]) if sets else m.loc(lex[0]), carried,
           "the resuming lexer's `verbatim` is set from a variable that the hand-over branch derives from the fixed token's contents" if carried else
           f"{why}: a `{{% verbatim \"x\" %}}` tag (it contains a quote, so it is handed over) is followed by a lexer that tokenizes the block's content ({{{{ a }}}} becomes a VAR token) although stock Django keeps it as TEXT")
    return ok


def s9_no_token_lost(chk: Check, proj: Project, m, f) -> None:
    chk.rule("S9", "no token of the stock lexer is dropped: every iteration of the token loop appends the token or hands it over (no `continue`); outside quoted strings the scanner does not treat a backslash as an escape (a `\\` before `%}` must not hide the end of the tag)")
    loops = [x for x in ast.walk(f) if isinstance(x, ast.For) and isinstance(x.iter, ast.Name) and any(isinstance(c, ast.Call) and isinstance(c.func, ast.Attribute) and c.func.attr == "tokenize" for _s, v in assignments(f, x.iter.id) if v is not None for c in ast.walk(v))]
    if len(loops) != 1:
        chk.undecided("S9", "util.template_parser:parse_template:every-token-kept", m.loc(f), f"{len(loops)} token loops")
    else:
        lp = loops[0]
        tv = norm(lp.target)
        conts = [x for x in ast.walk(lp) if isinstance(x, ast.Continue)]
        apps = [c for c in ast.walk(lp) if isinstance(c, ast.Call) and isinstance(c.func, ast.Attribute) and c.func.attr == "append" and c.args and norm(c.args[0]) == tv]
        ok = not conts and bool(apps)
        chk.ob("S9", "util.template_parser:parse_template:every-token-kept", m.loc(conts[0]) if conts else m.loc(lp), ok,
               f"each `{tv}` is appended or ends the loop by the hand-over `break`; there is no `continue`" if ok else
               f"`{short(enclosing_stmt(conts[0])) if conts else 'no append'}` skips tokens: the spans of the kept tokens no longer cover the source (`{{##}}`, `{{{{ }}}}` vanish) and the stream differs from stock Django's although no tag contains a quote")
    dm, df = proj.func("util.template_parser", "_detailed_tag_parser")
    n = 0
    for c in [c for c in calls(df) if last_attr(c.func) in ("take_until_any", "take_until")]:
        okf, stop = proj.try_fold(dm, c.args[0], env=None) if c.args else (False, None)
        if not okf and c.args and isinstance(c.args[0], ast.Name):
            d = [v for _s, v in assignments(df, c.args[0].id) if v is not None]
            if len(d) == 1:
                try:
                    okf, stop = True, tuple(x for e in (d[0].elts if isinstance(d[0], ast.Tuple) else []) for x in ([e.value] if isinstance(e, ast.Constant) else ["'", '"'] if isinstance(e, ast.Starred) else []))
                except Exception:
                    okf = False
        if not okf or "%" not in tuple(stop):
            continue  # a scan inside a quoted string (stops at the quote only)
        n += 1
        esc = kwarg(c, "allow_escapes") or (c.args[1] if len(c.args) > 1 else None)
        ok = esc is None or (isinstance(esc, ast.Constant) and esc.value is False)
        chk.ob("S9", "util.template_parser:_detailed_tag_parser:no-escapes-outside-strings", dm.loc(c), ok,
               "outside strings the scan stops at every quote and every `%` (no escape processing)" if ok else
               f"`{short(c)}` lets a backslash escape the next character OUTSIDE a string: `{{% a \"s\" \\%}}after` no longer ends at that `%}}`, the BLOCK token swallows the following text and tags")
    chk.floor("S9", n, 1)


def _django_create_token() -> ast.FunctionDef:
    import importlib.util

    spec = importlib.util.find_spec("django.template.base")
    if spec is None or not spec.origin:
        raise AnalysisError("django.template.base not found")
    tree = ast.parse(open(spec.origin).read())
    fn = next((f_ for c in ast.walk(tree) if isinstance(c, ast.ClassDef) and c.name == "Lexer" for f_ in c.body if isinstance(f_, ast.FunctionDef) and f_.name == "create_token"), None)
    if fn is None:
        raise AnalysisError("django Lexer.create_token not found")
    return fn


def s13_repaired_token_keeps_its_line(chk: Check, proj: Project) -> None:
    chk.rule("S13", "the repaired token carries the line of its `{%` - the line number it was called with, unchanged: parse_template adds ALL newlines of the span to that number for the next segment, so any adjustment inside the tag scanner is counted twice")
    m, f = proj.func("util.template_parser", "_detailed_tag_parser")
    chk.analysed(fkey(m, f))
    lp = next((p_ for p_ in params(f) if "line" in p_), None)
    toks = [c for c in ast.walk(f) if isinstance(c, ast.Call) and last_attr(c.func) == "Token"]
    if lp is None or not toks:
        chk.undecided("S13", "util.template_parser:_detailed_tag_parser:lineno-unchanged", m.loc(f), "line-number parameter / Token construction not found")
        return
    writes = [x for x in ast.walk(f) if (isinstance(x, ast.AugAssign) and norm(x.target) == lp) or (isinstance(x, ast.Assign) and any(norm(t) == lp for t in x.targets))]
    passed = any(norm(a) == lp for c in toks for a in list(c.args) + [k.value for k in c.keywords])
    ok = not writes and passed
    chk.ob("S13", "util.template_parser:_detailed_tag_parser:lineno-unchanged", m.loc(writes[0]) if writes else m.loc(toks[0]), ok,
           f"Token(..., {lp}) receives the parameter as it came in" if ok else
           f"`{short(writes[0]) if writes else short(toks[0])}` changes the line number of the repaired token: for a quoted tag written with a newline directly after `{{%` the token reports a later line, parse_template counts those newlines again, and every following token drifts (cumulatively per such tag)")


def s11_string_body_language(chk: Check, proj: Project) -> None:
    chk.rule("S11", "inside a quoted string the scanner stops at the closing quote and NOWHERE else: the pattern built for the string body (escapes allowed) matches every sequence of escaped pairs - a backslash followed by ANY character, a newline included - and characters that are neither the quote nor a backslash (regex language inclusion, with the flags the pattern is compiled with)")
    import re as _re

    from ..regexlang import Lang, included

    m, f = proj.func("util.template_parser", "_compile_take_until_pattern")
    chk.analysed(fkey(m, f))
    ap = params(f)[1] if len(params(f)) > 1 else "allow_escapes"
    comp = [c for c in calls(f) if dotted(c.func) == "re.compile"]
    flags = 0
    for c in comp:
        for a in list(c.args[1:]) + [k.value for k in c.keywords]:
            for x in ast.walk(a):
                if isinstance(x, ast.Attribute) and (dotted(x) or "").startswith("re."):
                    flags |= int(getattr(_re, x.attr, 0))
    n = 0
    for st in [x for x in stmts(f) if isinstance(x, ast.Assign) and isinstance(x.value, ast.JoinedStr)]:
        if not any(pol and t == ap for t, pol in cond_atoms(st)):
            continue
        for q in ("'", '"'):
            txt = ""
            okf = True
            for v in st.value.values:
                if isinstance(v, ast.Constant):
                    txt += str(v.value)
                elif isinstance(v, ast.FormattedValue) and isinstance(v.value, ast.Name):
                    txt += _re.escape(q)
                else:
                    okf = False
            if not okf:
                chk.undecided("S11", "util.template_parser:_compile_take_until_pattern:string-body", m.loc(st), "pattern template not instantiable")
                continue
            n += 1
            need = "(?s)(?:\\\\.|[^" + _re.escape(q) + "\\\\])*"
            ok, wit = included(Lang(need, 0), Lang(txt, flags))
            chk.ob("S11", f"util.template_parser:_compile_take_until_pattern:string-body-{'single' if q == chr(39) else 'double'}-quote", m.loc(st), ok,
                   f"`{txt}` consumes every escaped pair and every other character up to the closing quote" if ok else
                   f"the string-body pattern `{txt}` stops in front of {wit!r}: a backslash directly before a newline (a JS line continuation inside a multi-line tag attribute) ends the scan inside the string, and a well-formed template raises 'unterminated string'",
                   detail={"required": need, "witness": wit})
    chk.floor("S11", n, 2)


def s10_same_as_django(chk: Check, proj: Project, m, f) -> None:
    chk.rule("S10", "where the quote-aware path re-implements a decision of Django's Lexer.create_token, it is the SAME decision (compared with the installed Django's source): when a tag starts a verbatim block, and how a tag's contents are stripped")
    dj = _django_create_token()
    # Django: `elif content[:9] in ("verbatim", "verbatim "):`
    dj_tests = [c for c in ast.walk(dj) if isinstance(c, ast.Compare) and any(isinstance(x, ast.Constant) and x.value == "verbatim" for x in ast.walk(c))]
    ours = [c for c in ast.walk(f) if isinstance(c, ast.Compare) and any(isinstance(x, ast.Constant) and isinstance(x.value, str) and "verbatim" in x.value for x in ast.walk(c))]
    if not dj_tests:
        raise AnalysisError("verbatim-start test not found in django's Lexer.create_token")

    def shape(c: ast.Compare) -> str:
        import copy

        c2 = copy.deepcopy(c)
        # abstract the subject (`content` in Django, `<token>.contents` here)
        for n_ in ast.walk(c2):
            for fld, v in ast.iter_fields(n_):
                if isinstance(v, ast.AST) and (isinstance(v, ast.Name) or (isinstance(v, ast.Attribute) and v.attr == "contents")):
                    setattr(n_, fld, ast.Name(id="SUBJ", ctx=ast.Load()))
        return norm(c2)

    want = shape(dj_tests[0])
    if not ours:
        chk.undecided("S10", "util.template_parser:parse_template:verbatim-start-as-in-django", m.loc(f), "no test mentioning 'verbatim' in parse_template")
    else:
        got = [shape(c) for c in ours]
        ok = any(g == want for g in got)
        chk.ob("S10", "util.template_parser:parse_template:verbatim-start-as-in-django", m.loc(ours[0]), ok,
               f"the verbatim-start test is Django's own: `{want}`" if ok else
               f"the carried-over verbatim state is set on `{got[0]}`, Django's lexer decides on `{want}`: the two disagree for a tag name followed by a tab / newline (`{{% verbatim\\n \"x\" %}}`), after which every tag is emitted as TEXT and the template ends with 'Unclosed tag verbatim'")
    # Django: `self.verbatim = "end%s" % content` - the end marker is "end" + the WHOLE contents of the start tag
    dj_set = [a for a in ast.walk(dj) if isinstance(a, ast.Assign) and norm(a.targets[0]).endswith(".verbatim") and not isinstance(a.value, ast.Constant)]
    if not dj_set or not any(isinstance(x, ast.Constant) and isinstance(x.value, str) and x.value.startswith("end") for x in ast.walk(dj_set[0].value)) or not any(isinstance(x, ast.Name) for x in ast.walk(dj_set[0].value)):
        raise AnalysisError("`self.verbatim = 'end%s' % content` not found in django's Lexer.create_token")
    vname = None
    for c in calls(f):
        if last_attr(c.func) in ("DebugLexer", "Lexer"):
            continue
    # our carried-over state: the local whose value is handed to the restarted lexer's `.verbatim`
    carried = [s2 for s2 in stmts(f) if isinstance(s2, ast.Assign) and len(s2.targets) == 1 and isinstance(s2.targets[0], ast.Name) and any(isinstance(x, ast.Constant) and isinstance(x.value, str) and x.value.startswith("end") for x in ast.walk(s2.value))]
    if not carried:
        chk.undecided("S10", "util.template_parser:parse_template:verbatim-end-marker-as-in-django", m.loc(f), "no assignment builds an 'end...' marker in parse_template")
    else:
        v_ = carried[0].value
        arms = [v_.body] if isinstance(v_, ast.IfExp) else [v_]
        uses_contents = any(isinstance(x, ast.Attribute) and x.attr == "contents" for a_ in arms for x in ast.walk(a_))
        chk.ob("S10", "util.template_parser:parse_template:verbatim-end-marker-as-in-django", m.loc(carried[0]), uses_contents,
               "the end marker handed to the restarted lexer is 'end' + the start tag's contents, as in Django" if uses_contents else
               f"`{short(carried[0])}`: Django ends a verbatim block at the tag whose contents are 'end' + the WHOLE contents of the start tag (`{short(dj_set[0])}`), here the marker is a fixed text: `{{% verbatim \"x\" %}}..{{% endverbatim \"x\" %}}` (a named block, the reason the quote-aware path runs at all) is closed at an inner plain {{% endverbatim %}} or never ('Unclosed tag verbatim'), where stock Django renders it")
    # Django: `token_string[2:-2].strip()` - the no-argument strip (all Unicode whitespace)
    dj_strip = [c for c in ast.walk(dj) if isinstance(c, ast.Call) and isinstance(c.func, ast.Attribute) and c.func.attr == "strip"]
    dm, df = proj.func("util.template_parser", "_detailed_tag_parser")
    tok = [c for c in calls(df, "Token")]
    if not tok or len(tok[0].args) < 2 or not dj_strip:
        chk.undecided("S10", "util.template_parser:_detailed_tag_parser:contents-stripped-as-in-django", dm.loc(df), "Token(...) construction / django strip not found")
        return
    v = tok[0].args[1]
    src = v
    if isinstance(v, ast.Name):
        d = [x for _s, x in assignments(df, v.id) if x is not None]
        src = d[-1] if d else v
    strips = [c for c in ast.walk(src) if isinstance(c, ast.Call) and isinstance(c.func, ast.Attribute) and c.func.attr in ("strip", "lstrip", "rstrip")]
    want_n = len(dj_strip[0].args)
    ok = len(strips) == 1 and strips[0].func.attr == "strip" and len(strips[0].args) == want_n and not strips[0].keywords
    chk.ob("S10", "util.template_parser:_detailed_tag_parser:contents-stripped-as-in-django", dm.loc(strips[0]) if strips else dm.loc(tok[0]), ok,
           "the contents are stripped with the no-argument str.strip(), as Django's Lexer.create_token does" if ok else
           f"the contents are stripped with `{short(strips[0]) if strips else 'nothing'}`, Django strips with `.strip()` (all Unicode whitespace): a quoted tag with a non-breaking space / U+3000 next to a delimiter keeps it in its contents, which then differ from the span without delimiters and from stock Django's token")


def s17_handover_depends_on_the_token_alone(chk: Check, proj: Project, m, f) -> None:
    chk.rule("S17", "whether a tag is handed to the quote-aware scanner is decided by THAT token alone (it is a block tag and contains a quote): no loop-carried state ('we are inside {% comment %}', 'nothing interesting follows') switches the hand-over off - Django's own lexer has no such state either, and a quoted tag that is skipped is cut at a `%}` inside its string wherever it stands")
    # the hand-over point: the `break` that leaves the loop over the stock lexer's tokens with the token to be repaired
    loop = next((a for a in ast.walk(f) if isinstance(a, ast.For) and isinstance(a.target, ast.Name) and any(isinstance(b, ast.Break) for b in ast.walk(a))), None)
    brk = next((b for b in ast.walk(loop) if isinstance(b, ast.Break)), None) if loop is not None else None
    if loop is None or brk is None:
        chk.undecided("S17", "util.template_parser:parse_template:hand-over-by-token-alone", m.loc(f), "the token loop with its hand-over `break` was not found")
        return
    tv = loop.target.id
    carried = {t.id for st in ast.walk(f) if isinstance(st, (ast.Assign, ast.AugAssign, ast.AnnAssign)) for t in (st.targets if isinstance(st, ast.Assign) else [st.target]) if isinstance(t, ast.Name)} - {tv}
    cs = [brk]
    bad = []
    for e0, pol in flatten_conj(path_conditions(brk, upto=loop)):
        e = _inline_loop_temps(e0, loop)
        used = {x.id for x in ast.walk(e) if isinstance(x, ast.Name)} & carried
        if used:
            bad.append((e, sorted(used)))
    chk.ob("S17", "util.template_parser:parse_template:hand-over-by-token-alone", m.loc(bad[0][0]) if bad else m.loc(cs[0]), not bad,
           f"the hand-over is decided from `{tv}` alone" if not bad else
           f"`{short(bad[0][0])}` makes the hand-over depend on loop-carried state {bad[0][1]}: a quoted tag the flag excludes (e.g. between {{% comment %}} and {{% endcomment %}}) is tokenised by the stock lexer and cut at a `%}}` inside its string - with `\"%}}{{% endcomment %}}\"` in the string, text that should stay commented out is rendered")


def s15_source_not_rebound(chk: Check, proj: Project, m, f) -> None:
    chk.rule("S15", "the tokens partition the CALLER's source: the text that is lexed, sliced and measured is the parameter itself - it is never rebound to an edited copy (stripped BOM, normalised line ends ...), because every position and line number reported afterwards is read by the caller as an offset into the string it passed in")
    from ..astq import params as _params

    for fn in (f, proj.func("util.template_parser", "_detailed_tag_parser")[1]):
        src = _params(fn)[0]
        reb = [st for st in ast.walk(fn) if isinstance(st, (ast.Assign, ast.AugAssign, ast.AnnAssign)) and any(isinstance(t, ast.Name) and t.id == src for t in (st.targets if isinstance(st, ast.Assign) else [st.target]))]
        reb = [st for st in reb if not (isinstance(st, ast.Assign) and norm(st.value) == src)]
        chk.ob("S15", f"util.template_parser:{fn.name}:source-parameter-not-rebound", m.loc(reb[0]) if reb else m.loc(fn), not reb,
               f"`{src}` is only read" if not reb else
               f"`{short(reb[0])}` replaces the source by an edited copy before it is lexed: the tokens no longer cover the caller's string (the removed characters belong to no token), every position is shifted by the removed length and the last token ends before the end of the source - also for templates without any quoted tag, so the stream differs from stock Django's lexer")


def s8_patch_installed(chk: Check, proj: Project) -> None:
    chk.rule("S8", "the lexer patch is in place before any template can be compiled: ready() patches Template before it imports user modules; patching a class installs compile_nodelist unconditionally (an inherited 'already patched' flag must not skip it)")
    am, af = proj.func("apps", "ComponentsConfig.ready")
    chk.analysed(fkey(am, af))
    cfg = CFG(af)
    patch = [c for c in calls(af, "monkeypatch_template_cls")]
    importers = [c for c in calls(af) if last_attr(c.func) in ("import_libraries", "autodiscover", "_watch_component_files_for_autoreload")]
    if len(patch) != 1 or len(importers) < 2:
        chk.undecided("S8", "apps:ready:shape", am.loc(af), f"{len(patch)} patch calls, {len(importers)} importing calls")
    else:
        pn = cfg.node_containing(patch[0])
        dom = cfg.dominators()
        late = [c for c in importers if not any(p_ in dom.get(x, set()) for x in cfg.node_containing(c) for p_ in pn)]
        chk.ob("S8", "apps:ready:patch-before-imports", am.loc(late[0]) if late else am.loc(patch[0]), not late,
               "monkeypatch_template_cls(Template) dominates import_libraries() / autodiscover()" if not late else
               f"`{short(late[0])}` runs before Template is patched: a module imported there that builds a Template at import time has it lexed by stock Django (a `%}}` inside a quoted tag argument ends the tag)")
    mm, mf = proj.func("util.django_monkeypatch", "monkeypatch_template_cls")
    chk.analysed(fkey(mm, mf))
    inst = [c for c in calls(mf, "monkeypatch_template_compile_nodelist")]
    ok = len(inst) == 1 and enclosing_stmt(inst[0]) in mf.body and not any(isinstance(x, (ast.Return, ast.Raise)) for st in mf.body[: mf.body.index(enclosing_stmt(inst[0]))] for x in ast.walk(st))
    chk.ob("S8", "util.django_monkeypatch:monkeypatch_template_cls:installs-compile_nodelist-unconditionally", mm.loc(inst[0]) if inst else mm.loc(mf), ok,
           "compile_nodelist is installed for every class handed in" if ok else
           "the compile_nodelist patch can be skipped (early return / condition before it): a Template subclass that inherits the `_djc_patched` flag but defines its own compile_nodelist keeps the stock lexer while counting as patched")
    cm, cf = proj.func("util.django_monkeypatch", "monkeypatch_template_compile_nodelist")
    st = [x for x in stmts(cf) if isinstance(x, ast.Assign) and isinstance(x.targets[0], ast.Attribute) and x.targets[0].attr == "compile_nodelist"]
    ok2 = len(st) == 1 and st[0] in cf.body
    chk.ob("S8", "util.django_monkeypatch:monkeypatch_template_compile_nodelist:store-unconditional", cm.loc(st[0]) if st else cm.loc(cf), ok2, "template_cls.compile_nodelist is assigned at function level")
    inner = next((x for x in cf.body if isinstance(x, ast.FunctionDef)), None)
    ok3 = inner is not None and any(last_attr(c.func) == "parse_template" for c in calls(inner)) and not any(last_attr(c.func) in ("Lexer", "DebugLexer") for c in calls(inner))
    chk.ob("S8", "util.django_monkeypatch:_compile_nodelist:uses-parse_template", cm.loc(inner) if inner is not None else cm.loc(cf), ok3, "the installed compile_nodelist obtains its tokens from parse_template (never from a stock lexer)")


def s6(chk: Check, proj: Project, m, f) -> None:
    chk.rule("S6", "every token is shifted before the hand-over decision; the quote-aware scanner keeps every consumed character except the closing `%}` in the contents; a tag that is never closed raises")
    from ..cfg import CFG

    cfg = CFG(f)
    dom = cfg.dominators()
    shifts = [n for n in cfg.nodes if n.kind == "stmt" and isinstance(n.ast, (ast.Assign, ast.AugAssign)) and norm(n.ast.targets[0] if isinstance(n.ast, ast.Assign) else n.ast.target).endswith((".lineno", ".position"))]
    hand = [n for n in cfg.nodes if n.kind == "stmt" and isinstance(n.ast, ast.Assign) and isinstance(n.ast.value, ast.Name) and any(isinstance(a, ast.If) and any(isinstance(x, ast.Break) for x in a.body) for a in ancestors(n.ast)) and any(isinstance(a, ast.For) for a in ancestors(n.ast))]
    if len(shifts) < 2 or not hand:
        chk.undecided("S6", "util.template_parser:parse_template:shift-before-hand-over", m.loc(f), "shift statements / hand-over assignment not found")
    else:
        tok = norm(hand[0].ast.value)
        mine = [s for s in shifts if norm(s.ast.targets[0] if isinstance(s.ast, ast.Assign) else s.ast.target).startswith(tok + ".")]
        kinds = {norm(s.ast.targets[0] if isinstance(s.ast, ast.Assign) else s.ast.target).rsplit(".", 1)[1] for s in mine if cfg.dominates(s, hand[0], dom)}
        ok = kinds == {"lineno", "position"}
        chk.ob("S6", "util.template_parser:parse_template:shift-before-hand-over", m.loc(hand[0].ast), ok,
               "line number and position of a token are shifted before it can be handed to the quote-aware scanner" if ok else
               f"the token handed to the quote-aware scanner is not shifted in {sorted({'lineno', 'position'} - kinds)} before the hand-over: the fixed token (and every later token through the offset) reports a wrong line / position")
    dm, df = proj.func("util.template_parser", "_detailed_tag_parser")
    loop = next((x for x in body_walk(df) if isinstance(x, ast.While)), None)
    if loop is None:
        raise AnalysisError("_detailed_tag_parser: main loop vanished")
    rc = next((norm(c.func.value) for c in calls(df, "join") if False), None)
    # the accumulator: the list that is joined into the token contents
    acc = None
    for c in calls(df, "join"):
        if c.args and isinstance(c.args[0], ast.Name):
            acc = c.args[0].id
    lost = []
    for c in [x for x in calls(loop) if isinstance(x.func, ast.Name) and x.func.id in ("take_char", "take_until_any")]:
        par = parent(c)
        st = enclosing_stmt(c)
        kept = False
        if isinstance(par, ast.Call) and norm(par.func) == f"{acc}.append":
            kept = True
        elif isinstance(st, ast.Assign) and isinstance(st.targets[0], ast.Name):
            v = st.targets[0].id
            blk = next((b for a in ancestors(st) for b in (getattr(a, "body", None), getattr(a, "orelse", None)) if isinstance(b, list) and st in b), [])
            kept = any(isinstance(s2, ast.Expr) and isinstance(s2.value, ast.Call) and norm(s2.value.func) == f"{acc}.append" and s2.value.args and norm(s2.value.args[0]) == v for s2 in blk)
        # the closing `%}` is consumed without being kept: that is the statement list which itself ends in `break`
        own = next((b for a in ancestors(st) for b in (getattr(a, "body", None), getattr(a, "orelse", None)) if isinstance(b, list) and st in b), [])
        closing = bool(own) and isinstance(own[-1], ast.Break)
        if not kept and not closing:
            lost.append(c)
    chk.ob("S6", "util.template_parser:_detailed_tag_parser:consumed-text-kept", dm.loc(lost[0]) if lost else dm.loc(loop), not lost and acc is not None,
           f"every consumed piece inside the tag is appended to `{acc}` (only the closing `%}}` is dropped)" if not lost else
           f"`{short(lost[0])}` consumes text of the tag without appending it to `{acc}`: the token's contents no longer equal its span without delimiters")
    els = loop.orelse
    okr = bool(els) and any(isinstance(x, ast.Raise) and "TemplateSyntaxError" in norm(x) for x in els)
    chk.ob("S6", "util.template_parser:_detailed_tag_parser:unterminated-tag-raises", dm.loc(loop), okr,
           "running out of text before the closing `%}` raises TemplateSyntaxError (while ... else)" if okr else
           "the scanner no longer raises when the text ends before the tag is closed: it returns a BLOCK token that runs to the end of the source and swallows all following text")


def s1_s3(chk: Check, proj: Project, m, f) -> None:
    chk.rule("S1", "relexed tokens are shifted by the segment origin / the absolute line offset; the line offset is assigned (not accumulated) from absolute line - 1 + a newline count")
    chk.rule("S2", "the newline count is measured on raw text from the fixed token's start to the next segment's origin")
    chk.rule("S3", "the next segment starts where the last emitted token ends")
    # segment origin: lower bound of the slice handed to the stock lexer
    lex = [c for c in calls(f) if last_attr(c.func) in ("DebugLexer", "Lexer")]
    # the text the stock lexer works on in a round: its constructor argument, or the slice it is re-pointed at
    seg = None
    if len(lex) == 1 and lex[0].args and isinstance(lex[0].args[0], ast.Subscript) and isinstance(lex[0].args[0].slice, ast.Slice):
        seg = lex[0].args[0]
    else:
        rt = [s2.value for s2 in stmts(f) if isinstance(s2, ast.Assign) and isinstance(s2.targets[0], ast.Attribute) and s2.targets[0].attr == "template_string" and isinstance(s2.value, ast.Subscript) and isinstance(s2.value.slice, ast.Slice)]
        if len(rt) == 1:
            seg = rt[0]
    if seg is None:
        raise AnalysisError("parse_template: the text slice handed to the stock lexer was not found")
    sl = seg.slice
    origin = norm(sl.lower) if sl.lower is not None else None
    if origin is None:
        raise AnalysisError("parse_template: lexer slice has no lower bound")
    raw = norm(seg.value)
    # position shift
    pos = [s for s in stmts(f) if isinstance(s, ast.Assign) and norm(s.targets[0]).endswith(".position")]
    ok = bool(pos)
    for s in pos:
        v = s.value
        tok = norm(s.targets[0]).rsplit(".", 1)[0]
        good = isinstance(v, ast.Tuple) and len(v.elts) == 2 and all(norm(e) in (f"{tok}.position[{i}] + {origin}", f"{origin} + {tok}.position[{i}]") for i, e in enumerate(v.elts))
        ok = ok and good
    chk.ob("S1", "util.template_parser:parse_template:position-shift", m.loc(pos[0]) if pos else m.loc(f), ok, f"both position components are shifted by the segment origin `{origin}`" if ok else f"token.position is not shifted by the segment origin `{origin}` in both components: spans of later tokens are wrong")
    # lineno shift
    ln = [s for s in stmts(f) if isinstance(s, ast.AugAssign) and norm(s.target).endswith(".lineno")]
    ok = len(ln) == 1 and isinstance(ln[0].op, ast.Add) and isinstance(ln[0].value, ast.Name)
    lvar = norm(ln[0].value) if ok else "?"
    chk.ob("S1", "util.template_parser:parse_template:lineno-shift", m.loc(ln[0]) if ln else m.loc(f), ok, f"relative line numbers are shifted by `{lvar}`" if ok else "token.lineno of relexed tokens is not shifted by one line-offset variable")
    # the offset update after a fixed token
    upd = [s for s in stmts(f) if isinstance(s, (ast.Assign, ast.AugAssign)) and norm(s.targets[0] if isinstance(s, ast.Assign) else s.target) == lvar and any(isinstance(a, ast.While) for a in ancestors(s))]
    if len(upd) != 1:
        chk.undecided("S1", "util.template_parser:parse_template:line-offset-update", m.loc(f), f"expected one update of `{lvar}` inside the loop, found {len(upd)}")
        return
    u = upd[0]
    is_assign = isinstance(u, ast.Assign)
    chk.ob("S1", "util.template_parser:parse_template:line-offset-is-assigned", m.loc(u), is_assign,
           f"`{lvar}` is re-assigned from an absolute line number" if is_assign else f"`{short(u)}` ADDS an absolute line number to the absolute offset `{lvar}`: from the second quoted tag on every later token's line number is too large")
    rhs = u.value
    terms: List[ast.AST] = []

    def flat(e: ast.AST) -> None:
        if isinstance(e, ast.BinOp) and isinstance(e.op, (ast.Add, ast.Sub)):
            flat(e.left)
            terms.append(ast.UnaryOp(op=ast.USub(), operand=e.right) if isinstance(e.op, ast.Sub) else e.right) if False else None
            if isinstance(e.op, ast.Sub):
                terms.append(("-", e.right))  # type: ignore[arg-type]
            else:
                flat(e.right)
        else:
            terms.append(("+", e))  # type: ignore[arg-type]

    flat(rhs)
    plus = [t[1] for t in terms if isinstance(t, tuple) and t[0] == "+"]
    minus = [t[1] for t in terms if isinstance(t, tuple) and t[0] == "-"]
    abs_line = [t for t in plus if isinstance(t, ast.Attribute) and t.attr == "lineno"]
    counts = [t for t in plus if isinstance(t, ast.Call) and isinstance(t.func, ast.Attribute) and t.func.attr == "count"]
    one = [t for t in minus if isinstance(t, ast.Constant) and t.value == 1]
    ok = len(abs_line) == 1 and len(counts) == 1 and len(one) == 1 and len(plus) == 2 and len(minus) == 1
    chk.ob("S1", "util.template_parser:parse_template:line-offset-formula", m.loc(u), ok, "offset = <token>.lineno - 1 + <newline count>" if ok else f"`{short(u)}` is not `absolute line - 1 + newline count`")
    if not counts:
        return
    cnt = counts[0]
    counted = cnt.func.value  # type: ignore[union-attr]
    is_nl = bool(cnt.args) and isinstance(cnt.args[0], ast.Constant) and cnt.args[0].value == "\n"
    is_raw_slice = isinstance(counted, ast.Subscript) and isinstance(counted.slice, ast.Slice) and norm(counted.value) == raw
    chk.ob("S2", "util.template_parser:parse_template:count-on-raw-text", m.loc(cnt), is_nl and is_raw_slice,
           f"newlines are counted on a slice of the raw `{raw}`" if is_nl and is_raw_slice else f"newlines are counted on `{short(counted)}`, which is not a slice of the raw source (stripped / normalised text loses leading and trailing newlines of the tag): later line numbers shift")
    # origin update
    org = [s for s in stmts(f) if isinstance(s, ast.Assign) and norm(s.targets[0]) == origin and any(isinstance(a, ast.While) for a in ancestors(s))]
    okc = len(org) == 1 and norm(org[0].value).endswith(".position[1]")
    fixed = norm(org[0].value).rsplit(".position", 1)[0] if okc else "?"
    # ... and that token is the one appended last
    apps = [c for c in calls(f, "append") if c.args and norm(c.args[0]) == fixed]
    okc = okc and bool(apps) and apps[-1].lineno < org[0].lineno
    chk.ob("S3", "util.template_parser:parse_template:next-origin-is-end-of-last-token", m.loc(org[0]) if org else m.loc(f), okc, f"`{origin}` = `{fixed}.position[1]`, the end of the token just emitted" if okc else "the next segment's origin is not the end position of the last emitted token")
    if is_raw_slice and okc:
        lo, hi = counted.slice.lower, counted.slice.upper  # type: ignore[union-attr]
        # lower bound: start of the fixed token (the value passed as its start index); upper: the new origin
        start_names = set()
        for c in calls(f, "_detailed_tag_parser"):
            if len(c.args) >= 3:
                start_names.add(norm(c.args[2]))
        lo_ok = lo is not None and (norm(lo) in start_names or norm(lo) == f"{fixed}.position[0]")
        hi_ok = hi is not None and (norm(hi) == origin and org[0].lineno < u.lineno or norm(hi) == f"{fixed}.position[1]")
        chk.ob("S2", "util.template_parser:parse_template:count-span", m.loc(cnt), lo_ok and hi_ok,
               f"the counted span runs from the fixed token's start `{norm(lo)}` to the next origin `{norm(hi)}`" if lo_ok and hi_ok else
               f"the newline count spans `{norm(lo) if lo is not None else ''}:{norm(hi) if hi is not None else ''}`, not [start of the fixed token : next segment origin]: newlines of the tag beyond that span are lost and later tokens report too small line numbers")
    # absolute line used is the fixed token's own
    if abs_line:
        chk.ob("S1", "util.template_parser:parse_template:absolute-line-of-fixed-token", m.loc(u), norm(abs_line[0]).rsplit(".", 1)[0] == fixed, f"the absolute line is `{norm(abs_line[0])}`")
    # the quote-aware scanner gets the slice origin as its start index and the absolute line
    dm, df = proj.func("util.template_parser", "_detailed_tag_parser")
    for c in calls(f, "_detailed_tag_parser"):
        a0 = c.args[0] if c.args else None
        okk = isinstance(a0, ast.Subscript) and isinstance(a0.slice, ast.Slice) and a0.slice.lower is not None and len(c.args) >= 3 and norm(a0.slice.lower) == norm(c.args[2]) and norm(a0.value) == raw
        chk.ob("S1", "util.template_parser:parse_template:scanner-origin", m.loc(c), okk, "the scanner's start index is the lower bound of the slice it is given" if okk else "the scanner is given a slice and a start index that do not coincide")
    tk = [c for c in calls(df, "Token")]
    okk = False
    ps = params(df)
    for c in tk:
        if len(c.args) >= 4 and isinstance(c.args[2], ast.Tuple) and len(c.args[2].elts) == 2:
            a, b = norm(c.args[2].elts[0]), norm(c.args[2].elts[1])
            okk = a == ps[2] and b in (f"index + {ps[2]}", f"{ps[2]} + index") and norm(c.args[3]) == ps[1]
    chk.ob("S1", "util.template_parser:_detailed_tag_parser:token-coordinates", dm.loc(tk[0]) if tk else dm.loc(df), okk, "Token(position=(start, index + start), lineno=<given>)" if okk else "the fixed token's position / line are not (start, start + consumed, given line)")


def _inline_loop_temps(e: ast.AST, loop: ast.AST, depth: int = 0) -> ast.AST:
    """`e` with every local that has exactly ONE definition in the function (a call-free expression) replaced by that
    definition - so that `has_quote = <test>; if .. and has_quote` reads like the inlined test."""
    import copy

    fn = next((a for a in ancestors(loop) if isinstance(a, (ast.FunctionDef, ast.AsyncFunctionDef))), loop)
    e2 = copy.deepcopy(e)
    if depth > 3:
        return e2

    class _T(ast.NodeTransformer):
        def visit_Name(self, n: ast.Name) -> ast.AST:
            if not isinstance(n.ctx, ast.Load):
                return n
            defs = [st for st in ast.walk(fn) if isinstance(st, (ast.Assign, ast.AnnAssign, ast.AugAssign, ast.For, ast.NamedExpr)) and any(isinstance(t, ast.Name) and t.id == n.id for tt in ((st.targets if isinstance(st, ast.Assign) else [st.target])) for t in ast.walk(tt))]
            if len(defs) == 1 and isinstance(defs[0], (ast.Assign, ast.AnnAssign)) and defs[0].value is not None and any(defs[0] is x for x in ast.walk(loop)) and not any(isinstance(x, (ast.Call, ast.Await, ast.Yield)) for x in ast.walk(defs[0].value)):
                return _inline_loop_temps(defs[0].value, loop, depth + 1)
            return n

    return ast.fix_missing_locations(_T().visit(e2))


def s4(chk: Check, proj: Project, m, f) -> None:
    chk.rule("S4", "the hand-over condition is exactly: BLOCK token AND a quote character in its contents")
    ifs = [s for s in stmts(f) if isinstance(s, ast.If) and any(isinstance(x, ast.Break) for x in s.body) and any(isinstance(a, ast.For) for a in ancestors(s)) and any(isinstance(x, ast.Assign) and isinstance(x.value, ast.Name) for x in s.body)]
    if len(ifs) != 1:
        raise AnalysisError("parse_template: hand-over test not found")
    _lp4 = next((a for a in ancestors(ifs[0]) if isinstance(a, ast.For)), None)
    t = _inline_loop_temps(ifs[0].test, _lp4) if _lp4 is not None else ifs[0].test
    atoms = flatten_conj([(t, True)])
    loopv = next((norm(a.target) for a in ancestors(ifs[0]) if isinstance(a, ast.For)), "token")
    is_block = [a for a, pol in atoms if pol and isinstance(a, ast.Compare) and norm(a) == f"{loopv}.token_type == TokenType.BLOCK"]
    quote = [a for a, pol in atoms if pol and isinstance(a, ast.BoolOp) and isinstance(a.op, ast.Or) and {norm(v) for v in a.values} == {norm(ast.parse(f"\"'\" in {loopv}.contents", mode="eval").body), norm(ast.parse(f"'\"' in {loopv}.contents", mode="eval").body)}]
    extra = [a for a, pol in atoms if not any(a is x for x in is_block + quote)]
    key = "util.template_parser:parse_template:hand-over-condition"
    if extra:
        chk.violated("S4", key, m.loc(ifs[0]), f"the hand-over to the quote-aware scanner additionally requires `{short(extra[0])}`: a tag with a quoted `%}}` that does not satisfy it is cut at that `%}}` like stock Django does")
    elif not is_block or not quote:
        chk.violated("S4", key, m.loc(ifs[0]), f"the hand-over test `{short(t)}` is not `BLOCK and (single or double quote in contents)`: quote-free templates are no longer lexed by stock Django alone, or quoted tags are not fixed")
    else:
        chk.holds("S4", key, m.loc(ifs[0]), "tokens are handed over exactly when they are BLOCK tokens containing a quote; everything else is stock DebugLexer output shifted by the origin")
    # nothing else produces tokens
    toks = [c for mm, q, fn in proj.all_funcs() if mm is m for c in calls(fn, "Token")]
    chk.ob("S4", "util.template_parser:token-producers", m.loc(f), len(toks) == 1, f"{len(toks)} Token(...) construction site(s) in the module (the quote-aware scanner)")


def s5(chk: Check, proj: Project) -> None:
    chk.rule("S5", "outside quoted strings the scanner's skip sets contain `%` (a `%}` can never be skipped); a lone `%` consumes one character; in strings a backslash escapes exactly one (any) character")
    m, f = proj.func("util.template_parser", "_detailed_tag_parser")
    chk.analysed(fkey(m, f))
    loop = next((x for x in body_walk(f) if isinstance(x, ast.While)), None)
    if loop is None:
        raise AnalysisError("_detailed_tag_parser: main loop vanished")
    env = {}
    for n in f.body:
        if isinstance(n, ast.Assign) and isinstance(n.targets[0], ast.Name) and n.targets[0].id.isupper():
            ok, v = proj.try_fold(m, n.value, env)
            if ok:
                env[n.targets[0].id] = v
    n_sites = 0
    for c in calls(loop, "take_until_any"):
        n_sites += 1
        atoms = cond_atoms(enclosing_stmt(c))
        in_string = any(pol and "in QUOTE_CHARS" in t for t, pol in atoms)
        ok, stops = proj.try_fold(m, c.args[0], env) if c.args else (False, None)
        key = f"util.template_parser:_detailed_tag_parser:{short(c, 50)}"
        if in_string:
            esc = kwarg(c, "allow_escapes")
            chk.ob("S5", key, m.loc(c), isinstance(esc, ast.Constant) and esc.value is True, "string body: scans to the matching quote with escapes allowed")
            continue
        if not ok:
            chk.undecided("S5", key, m.loc(c), "stop characters are not a foldable constant")
            continue
        vis = "%" in stops
        chk.ob("S5", key, m.loc(c), vis, f"skips until one of {sorted(stops)}: `%` stops the skip" if vis else
               f"outside a string the scanner skips until {sorted(stops)} -- `%` is not a stop character, so after a lone `%` the real closing `%}}` is skipped and the tag swallows the following text up to the next quote")
    chk.floor("S5", n_sites, 2)
    # escape pair
    pm, pf = proj.func("util.template_parser", "_compile_take_until_pattern")
    retv = next((a.id for r in ast.walk(pf) if isinstance(r, ast.Return) and isinstance(r.value, ast.Call) for a in r.value.args if isinstance(a, ast.Name)), "pattern")
    pats = [n for n in body_walk(pf) if isinstance(n, ast.Assign) and norm(n.targets[0]) == retv]
    esc_var = next((n.targets[0].id for n in body_walk(pf) if isinstance(n, ast.Assign) and isinstance(n.targets[0], ast.Name) and "re.escape" in norm(n.value)), "escaped_stops")
    esc_pat = None
    for a in pats:
        at = cond_atoms(a)
        if any(pol and t == "allow_escapes" for t, pol in at):
            okf, v = proj.try_fold(pm, a.value, {esc_var: "'"})
            if okf:
                esc_pat = v
    if esc_pat is None:
        chk.undecided("S5", "util.template_parser:_compile_take_until_pattern:escape-pair", pm.loc(pf), "escape-aware pattern not found / not foldable")
        return
    tree = list(sre_parse.parse(esc_pat))
    good = False
    if len(tree) == 1 and str(tree[0][0]) in ("MAX_REPEAT",) and tree[0][1][1] == MAXREPEAT:
        body = list(tree[0][1][2])
        if len(body) == 1 and str(body[0][0]) == "SUBPATTERN":
            body = list(body[0][1][-1])
        if len(body) == 1 and str(body[0][0]) == "BRANCH":
            alts = [list(x) for x in body[0][1][1]]
            good = any(len(x) == 2 and str(x[0][0]) == "LITERAL" and x[0][1] == 92 and str(x[1][0]) == "ANY" for x in alts) and any(len(x) == 1 and str(x[0][0]) in ("IN", "NOT_LITERAL") for x in alts)
    chk.ob("S5", "util.template_parser:_compile_take_until_pattern:escape-pair", pm.loc(pf), good, f"escape-aware pattern {esc_pat!r}: backslash + ANY character is consumed as a pair" if good else
           f"escape-aware pattern {esc_pat!r} does not consume `backslash + any character` as a pair: a string ending in an escaped backslash (\"C:\\\\\\\\\") makes the closing quote look escaped")


MANIFEST = {
    "text": "Decides the frame discipline of parse_template's two-lexer hand-over: which variable is the segment origin and that every relexed token is shifted by it; that the line offset is assigned from an absolute line plus a newline count measured on raw text over exactly [fixed token start, next origin]; contiguity of segments; the exact hand-over condition (so quote-free sources get the stock token stream); and which characters the quote-aware scanner may skip (a `%` is never skipped outside strings; escapes are pairs). Also: every token is shifted before the hand-over decision and the scanner keeps every consumed character; the lexer's verbatim state is defined per hand-over round and carried across it; Template is patched before ready() imports user modules and compile_nodelist is installed unconditionally. Round 4: no token of the stock lexer is skipped; no escape processing outside quoted strings. Round 5: the token type / verbatim decision is Django's own (shape compared with the installed Lexer.create_token). Round 6: the language of the string-body pattern contains every escaped pair (backslash + any character, newline included) and every non-quote character. Round 7: bounds freshness of the quote-aware scanner's reads (shared with C12-S2b).",
    "note": "Trusted: DebugLexer reports positions/lines relative to the slice it is given. Not decided: contents vs span equality; handling of unterminated constructs.",
    "technique": "static frame/coordinate-role checks via def-use, condition-atom comparison, regex parse-tree shape",
}
