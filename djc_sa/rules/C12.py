"""C12 — parsing terminates with success or TemplateSyntaxError (DESIGN.md section 3, C12).

S1 loop progress: every path of every scanner loop that returns to the loop head advanced the cursor by >= 1 (proved
   from facts about the unchanged cursor position) or changed the loop's own measure / exit flag.
S2 exception discipline: explicit raises in the parsing scope are TemplateSyntaxError (reviewed exceptions listed);
   text subscripts are guarded by the matching not-at-end test; container-dependent table lookups are dominated by the
   container-type test.
S3 recursion over input nesting is bounded: a depth check that raises TemplateSyntaxError dominates every push.
S4 regexes applied to tag/template text are at most quadratic (ambiguity degree <= 2, star height <= 1).
"""
from __future__ import annotations

import ast
from typing import Any, Dict, FrozenSet, List, Optional, Set, Tuple

from ..astq import assignments, calls, exc_class_of_raise, params, raises_in, stmts
from ..callgraph import fkey
from ..cfg import always_exits, CFG, cond_atoms, flatten_conj, path_conditions
from ..regexlang import ambiguity
from ..report import Check
from ..scanprog import Facts, LoopProgress, ScanModel
from ..source import AnalysisError, FuncNode, Module, Project, ancestors, body_walk, dotted, enclosing_func, enclosing_stmt, last_attr, norm, parent, qual_of, short, walk_no_nested
from .common import world

# raises in the parsing scope that are not TemplateSyntaxError, reviewed (function, class) -> reason
RAISE_OK = {
    ("component", "ComponentNode.parse", "RuntimeError"): "conflicting registries / end tags for one start tag: depends on the program's registrations, not on the tag text",
    ("tag_formatter", "InternalTagFormatter._validate_tag", "ValueError"): "validates the dispatched tag word / a configured constant, not user tag text",
    ("node", "NodeMeta.__new__", "ValueError"): "class definition time",
    ("node", "NodeMeta.__new__", "TypeError"): "class definition time",
}
SCOPE_MODULES = ["util.tag_parser", "util.template_parser"]
SCOPE_FUNCS = [
    ("util.template_tag", "parse_template_tag"), ("util.template_tag", "_extract_flags"), ("node", "BaseNode.parse"), ("component", "ComponentNode.parse"),
    ("tag_formatter", "ComponentFormatter.parse"), ("tag_formatter", "ShorthandComponentFormatter.parse"),
    ("tag_formatter", "InternalTagFormatter.parse"), ("tag_formatter", "InternalTagFormatter._validate_tag"),
    ("expression", "DynamicFilterExpression.__init__"), ("expression", "is_dynamic_expression"),
]


def run(chk: Check, proj: Project) -> None:
    chk.explanation = (
        "Termination and error discipline of the hand-written scanners: a disjunctive fact analysis proves that each "
        "loop iteration consumes input or changes the loop's measure on every path back to the loop head; raises are "
        "classified; text subscripts are matched with their bounds guard; pushes are dominated by the depth limit; "
        "regex worst cases are bounded from the parse tree."
    )
    chk.not_decided = ["the serialise / re-parse round trip (equality of runtime values)", "wall-clock bounds"]
    chk.trusted_base = ["Django's own Lexer / Parser terminate", "Python str slicing semantics"]
    w = world(proj)
    s1_tag_parser(chk, proj)
    s1_char_scanner(chk, proj)
    s1_parse_template(chk, proj, w)
    s2_raises(chk, proj, w)
    s2_subscripts(chk, proj)
    s3_depth(chk, proj, w)
    s4_regex(chk, proj)
    s5_faithful(chk, proj)
    s5b_serialize_order(chk, proj)
    s6_container_loop(chk, proj)
    s13_close_matches_open(chk, proj)
    s14_constant_index_guarded(chk, proj)
    s15_offset_index_guarded(chk, proj)
    s16_children_serialised_once(chk, proj)
    s11_builtins_fed_with_tag_text(chk, proj)
    s7_foreign_leaks(chk, proj)
    s8_built_patterns(chk, proj)
    s9_none_before_check(chk, proj)
    from . import C10

    chk.borrow("S10", "the patched Template.compile_nodelist keeps Django's error handling: only Parser.parse() runs inside the try whose handler reads `e.token` (the library's own tokenizer errors carry no token) (shared with C10-S1)",
               lambda sub: C10.s1(sub, proj), only=lambda o: "compile_nodelist" in o.construct)


# ---------------------------------------------------------------------------------------------
# S1: tag scanner
# ---------------------------------------------------------------------------------------------
class TagModel(ScanModel):
    def __init__(self, proj: Project, mod: Module, func: FuncNode):
        super().__init__(proj, mod, func)
        self.spread = tuple(self.fold(ast.Name(id="TAG_SPREAD", ctx=ast.Load()))[1] or ())
        self.rewound_vars = {
            n.value.args[0].id for n in ast.walk(func)
            if isinstance(n, ast.AugAssign) and isinstance(n.op, ast.Sub) and norm(n.target) == "index" and isinstance(n.value, ast.Call)
            and norm(n.value.func) == "len" and n.value.args and isinstance(n.value.args[0], ast.Name)
        }

    def tokens(self, e: Optional[ast.AST]) -> Optional[Tuple[str, ...]]:
        if e is None:
            return None
        ok, v = self.fold(e)
        if ok and isinstance(v, (list, tuple)) and all(isinstance(x, str) for x in v):
            return tuple(v)
        # union over the possible values of local tuple variables (terminal_tokens)
        if isinstance(e, ast.BinOp) and isinstance(e.op, ast.Add):
            l, r = self.tokens(e.left), self.tokens(e.right)
            return None if l is None or r is None else l + r
        if isinstance(e, ast.Name):
            out: Tuple[str, ...] = ()
            asg = assignments(self.func, e.id, nested=True)
            if not asg:
                return None
            for _st, val in asg:
                t = self.tokens(val) if val is not None else None
                if t is None:
                    return None
                out += t
            return out
        if isinstance(e, ast.Call) and isinstance(e.func, ast.Name) and e.func.id == "tuple" and not e.args:
            return ()
        return None

    @staticmethod
    def known_not_next(tok: str, st: Facts) -> bool:
        return any(tok.startswith(p) for p in st.not_next if p)

    def atom(self, e: ast.AST, st: Facts) -> List[Tuple[bool, Facts]]:
        if isinstance(e, ast.Call) and isinstance(e.func, ast.Name):
            if e.func.id == "is_at_end" and not e.args and not e.keywords:
                if st.not_at_end:
                    return [(False, st)]
                if st.flag("at_end"):
                    return [(True, st)]
                return [(True, st.set_flag("at_end", True)), (False, st.with_(not_at_end=True))]
            if e.func.id == "is_next_token" and e.args:
                toks = self.tokens(e.args[0])
                if toks is None:
                    return [(True, st.with_(not_at_end=True)), (False, st)]
                if st.flag("at_end") or all(self.known_not_next(t, st) for t in toks):
                    return [(False, st.with_(not_next=st.not_next | frozenset(toks)))]
                return [(True, st.with_(not_at_end=True).set_flag("at_end", None)), (False, st.with_(not_next=st.not_next | frozenset(toks)))]
        if isinstance(e, ast.Name) and st.flag("empty:" + e.id) is not None:
            return [(not st.flag("empty:" + e.id), st)]
        if isinstance(e, ast.Compare) and isinstance(e.left, ast.Call) and norm(e.left.func) == "len" and e.left.args and isinstance(e.left.args[0], ast.Name) and norm(e) == f"len({e.left.args[0].id}) > 0" and st.flag("nonempty:" + e.left.args[0].id):
            return [(True, st)]
        return super().atom(e, st)

    def effect(self, call: ast.Call, st: Facts) -> Optional[List[Any]]:
        if not isinstance(call.func, ast.Name):
            return None
        fn = call.func.id
        C = st.consumed()
        if fn == "add_token" and call.args:
            a = call.args[0]
            if isinstance(a, ast.Constant) and isinstance(a.value, str) and a.value:
                return [C]
            return [C] if st.not_at_end else [C, st]
        if fn == "taken_n":
            return [C] if st.not_at_end else ([st] if st.flag("at_end") else [C, st])
        if fn == "take_while" and call.args:
            toks = self.tokens(call.args[0])
            zero = st.with_(not_next=st.not_next | frozenset(toks or ()))
            # after consuming, the primitive still stops only where none of the tokens is next
            after = C.with_(not_next=frozenset(toks or ()))
            if toks is not None and (st.flag("at_end") or all(self.known_not_next(t, st) for t in toks)):
                return [zero]
            return [after, zero]
        if fn == "take_until" and call.args:
            toks = self.tokens(call.args[0])
            out = [C]
            if not (toks is not None and st.not_at_end and all(self.known_not_next(t, st) for t in toks)):
                out.append(st)
            # lookahead idiom: `v = take_until(L)` ... `index -= len(v)`
            stp = parent(call)
            if isinstance(stp, ast.Assign) and isinstance(stp.targets[0], ast.Name) and stp.targets[0].id in self.rewound_vars and toks is not None:
                v = stp.targets[0].id
                out = [st.set_flag("empty:" + v, True), C.set_flag("empty:" + v, False).set_flag("rewind:" + v, (st.prog, frozenset(toks) | st.not_next))]
            return out
        if fn == "extract_spread_token":
            return [C, st.with_(not_next=st.not_next | frozenset(self.spread))]
        return None

    def stmt_effect(self, node: ast.AST, st: Facts) -> Optional[List[Any]]:
        if isinstance(node, ast.Assign) and len(node.targets) == 1 and isinstance(node.targets[0], ast.Name) and isinstance(node.value, ast.Constant) and isinstance(node.value.value, bool):
            return [st.set_flag(node.targets[0].id, node.value.value)]
        # stack = [x]: the container loop runs at least once
        if isinstance(node, ast.Assign) and len(node.targets) == 1 and isinstance(node.targets[0], ast.Name) and isinstance(node.value, ast.List) and node.value.elts:
            return [st.set_flag("nonempty:" + node.targets[0].id, True)]
        if isinstance(node, ast.Expr) and isinstance(node.value, ast.Call) and isinstance(node.value.func, ast.Attribute) and node.value.func.attr == "pop" and isinstance(node.value.func.value, ast.Name):
            return [st.set_flag("nonempty:" + node.value.func.value.id, None)]
        # index -= len(v): undo the lookahead
        if isinstance(node, ast.AugAssign) and isinstance(node.op, ast.Sub) and norm(node.target) == "index" and isinstance(node.value, ast.Call) and norm(node.value.func) == "len" and node.value.args and isinstance(node.value.args[0], ast.Name):
            v = node.value.args[0].id
            if st.flag("empty:" + v) is True:
                return [st]  # nothing was taken, nothing to undo
            saved = st.flag("rewind:" + v)
            if saved is None:
                # a rewind we cannot account for: all progress is void
                return [Facts(prog=False, flags=st.flags)]
            prog0, notnext = saved
            # v was non-empty: the text is not at its end there and no token of L starts at that position
            return [Facts(prog=prog0, not_at_end=True, not_next=notnext, flags=frozenset((n, x) for n, x in st.flags if not n.startswith("rewind:")))]
        return None


def _check_primitives(chk: Check, m: Module, f: FuncNode) -> Dict[str, FuncNode]:
    """Shape checks that justify the semantic summaries of the tag scanner's primitives."""
    prim = {n.name: n for n in body_walk(f) if isinstance(n, ast.FunctionDef)}
    need = ["add_token", "is_at_end", "is_next_token", "taken_n", "take_until", "take_while", "extract_spread_token"]
    for nme in need:
        if nme not in prim:
            raise AnalysisError(f"parse_tag: primitive `{nme}` vanished")

    def ok(name: str, cond: bool, why: str) -> None:
        chk.ob("S1", f"util.tag_parser:parse_tag.{name}:summary-justified", m.loc(prim[name]), True if cond else None, why if cond else f"primitive `{name}` no longer has the shape its summary assumes ({why})", nontrivial=False)

    a = prim["add_token"]
    ok("add_token", any(isinstance(n, ast.AugAssign) and norm(n.target) == "index" and isinstance(n.op, ast.Add) and norm(n.value) == f"len({params(a)[0]})" for n in body_walk(a)), "index += len(token)")
    e = prim["is_at_end"]
    rets = [n for n in body_walk(e) if isinstance(n, ast.Return)]
    ok("is_at_end", len(rets) == 1 and norm(rets[0].value) in ("index + offset >= len(text)", "index >= len(text)"), "returns index + offset >= len(text)")
    t = prim["taken_n"]
    ok("taken_n", any(isinstance(c.args[0] if c.args else None, ast.Name) for c in calls(t, "add_token")) and any("text[index:index + n]" in norm(n) for n in body_walk(t)), "add_token(text[index:index+n])")
    tw = prim["take_while"]
    ok("take_while", len([n for n in body_walk(tw) if isinstance(n, ast.While)]) == 1 and bool(calls(tw, "is_next_token")) and bool(calls(tw, "add_token")), "loop: add_token(char) while is_next_token(tokens)")
    tu = prim["take_until"]
    ok("take_until", len([n for n in body_walk(tu) if isinstance(n, ast.While)]) == 1 and any(norm(c.args[0]) == params(tu)[0] for c in calls(tu, "is_next_token") if c.args), "loop: stop when is_next_token(tokens)")
    es = prim["extract_spread_token"]
    consuming = [c for c in calls(es) if isinstance(c.func, ast.Name) and c.func.id in ("taken_n", "take_while", "take_until", "add_token")]
    spv = next((norm(r.value) for r in ast.walk(es) if isinstance(r, ast.Return) and isinstance(r.value, ast.Name)), "spread_token")
    guarded = all(any(pol and f"{spv} is not None" in t for t, pol in cond_atoms(enclosing_stmt(c))) for c in consuming)
    first_test = any(isinstance(n, ast.Assign) and isinstance(n.value, ast.Call) and norm(n.value) == "is_next_token(TAG_SPREAD)" for n in body_walk(es))
    ok("extract_spread_token", bool(consuming) and guarded and first_test, "consumes only under `spread_token is not None`, which requires is_next_token(TAG_SPREAD)")
    # is_next_token: true only if some token matches character by character under a bounds test
    nt = prim["is_next_token"]
    ok("is_next_token", any(isinstance(n, ast.Return) and isinstance(n.value, ast.Constant) and n.value.value is False for n in ast.walk(nt)) and "is_at_end" in norm(nt), "compares text[index + i] under a not-at-end test")
    return prim


def s1_tag_parser(chk: Check, proj: Project) -> None:
    chk.rule("S1", "every path of a scanner loop back to its head consumed >= 1 character (proved from facts about the unchanged cursor) or changed the loop's measure")
    m, f = proj.func("util.tag_parser", "parse_tag")
    chk.analysed(fkey(m, f))
    prim = _check_primitives(chk, m, f)
    n = 0
    # main loops of parse_tag + loops of the helper primitives
    targets: List[Tuple[FuncNode, ast.While]] = [(f, l) for l in body_walk(f) if isinstance(l, ast.While)]
    for p in prim.values():
        targets += [(p, l) for l in body_walk(p) if isinstance(l, ast.While)]
    entries: Dict[int, Set[Facts]] = {}
    # outer loops first so that nested loops get their entry states
    targets.sort(key=lambda t: sum(1 for a in ancestors(t[1]) if isinstance(a, ast.While)))
    for fn, loop in targets:
        n += 1
        model = TagModel(proj, m, f)
        cfg = CFG(fn)
        test_vars = {x.id for x in ast.walk(loop.test) if isinstance(x, ast.Name)}

        def measure(node: ast.AST, st: Facts, loop: ast.While = loop, test_vars: Set[str] = test_vars) -> bool:
            # exit flag of this loop set to a constant that makes the test false
            if isinstance(node, ast.Assign) and len(node.targets) == 1 and isinstance(node.targets[0], ast.Name) and node.targets[0].id in test_vars and isinstance(node.value, ast.Constant):
                t = loop.test
                if isinstance(t, ast.UnaryOp) and isinstance(t.op, ast.Not) and norm(t.operand) == node.targets[0].id and node.value.value is True:
                    return True
            return False

        lp = LoopProgress(model, cfg, loop, measure)
        bad = lp.run(entries.get(id(loop)))
        # nested loops of this one are analysed from the states they are really entered with
        for hid, sts in lp.nested_entries.items():
            owner = next(nn.meta.get("owner") for nn in cfg.nodes if nn.id == hid)
            entries.setdefault(id(owner), set()).update(sts)
        chk.paths += lp.explored
        key = f"util.tag_parser:{qual_of(fn)}:while {short(loop.test, 40)}"
        if bad:
            st, path = bad[0]
            chk.violated("S1", key, m.loc(loop), f"a path through the loop returns to `while {short(loop.test, 40)}` without consuming input or changing its measure: " + " -> ".join(path[-6:]) + f" (facts at the back edge: {st!r}): the scanner hangs on such input",
                         detail={"path": path, "zero_progress_paths": len(bad)})
        else:
            chk.holds("S1", key, m.loc(loop), f"all paths back to the loop head make progress ({lp.explored} abstract states explored)")
    chk.floor("S1-tag-loops", n, 5)


# ---------------------------------------------------------------------------------------------
# S1: character scanner (_detailed_tag_parser)
# ---------------------------------------------------------------------------------------------
class CharModel(ScanModel):
    def __init__(self, proj: Project, mod: Module, func: FuncNode):
        super().__init__(proj, mod, func)
        self.length_var = next((n.targets[0].id for n in func.body if isinstance(n, ast.Assign) and isinstance(n.targets[0], ast.Name) and norm(n.value) == "len(text)"), "length")

    def charset(self, e: ast.AST) -> Optional[FrozenSet[str]]:
        ok, v = self.fold(e)
        if ok and isinstance(v, str) and len(v) == 1:
            return frozenset({v})
        if ok and isinstance(v, (tuple, list)) and all(isinstance(x, str) and len(x) == 1 for x in v):
            return frozenset(v)
        return None

    def atom(self, e: ast.AST, st: Facts) -> List[Tuple[bool, Facts]]:
        if isinstance(e, ast.Compare) and len(e.ops) == 1:
            l, op, r = e.left, e.ops[0], e.comparators[0]
            if norm(l) == "index" and isinstance(r, ast.Name) and r.id == self.length_var and isinstance(op, ast.Lt):
                return [(True, st.with_(not_at_end=True)), (False, st)]
            if isinstance(l, ast.Name) and st.flag("curvar") == l.id:
                s = self.charset(r)
                if s is not None and isinstance(op, (ast.In, ast.Eq)):
                    res = []
                    if st.cur_in is None or (st.cur_in & s):
                        if not (s <= st.cur_notin):
                            res.append((True, st.with_(cur_in=(st.cur_in & s) if st.cur_in is not None else s)))
                    if st.cur_in is None or not (st.cur_in <= s):
                        res.append((False, st.with_(cur_notin=st.cur_notin | s)))
                    return res or [(False, st)]
        return super().atom(e, st)

    def effect(self, call: ast.Call, st: Facts) -> Optional[List[Any]]:
        if not isinstance(call.func, ast.Name):
            return None
        fn = call.func.id
        C = st.consumed()
        if fn == "take_char":
            return [C] if st.not_at_end else [C, st]
        if fn == "take_until_any" and call.args:
            stops = self.charset(call.args[0])
            if stops is not None and st.not_at_end and ((st.cur_in is not None and not (st.cur_in & stops)) or stops <= st.cur_notin):
                return [C]
            return [C, st]
        return None

    def stmt_effect(self, node: ast.AST, st: Facts) -> Optional[List[Any]]:
        # char = peek_char()  -> `char` is the character at the cursor
        if isinstance(node, ast.Assign) and isinstance(node.targets[0], ast.Name) and isinstance(node.value, ast.Call) and norm(node.value) == "peek_char()":
            return [st.set_flag("curvar", node.targets[0].id)]
        return None


def s1_char_scanner(chk: Check, proj: Project) -> None:
    m, f = proj.func("util.template_parser", "_detailed_tag_parser")
    chk.analysed(fkey(m, f))
    prim = {n.name: n for n in body_walk(f) if isinstance(n, ast.FunctionDef)}
    for nme in ("take_char", "peek_char", "take_until_any"):
        if nme not in prim:
            raise AnalysisError(f"_detailed_tag_parser: primitive `{nme}` vanished")
    tc = prim["take_char"]
    okc = any(isinstance(n, ast.AugAssign) and norm(n.target) == "index" and isinstance(n.op, ast.Add) and norm(n.value) == "1" for n in body_walk(tc))
    chk.ob("S1", "util.template_parser:_detailed_tag_parser.take_char:summary-justified", m.loc(tc), True if okc else None, "index += 1 unless at end", nontrivial=False)
    pk = prim["peek_char"]
    okp = any(isinstance(n, ast.Return) and n.value is not None and norm(n.value).startswith("text[") for n in body_walk(pk))
    chk.ob("S1", "util.template_parser:_detailed_tag_parser.peek_char:summary-justified", m.loc(pk), True if okp else None, "returns text[index + offset]", nontrivial=False)
    tu = prim["take_until_any"]
    # consumes the longest prefix matched by the pattern compiled from the stop characters, at the cursor
    oku = any(isinstance(c.func, ast.Attribute) and c.func.attr == "match" and len(c.args) == 2 and norm(c.args[1]) == "index" for c in calls(tu)) and bool(calls(tu, "_compile_take_until_pattern"))
    chk.ob("S1", "util.template_parser:_detailed_tag_parser.take_until_any:summary-justified", m.loc(tu), True if oku else None, "pattern.match(text, index) with the pattern built from the stop characters", nontrivial=False)
    # the compiled pattern is a negated class of the stop chars (so a non-stop char at the cursor is consumed)
    pm, pf = proj.func("util.template_parser", "_compile_take_until_pattern")
    src = norm(pf)
    okp2 = ("[^{" in src and "}]*" in src) and "re.escape" in src
    chk.ob("S1", "util.template_parser:_compile_take_until_pattern:negated-class", pm.loc(pf), True if okp2 else None, "pattern is `[^<escaped stops>]*` (optionally with `\\\\.` alternatives)", nontrivial=False)
    loops = [l for l in body_walk(f) if isinstance(l, ast.While)]
    if len(loops) != 1:
        raise AnalysisError(f"_detailed_tag_parser: expected one main loop, found {len(loops)}")
    model = CharModel(proj, m, f)
    lp = LoopProgress(model, CFG(f), loops[0], lambda n, s: False)
    bad = lp.run()
    chk.paths += lp.explored
    key = "util.template_parser:_detailed_tag_parser:while index < length"
    if bad:
        st, path = bad[0]
        chk.violated("S1", key, m.loc(loops[0]), "a path through the tag scanner's loop consumes nothing: " + " -> ".join(path[-5:]) + f" (known about the current character: in={sorted(st.cur_in) if st.cur_in is not None else '?'}, not in={sorted(st.cur_notin)}): parse_template() hangs on such a tag", detail={"path": path})
    else:
        chk.holds("S1", key, m.loc(loops[0]), f"every path consumes at least the current character ({lp.explored} abstract states)")


def s1_parse_template(chk: Check, proj: Project, w) -> None:
    m, f = proj.func("util.template_parser", "parse_template")
    chk.analysed(fkey(m, f))
    loops = [l for l in body_walk(f) if isinstance(l, ast.While)]
    if len(loops) != 1:
        raise AnalysisError("parse_template: expected one loop")
    loop = loops[0]
    cfg = CFG(f)
    head = next(n for n in cfg.nodes if n.kind == "test" and n.meta.get("owner") is loop)
    var = norm(loop.test.left) if isinstance(loop.test, ast.Compare) else None
    adv = {n for n in cfg.nodes if n.kind == "stmt" and isinstance(n.ast, ast.Assign) and norm(n.ast.targets[0]) == var and any(a is loop for a in ancestors(n.ast))}
    # every path from the loop body back to the head passes an assignment of the loop variable
    seen = set()
    todo = [s for s, lab in head.succ if lab == "T"]
    bypass = False
    while todo:
        n = todo.pop()
        if n.id in seen or n in adv:
            continue
        seen.add(n.id)
        if n is head:
            bypass = True
            break
        todo.extend(s for s, lab in n.succ if lab not in ("x", "p"))
    srcs = [norm(n.ast.value) for n in adv]
    ok = not bypass and bool(adv) and all("position[1]" in s for s in srcs)
    chk.ob("S1", "util.template_parser:parse_template:while index_start < index_end", m.loc(loop), ok,
           f"every iteration that continues re-assigns `{var}` from the end position of the token it emitted ({srcs})" if ok else f"an iteration can return to the loop head without advancing `{var}`")


# ---------------------------------------------------------------------------------------------
def _scope(proj: Project) -> List[Tuple[Module, str, FuncNode]]:
    out = []
    for mn in SCOPE_MODULES:
        mm = proj.mod(mn)
        out += [(mm, q, f) for q, f in mm.funcs()]
    for mn, q in SCOPE_FUNCS:
        r = proj.try_func(mn, q)
        if r is None:
            raise AnalysisError(f"anchor vanished: {mn}:{q}")
        out.append((r[0], q, r[1]))
    return out


def s2_raises(chk: Check, proj: Project, w) -> None:
    chk.rule("S2a", "every explicit raise in the parsing scope is TemplateSyntaxError (reviewed exceptions: guards that do not depend on the tag text)")
    n = 0
    for m, q, f in _scope(proj):
        chk.analysed(fkey(m, f))
        for r in [x for x in body_walk(f) if isinstance(x, ast.Raise)]:
            n += 1
            cls = exc_class_of_raise(r)
            key = f"{m.name.replace('django_components.', '')}:{q}:{short(r, 70)}"
            top = q.split(".")[0] + ("." + q.split(".")[1] if "." in q and q.split(".")[0][0].isupper() else "")
            if cls == "TemplateSyntaxError":
                chk.holds("S2a", key, m.loc(r), "TemplateSyntaxError", nontrivial=False)
            elif cls is None:
                chk.holds("S2a", key, m.loc(r), "re-raise", nontrivial=False)
            else:
                why = RAISE_OK.get((m.name.replace("django_components.", ""), q, cls)) or RAISE_OK.get((m.name.replace("django_components.", ""), top, cls))
                if why:
                    chk.holds("S2a", key, m.loc(r), f"reviewed: {why}", nontrivial=False)
                else:
                    chk.violated("S2a", key, m.loc(r), f"`{short(r)}` in the parsing scope raises {cls}: malformed tag text reaches the caller as {cls} instead of TemplateSyntaxError")
        for a in [x for x in body_walk(f) if isinstance(x, ast.Assert)]:
            n += 1
            chk.violated("S2a", f"{m.name.replace('django_components.', '')}:{q}:{short(a, 70)}", m.loc(a),
                         f"`{short(a)}` in the parsing scope: when the condition fails the caller sees AssertionError, not TemplateSyntaxError (and nothing at all under `python -O`) - e.g. `{{% slot | %}}`: Django dispatches on the first word `slot`, the library's parser attaches the lone `|` to it")
    chk.floor("S2a", n, 45)


def s2_subscripts(chk: Check, proj: Project) -> None:
    chk.rule("S2b", "text[<index expr>] is read only under the not-at-end test for the same offset; stack[-1] / values_parts[-1] / meta[...] under their non-empty / container-type facts")
    n = 0
    for mn, q in (("util.tag_parser", "parse_tag"), ("util.template_parser", "_detailed_tag_parser")):
        m, f = proj.func(mn, q)
        for sub in [x for x in ast.walk(f) if isinstance(x, ast.Subscript) and isinstance(x.ctx, ast.Load) and norm(x.value) == "text" and not isinstance(x.slice, ast.Slice)]:
            n += 1
            idx = norm(sub.slice)
            atoms = cond_atoms(sub)
            fn = enclosing_func(sub)
            okk = False
            why = ""
            if idx == "index":
                # the not-at-end fact must still be FRESH: walking backwards from the read, the nearest event is a bounds test
                # (an exiting `if is_at_end()` before it, or an enclosing if / while that tests it), not a call that consumes text
                CONSUMERS = ("taken_n", "take_char", "take_until", "take_while", "take_until_any", "add_token", "extract_spread_token")

                def _is_bounds_test(t: ast.expr, want_true_branch: bool) -> bool:
                    for e_, pol_ in flatten_conj([(t, want_true_branch)]):
                        tx = norm(e_)
                        if (tx == "is_at_end()" and not pol_) or (tx.startswith("index >= ") and not pol_) or (tx.startswith("index < ") and pol_):
                            return True
                    return False

                okk = False
                node_: ast.AST = sub
                decided = False
                while not decided and not isinstance(node_, (ast.FunctionDef, ast.AsyncFunctionDef)):
                    par_ = parent(node_)
                    if par_ is None:
                        break
                    for fld in ("body", "orelse", "finalbody"):
                        blk = getattr(par_, fld, None)
                        if isinstance(blk, list) and node_ in blk:
                            for prev in reversed(blk[: blk.index(node_)]):
                                if isinstance(prev, ast.If) and always_exits(prev.body) and not prev.orelse and _is_bounds_test(prev.test, False):
                                    okk, decided = True, True
                                    break
                                if any((isinstance(c_, ast.Call) and last_attr(c_.func) in CONSUMERS) or (isinstance(c_, ast.AugAssign) and norm(c_.target) == "index") for c_ in ast.walk(prev)):
                                    okk, decided = False, True
                                    break
                            if not decided and isinstance(par_, (ast.If, ast.While)):
                                if _is_bounds_test(par_.test, fld == "body"):
                                    okk, decided = True, True
                                elif any(isinstance(c_, ast.Call) and last_attr(c_.func) in CONSUMERS for c_ in ast.walk(par_.test)):
                                    okk, decided = False, True
                            break
                    node_ = par_
                why = "`not is_at_end()` / `index < length`"
            elif idx.startswith("index + "):
                off = idx[len("index + "):]
                okk = any(t == f"is_at_end({off})" and not pol for t, pol in atoms)
                why = f"`not is_at_end({off})`"
            elif isinstance(sub.slice, ast.Name):
                # text[v]: guarded by `v >= <len(text) var>` being false / `v < <len var>` being true
                okk = any((t.startswith(f"{idx} >= ") and not pol) or (t.startswith(f"{idx} < ") and pol) for t, pol in atoms)
                why = f"`{idx} < len(text)`"
            key = f"{mn}:{qual_of(sub)}:text[{idx}]"
            chk.ob("S2b", key, m.loc(sub), okk, f"text[{idx}] is read under {why}" if okk else f"text[{idx}] is read without the bounds test for that offset ({why} expected; conditions: {atoms[:3]}): a tag ending in a prefix of a multi-character token raises IndexError instead of TemplateSyntaxError")
    m, f = proj.func("util.tag_parser", "parse_tag")
    for sub in [x for x in ast.walk(f) if isinstance(x, ast.Subscript) and isinstance(x.slice, ast.Constant) and x.slice.value == "expects_key" and isinstance(x.ctx, ast.Load)]:
        n += 1
        atoms = cond_atoms(sub)
        base = norm(sub.value).rsplit(".meta", 1)[0]
        okk = any(pol and t == f"{base}.type == 'dict'" for t, pol in atoms) or any((not pol) and t == f"{base}.type != 'dict'" for t, pol in atoms)
        chk.ob("S2b", f"util.tag_parser:parse_tag:{short(enclosing_stmt(sub), 60)}", m.loc(sub), okk, f"`{norm(sub)}` is read only where {base}.type == 'dict'" if okk else f"`{norm(sub)}` can be read for a non-dict container: KeyError instead of TemplateSyntaxError")
    # the same for the helper that inspects every compiled value: a constant index into the value needs a non-empty / length fact
    em, ef = proj.func("expression", "is_dynamic_expression")
    chk.analysed(fkey(em, ef))
    for sub in [x for x in ast.walk(ef) if isinstance(x, ast.Subscript) and isinstance(x.ctx, ast.Load) and isinstance(x.value, ast.Name) and not isinstance(x.slice, ast.Slice) and (isinstance(x.slice, ast.Constant) or (isinstance(x.slice, ast.UnaryOp) and isinstance(x.slice.operand, ast.Constant)))]:
        n += 1
        v_ = x_v = sub.value.id
        srcs = {v_} | {y.id for _s, val in assignments(ef, v_) if val is not None for y in ast.walk(val) if isinstance(y, ast.Name)}
        okk = any(((t.startswith("len(") and any(t.startswith(f"len({s_})") for s_ in srcs) and "<" in t and not pol) or (t in {f"not {s_}" for s_ in srcs} and not pol) or (t in srcs and pol)) for t, pol in cond_atoms(sub))
        chk.ob("S2b", f"expression:is_dynamic_expression:{norm(sub)}", em.loc(sub), okk,
               f"`{norm(sub)}` is read only for a value known to be non-empty / long enough" if okk else
               f"`{norm(sub)}` is read without a non-empty / length fact for `{x_v}` (conditions: {cond_atoms(sub)[:3]}): an EMPTY expression text - what is left of `items=[*]` or `attrs={{**}}` after the spread token is cut off - raises IndexError when the tag's values are compiled")
    chk.floor("S2b", n, 8)
    # every spread token has a container check
    chk.rule("S2c", "every token of TAG_SPREAD has a branch in extract_spread_token that raises unless the container type matches")
    es = next(x for x in body_walk(f) if isinstance(x, ast.FunctionDef) and x.name == "extract_spread_token")
    ok_, spread = proj.try_fold(m, m.global_value("TAG_SPREAD"))
    for tok in spread or ():
        br = [x for x in ast.walk(es) if isinstance(x, ast.If) and norm(x.test) == f"is_next_token([{tok!r}])".replace("'", "'")]
        br = br or [x for x in ast.walk(es) if isinstance(x, ast.If) and isinstance(x.test, ast.Call) and norm(x.test.func) == "is_next_token" and x.test.args and proj.try_fold(m, x.test.args[0]) == (True, [tok])]
        okk = bool(br) and any(isinstance(s, ast.If) and ".type !=" in norm(s.test) and any(isinstance(r, ast.Raise) for r in s.body) for s in br[0].body)
        chk.ob("S2c", f"util.tag_parser:extract_spread_token:{tok}", m.loc(br[0]) if br else m.loc(es), okk, f"spread token {tok!r} is rejected outside its container type" if okk else f"spread token {tok!r} has no container-type check")


def s3_depth(chk: Check, proj: Project, w) -> None:
    chk.rule("S3", "recursion over the nesting of list/dict literals is bounded: in the container loop a depth test that raises TemplateSyntaxError dominates every push onto the container stack")
    m, f = proj.func("util.tag_parser", "parse_tag")
    # recursion exists? (serialize / compile / resolve call themselves through entries)
    cyc = []
    for q in ("TagValueStruct.serialize", "TagValueStruct.compile", "TagValueStruct.resolve"):
        r = proj.try_func("util.tag_parser", q)
        if r and any(isinstance(c.func, ast.Attribute) and c.func.attr == q.split(".")[1] for c in calls(r[1], nested=True)):
            cyc.append(q)
    cfg = CFG(f)
    dom = cfg.dominators()
    stk = next((x.test.left.args[0].id for x in body_walk(f) if isinstance(x, ast.While) and isinstance(x.test, ast.Compare) and isinstance(x.test.left, ast.Call) and norm(x.test.left.func) == "len" and x.test.left.args and isinstance(x.test.left.args[0], ast.Name)), "stack")
    pushes = [c for c in calls(f) if isinstance(c.func, ast.Attribute) and c.func.attr == "append" and norm(c.func.value) == stk]
    guards = [n for n in cfg.nodes if n.kind == "test" and n.ast is not None and f"len({stk})" in norm(n.ast) and any(isinstance(x, ast.Compare) and isinstance(x.ops[0], (ast.Gt, ast.GtE)) for x in ast.walk(n.ast))]
    guards = [g for g in guards if isinstance(g.meta.get("owner"), ast.If) and any(isinstance(r, ast.Raise) and exc_class_of_raise(r) == "TemplateSyntaxError" for r in g.meta["owner"].body)]
    if not cyc:
        chk.holds("S3", "util.tag_parser:no-recursion", m.loc(f), "no recursion over TagValueStruct entries")
        return
    chk.floor("S3-pushes", len(pushes), 2)
    for c in pushes:
        pn = cfg.node_containing(c)
        # dominated within the same loop iteration: the guard must dominate the push and lie inside the same loop
        loop = next((a for a in ancestors(c) if isinstance(a, ast.While)), None)
        ok = any(cfg.dominates(g, p, dom) and any(a is loop for a in ancestors(g.ast)) for g in guards for p in pn)
        chk.ob("S3", f"util.tag_parser:parse_tag:{short(enclosing_stmt(c), 40)}:depth-limited", m.loc(c), ok,
               "push is dominated by the MAX_NESTING_DEPTH test of the same iteration" if ok else f"`{short(enclosing_stmt(c))}` is not dominated by a depth limit: {', '.join(cyc)} recurse once per nesting level, so a deeply nested literal raises RecursionError from Template(source)")


def s4_regex(chk: Check, proj: Project) -> None:
    chk.rule("S4", "regexes applied to tag / template text have ambiguity degree <= 2 (at most quadratic backtracking) and no overlapping nested stars")
    n = 0
    for mn in ("expression", "util.template_parser", "util.tag_parser", "tag_formatter", "node", "util.template_tag"):
        m = proj.mod(mn)
        for name, sts in m.assigns.items():
            v = m.global_value(name)
            if isinstance(v, ast.Call) and dotted(v.func) == "re.compile" and v.args:
                ok, pat = proj.try_fold(m, v.args[0])
                if not ok:
                    chk.undecided("S4", f"{mn}:{name}", m.loc(v), "pattern is not a foldable constant")
                    continue
                n += 1
                # how is it used?
                uses = [norm(x.func.attr) for mm in proj.modules.values() for x in ast.walk(mm.tree) if isinstance(x, ast.Call) and isinstance(x.func, ast.Attribute) and norm(x.func.value).split(".")[-1] == name]
                unanch = any(u in ("search", "finditer", "sub", "findall", "split") for u in uses)
                a = ambiguity(pat, 0, unanchored=unanch)
                good = a["degree"] <= 2 and a["star_height"] <= 1
                chk.ob("S4", f"{mn}:{name}", m.loc(v), good,
                       f"degree {a['degree']} (repeats {a['repeats']}, {'unanchored' if unanch else 'anchored/match'}), star height {a['star_height']}" if good else
                       f"{name} has {a['repeats']} sequential unbounded repeats that overlap their continuation (degree {a['degree']}): matching a failing input of length n backtracks ~n^{a['degree']} times", detail=a)
    chk.floor("S4", n, 2)


def s5b_serialize_order(chk: Check, proj: Project) -> None:
    chk.rule("S5b", "TagValuePart.serialize wraps inside-out: quotes, then the translation `_( )`, then the spread / filter prefix in front of everything")
    m, f = proj.func("util.tag_parser", "TagValuePart.serialize")
    rets = [r for r in stmts(f) if isinstance(r, ast.Return) and isinstance(r.value, ast.Name)]
    if not rets:
        chk.undecided("S5b", "util.tag_parser:TagValuePart.serialize:shape", m.loc(f), "no `return <name>`")
        return
    v = rets[-1].value.id
    steps = []
    for st, val in assignments(f, v):
        t = norm(val) if val is not None else ""
        kind = "quote" if "self.quoted" in t else "translation" if "_(" in t else "prefix" if ("self.filter" in t or "self.spread" in t or "prefix" in t) else "other"
        # a prefix step must PREPEND to the current value
        if kind == "prefix" and not (isinstance(val, ast.JoinedStr) and isinstance(val.values[-1], ast.FormattedValue) and norm(val.values[-1].value) == v):
            kind = "prefix-misplaced"
        steps.append((st.lineno, kind))
    order = [k for _l, k in sorted(steps)]
    tr = [i for i, k in enumerate(order) if k == "translation"]
    pf = [i for i, k in enumerate(order) if k.startswith("prefix")]
    ok = bool(tr) and bool(pf) and max(tr) < min(pf) and "prefix-misplaced" not in order
    chk.ob("S5b", "util.tag_parser:TagValuePart.serialize:wrap-order", m.loc(f), ok, f"wrapping steps in order: {order}" if ok else
           f"the serialisation steps are {order}: a filter / spread prefix is applied before (inside) the translation wrapper, so `name|default:_(\"x\")` serialises to text that re-parses to different arguments")


def s8_built_patterns(chk: Check, proj: Project) -> None:
    chk.rule("S8", "the scanner's patterns that are BUILT at run time (from the stop characters) cannot backtrack exponentially: an alternation whose branches overlap (`\\\\.|[^q]` both start with a backslash) under a star is the LAST thing in the pattern - nothing after it can fail and force the star to try its other readings")
    import re._parser as sre  # type: ignore[import-not-found]

    m, f = proj.func("util.template_parser", "_compile_take_until_pattern")
    chk.analysed(fkey(m, f))
    n = 0
    for st in [x for x in stmts(f) if isinstance(x, ast.Assign) and isinstance(x.value, ast.JoinedStr)]:
        # instantiate the f-string with a representative stop set
        txt = ""
        okf = True
        for v in st.value.values:
            if isinstance(v, ast.Constant):
                txt += str(v.value)
            elif isinstance(v, ast.FormattedValue) and isinstance(v.value, ast.Name):
                txt += "'\""
            else:
                okf = False
        if not okf:
            chk.undecided("S8", f"util.template_parser:_compile_take_until_pattern:{short(st, 50)}", m.loc(st), "pattern template not instantiable")
            continue
        try:
            tree = list(sre.parse(txt))
        except Exception as e:  # noqa: BLE001
            chk.undecided("S8", f"util.template_parser:_compile_take_until_pattern:{short(st, 50)}", m.loc(st), f"pattern does not parse: {e}")
            continue
        n += 1
        bad = None
        for i, (op, arg) in enumerate(tree):
            if str(op) in ("MAX_REPEAT", "MIN_REPEAT") and arg[1] == sre.MAXREPEAT:
                inner = list(arg[2])
                # unwrap a non-capturing group
                while len(inner) == 1 and str(inner[0][0]) == "SUBPATTERN":
                    inner = list(inner[0][1][-1])
                amb = False
                if len(inner) == 1 and str(inner[0][0]) == "BRANCH":
                    firsts = []
                    for alt in inner[0][1][1]:
                        alt = list(alt)
                        if not alt:
                            continue
                        fo, fa = alt[0]
                        from ..regexlang import charset

                        try:
                            firsts.append(charset(fo, fa, False, 0))
                        except Exception:  # noqa: BLE001
                            firsts.append(None)
                    for a_ in range(len(firsts)):
                        for b_ in range(a_ + 1, len(firsts)):
                            if firsts[a_] is None or firsts[b_] is None or (firsts[a_] & firsts[b_]):
                                amb = True
                if amb and i != len(tree) - 1:
                    bad = tree[i + 1]
        chk.ob("S8", f"util.template_parser:_compile_take_until_pattern:{short(st, 50)}", m.loc(st), bad is None,
               "no overlapping alternation under a star is followed by anything that can fail" if bad is None else
               f"in `{txt}` the star over overlapping alternatives (a backslash is read both as `\\\\.` and as `[^..]`) is followed by `{str(bad[0])}`, which can fail: on an unterminated string followed by n backslashes the matcher tries Fibonacci(n) readings (0.3 s at 28, no answer at 56) inside a single re.match")
    chk.floor("S8", n, 2)


def s9_none_before_check(chk: Check, proj: Project) -> None:
    chk.rule("S9", "a value that may be None (no component name given) is not handed to string helpers before the test that raises TemplateSyntaxError for it")
    from ..cfg import CFG

    m, f = proj.func("tag_formatter", "ComponentFormatter.parse")
    chk.analysed(fkey(m, f))
    maybe_none = sorted({t.id for st in stmts(f) for t, v in [(t, getattr(st, "value", None)) for t in (st.targets if isinstance(st, ast.Assign) else [])] if isinstance(t, ast.Name) and isinstance(v, ast.Constant) and v.value is None})
    cfg = CFG(f)
    dom = cfg.dominators()
    n = 0
    for v in maybe_none:
        guards = [nd for nd in cfg.nodes if nd.kind == "test" and nd.ast is not None and norm(nd.ast) in (f"not {v}", v, f"{v} is None", f"{v} is not None")
                  and any(isinstance(r, ast.Raise) and exc_class_of_raise(r) == "TemplateSyntaxError" for r in ast.walk(nd.meta.get("owner"))) ] if True else []
        uses = [c for c in calls(f) if any(isinstance(a, ast.Name) and a.id == v for a in c.args) and not (isinstance(c.func, ast.Attribute) and c.func.attr in ("append",))]
        uses += [x for x in ast.walk(f) if isinstance(x, ast.Subscript) and isinstance(x.value, ast.Name) and x.value.id == v and isinstance(x.ctx, ast.Load)]
        for u in uses:
            n += 1
            un = cfg.node_containing(u)
            # guarded if the path condition of the use says `<v>` is truthy (an enclosing `if <v>:` or an earlier
            # `if not <v>: raise`), or a raising guard dominates it
            ok = any((pol and t in (v, f"{v} is not None")) or ((not pol) and t in (f"not {v}", f"{v} is None")) for t, pol in cond_atoms(enclosing_stmt(u))) \
                or (bool(guards) and all(any(cfg.dominates(g, x, dom) for g in guards) for x in un))
            chk.ob("S9", f"tag_formatter:ComponentFormatter.parse:{short(u, 40)}:after-none-check", m.loc(u), ok,
                   f"`{short(u)}` runs only after the `{v}` test that raises TemplateSyntaxError" if ok else
                   f"`{short(u)}` receives `{v}`, which is None when the tag has keyword arguments but no `name=`: `{{% component key=\"value\" / %}}` fails with AttributeError / TypeError out of Template() instead of TemplateSyntaxError")
    chk.floor("S9", n, 1)


def _django_leaky_helpers() -> Dict[str, str]:
    """Methods of django.template.base.Token that can let StopIteration escape: a bare `next(it)` outside any try (read
    from the installed Django source, parsed, not imported)."""
    import importlib.util

    spec = importlib.util.find_spec("django.template.base")
    if spec is None or not spec.origin:
        raise AnalysisError("django.template.base not found")
    tree = ast.parse(open(spec.origin).read())
    out: Dict[str, str] = {}
    for c in [x for x in ast.walk(tree) if isinstance(x, ast.ClassDef) and x.name == "Token"]:
        for fn in [x for x in c.body if isinstance(x, ast.FunctionDef)]:
            for par in ast.walk(fn):
                for ch in ast.iter_child_nodes(par):
                    ch.parent = par  # type: ignore[attr-defined]
            for call in [x for x in ast.walk(fn) if isinstance(x, ast.Call) and isinstance(x.func, ast.Name) and x.func.id == "next" and len(x.args) == 1]:
                p_ = call
                guarded = False
                while p_ is not None and p_ is not fn:
                    if isinstance(p_, ast.Try):
                        guarded = True
                    p_ = getattr(p_, "parent", None)
                if not guarded:
                    out[fn.name] = f"Token.{fn.name} line {call.lineno}: bare next() - StopIteration escapes when the tag text ends early (e.g. an unterminated `_(\"...\"`)"
    return out


def s11_builtins_fed_with_tag_text(chk: Check, proj: Project) -> None:
    chk.rule("S11", "tag text never becomes an argument of a builtin that VALIDATES its argument and raises its own exception type: the name handed to the three-argument `type(...)` in the parsing scope (it refuses NUL characters with ValueError) is built from the tag's registered start tag, not from the component name read from the template")
    n = 0
    for m, q, f in _scope(proj):
        ps = params(f)
        for c in [x for x in body_walk(f) if isinstance(x, ast.Call) and isinstance(x.func, ast.Name) and x.func.id == "type" and len(x.args) == 3]:
            n += 1
            chk.analysed(fkey(m, f))
            # names the first argument depends on, through local definitions
            deps: Set[str] = set()
            todo_ = [c.args[0]]
            seen_: Set[str] = set()
            while todo_:
                e_ = todo_.pop()
                for x in ast.walk(e_):
                    if isinstance(x, ast.Name) and x.id not in seen_:
                        seen_.add(x.id)
                        if x.id in ps:
                            deps.add(x.id)
                        for _s2, v2 in assignments(f, x.id):
                            if v2 is not None:
                                todo_.append(v2)
            # parameters that carry text from the template: the component name (and the token / parser themselves)
            text_params = {p_ for p_ in deps if p_ in ("name", "token", "parser", "comp_name", "component_name", "text", "contents")}
            chk.ob("S11", f"{m.name.replace('django_components.', '')}:{q}:type-name-not-from-tag-text", m.loc(c), not text_params,
                   f"the class name depends on {sorted(deps) or 'constants'} only" if not text_params else
                   f"`{short(c, 70)}` names the class after `{', '.join(sorted(text_params))}`, text taken from the template: `{{% component \"a\\x00b\" %}}` as the first component tag compiled makes type() raise ValueError ('type name must not contain null characters') instead of TemplateSyntaxError")
    chk.floor("S11", n, 1)


_FIXTURE_OFFSET = "def f(xs):\n    for i in range(0, len(xs), 2):\n        k, v = xs[i], xs[i + 1]\n"


def _offset_reads(fn: ast.AST) -> List[Tuple[ast.Subscript, str]]:
    """Reads `<list>[<name> + k]` / `<list>[<name> - k]` (k a positive constant) of a local list other than the scanned text."""
    out = []
    for x in ast.walk(fn):
        if isinstance(x, ast.Subscript) and isinstance(x.ctx, ast.Load) and isinstance(x.value, ast.Name) and isinstance(x.slice, ast.BinOp) and isinstance(x.slice.op, (ast.Add, ast.Sub)):
            l, r = x.slice.left, x.slice.right
            if isinstance(l, ast.Name) and isinstance(r, ast.Constant) and isinstance(r.value, int) and r.value > 0:
                out.append((x, x.value.id))
    return out


def s15_offset_index_guarded(chk: Check, proj: Project) -> None:
    chk.rule("S15", "pairwise walks over a list built from the tag's text (`xs[i], xs[i + 1]`) read the neighbour only under a bounds fact about that list (`i + 1 < len(xs)`, or an even-length check that raises TemplateSyntaxError first): a dictionary literal whose last key has its colon but no value (`{\"a\": }`) otherwise ends in IndexError")
    fx = ast.parse(_FIXTURE_OFFSET)
    if len(_offset_reads(fx)) != 1:
        raise AnalysisError("C12-S15 positive fixture no longer matches: rule is broken")
    m = proj.mod("util.tag_parser")
    n = 0
    for q, f in sorted(m.defs.items()):
        if not isinstance(f, ast.FunctionDef) or isinstance(getattr(f, "parent", None), ast.FunctionDef):
            continue
        for x, base in _offset_reads(f):
            if base in ("text",):
                continue  # S2b's subject
            n += 1
            facts = [norm(e) for e, pol in flatten_conj(path_conditions(x)) if f"len({base})" in norm(e)]
            chk.ob("S15", f"util.tag_parser:{q}:{norm(x)}:neighbour-read-in-bounds", m.loc(x), bool(facts),
                   f"`{norm(x)}` is read under `{facts[0]}`" if facts else
                   f"`{norm(x)}` reads the neighbour of the loop position without any fact about `len({base})`: when the tag's text leaves the list with an odd number of entries (a key with its colon but no value) the parser dies with IndexError instead of TemplateSyntaxError")
    chk.holds("S15", "fixture:offset-read", "fixture.py:3", f"positive fixture matched (rule is alive); {n} such read(s) on the tree", nontrivial=False)


def s16_children_serialised_once(chk: Check, proj: Project) -> None:
    chk.rule("S16", "serialising a nested list / dict literal is linear in its size: on every path through TagValueStruct.serialize each child is handed to the recursive step at most once (two loops over `self.entries` that both recurse, not in mutually exclusive branches, double the work per nesting level - 2^depth at template-compile time for a literal well under the depth limit)")
    m = proj.mod("util.tag_parser")
    f = m.func("TagValueStruct.serialize")
    chk.analysed(fkey(m, f))
    helpers = {x.name for x in ast.walk(f) if isinstance(x, ast.FunctionDef) and x is not f and any(isinstance(c, ast.Call) and isinstance(c.func, ast.Attribute) and c.func.attr == "serialize" for c in ast.walk(x))}
    sites = []
    for x in ast.walk(f):
        it = None
        body = None
        if isinstance(x, (ast.ListComp, ast.GeneratorExp, ast.SetComp)):
            it, body = x.generators[0].iter, x.elt
        elif isinstance(x, ast.For):
            it, body = x.iter, x
        if it is None or "entries" not in norm(it):
            continue
        if any(isinstance(c, ast.Call) and ((isinstance(c.func, ast.Name) and c.func.id in helpers) or (isinstance(c.func, ast.Attribute) and c.func.attr == "serialize")) for c in ast.walk(body)):
            sites.append(x)
    chk.floor("S16", len(sites), 2)

    def conds(x):
        return {(norm(e), pol) for e, pol in flatten_conj(path_conditions(x, upto=f))}

    clash = None
    for i_, a in enumerate(sites):
        for b in sites[i_ + 1:]:
            ca, cb = conds(a), conds(b)
            exclusive = any((t, not p_) in cb for t, p_ in ca)
            if not exclusive and not any(a is y for y in ast.walk(b)) and not any(b is y for y in ast.walk(a)):
                clash = clash or (a, b)
    chk.ob("S16", "util.tag_parser:TagValueStruct.serialize:each-child-recursed-once", m.loc(clash[1]) if clash else m.loc(f), clash is None,
           f"the {len(sites)} recursive loops over the entries stand in mutually exclusive branches" if clash is None else
           f"`{short(clash[0], 60)}` and `{short(clash[1], 60)}` both recurse into every child on the same path: serialising a dict literal nested d levels deep costs 2^d - `Template()` needs seconds for 18 levels and does not come back for 25, far below the nesting limit")


def s14_constant_index_guarded(chk: Check, proj: Project) -> None:
    chk.rule("S14", "in the tag front end (tag formatter, parse_template_tag) an element taken at a constant position (`xs[0]`, `xs[-1]`) of a list that comes from the tag's text is read only under a non-emptiness fact about that SAME list (`if not xs: raise TemplateSyntaxError`, `len(xs)`, `if xs`): a bare `{% component %}`, or a tag whose last attribute is the empty literal `[]` / `{}`, otherwise ends in IndexError instead of TemplateSyntaxError")
    n = 0
    for mn in ("util.template_tag", "tag_formatter"):
        m = proj.mod(mn)
        for q, f in sorted(m.defs.items()):
            if not isinstance(f, ast.FunctionDef):
                continue
            for x in ast.walk(f):
                if not (isinstance(x, ast.Subscript) and isinstance(x.ctx, ast.Load)):
                    continue
                sl = x.slice
                if not ((isinstance(sl, ast.Constant) and isinstance(sl.value, int) and not isinstance(sl.value, bool)) or (isinstance(sl, ast.UnaryOp) and isinstance(sl.op, ast.USub) and isinstance(sl.operand, ast.Constant))):
                    continue
                base = norm(x.value)
                if base in ("Tuple", "List", "Optional", "Dict", "Literal", "Union", "Type", "Callable"):
                    continue
                # a tuple produced by a fixed-arity construct (str.partition / split with maxsplit is NOT fixed-arity)
                n += 1
                chk.analysed(fkey(m, f))
                facts = [(e, pol) for e, pol in flatten_conj(path_conditions(x)) if base in norm(e)]
                ok = any((pol and (norm(e) == base or norm(e) in (f"len({base})", f"len({base}) > 0", f"len({base}) != 0", f"len({base}) >= 1"))) for e, pol in facts)
                chk.ob("S14", f"{mn}:{q}:{norm(x)}:non-empty-fact", m.loc(x), ok,
                       f"`{norm(x)}` is read under a non-emptiness fact about `{base}`" if ok else
                       f"`{norm(x)}` is read without any fact about `{base}` being non-empty: when the tag's text leaves that list empty (a component tag without arguments; a last attribute written as the empty literal `[]` / `{{}}`) template compilation dies with IndexError instead of TemplateSyntaxError")
    chk.floor("S14", n, 2)


def s13_close_matches_open(chk: Check, proj: Project) -> None:
    chk.rule("S13", "a closing token pops the container stack only when the OPEN container is of its kind: the pop in the `]` branch runs under `type == 'list'`, the one in the `}` branch under `type == 'dict'` (stated positively - a guard that only excludes ONE other kind forgets the third state, 'simple', i.e. no container open: the fake root is popped and the next stack[-1] raises IndexError)")
    m, f = proj.func("util.tag_parser", "parse_tag")
    want = {"]": "list", "}": "dict"}
    n = 0
    # the container stack = the local the container loop measures (`while len(<stack>) > 0`), whatever it is called
    stk13 = next((x.test.left.args[0].id for x in body_walk(f) if isinstance(x, ast.While) and isinstance(x.test, ast.Compare) and isinstance(x.test.left, ast.Call) and norm(x.test.left.func) == "len" and x.test.left.args and isinstance(x.test.left.args[0], ast.Name)), "stack")
    for c in [x for x in ast.walk(f) if isinstance(x, ast.Call) and isinstance(x.func, ast.Attribute) and x.func.attr == "pop" and norm(x.func.value) == stk13]:
        atoms = cond_atoms(c)
        tok = next((k for k in want for t, pol in atoms if pol and t.startswith("is_next_token(") and f"'{k}'" in t and "[" not in t.replace(f"['{k}']", "")), None)
        if tok is None:
            continue
        n += 1
        kind = want[tok]
        ok = any((t.endswith(f".type == '{kind}'") and pol) or (t.endswith(f".type != '{kind}'") and not pol) for t, pol in atoms)
        chk.ob("S13", f"util.tag_parser:parse_tag:pop-on-{tok}-requires-open-{kind}@{c.lineno - f.lineno}", m.loc(c), ok,
               f"`stack.pop()` for `{tok}` runs only if the open container is a {kind}" if ok else
               f"`stack.pop()` for `{tok}` is not guarded by `type == '{kind}'` (conditions: {[t for t, _p in atoms if 'type' in t]}): a stray `{tok}` with NO container open (`key={tok}`, `items=[1, 2]{tok}`) pops the root struct and the parser dies with IndexError instead of TemplateSyntaxError")
    chk.floor("S13", n, 2)


def s7_foreign_leaks(chk: Check, proj: Project) -> None:
    chk.rule("S7", "Django helpers that can leak a non-TemplateSyntaxError exception on malformed tag text (derived from the installed Django source: bare next() in Token methods) are called only inside a try that converts it to TemplateSyntaxError")
    leaky = _django_leaky_helpers()
    chk.extra["django_leaky_token_methods"] = leaky
    n = 0
    for m, q, f in proj.all_funcs():
        for c in [x for x in body_walk(f) if isinstance(x, ast.Call) and isinstance(x.func, ast.Attribute) and x.func.attr in leaky]:
            n += 1
            chk.analysed(f"{m.name}:{q}")
            ok = False
            for a in ancestors(c):
                if isinstance(a, ast.Try) and any(c is y for st in a.body for y in ast.walk(st)):
                    for h in a.handlers:
                        types_ = [norm(t) for t in (h.type.elts if isinstance(h.type, ast.Tuple) else [h.type])] if h.type is not None else ["BaseException"]
                        if any(t.split(".")[-1] in ("StopIteration", "Exception", "BaseException") for t in types_) and any(isinstance(r, ast.Raise) and exc_class_of_raise(r) == "TemplateSyntaxError" for r in ast.walk(h)):
                            ok = True
                if a is f:
                    break
            chk.ob("S7", f"{m.name.replace('django_components.', '')}:{q}:{short(c)}:leak-converted", m.loc(c), ok,
                   f"`{short(c)}` is wrapped: StopIteration becomes TemplateSyntaxError" if ok else
                   f"`{short(c)}` can raise StopIteration ({leaky[c.func.attr]}): `{{% component \"x\" _(\"abc\" %}}` makes Template(source) fail with StopIteration instead of TemplateSyntaxError")
    if leaky:
        chk.floor("S7", n, 1)


def s6_container_loop(chk: Check, proj: Project) -> None:
    chk.rule("S6", "the container loop of parse_tag is left only with an empty stack (every opened list/dict was closed, at least one entry exists) or by a raise; the look-ahead for the context's terminal tokens is made right after skipping whitespace")
    m, f = proj.func("util.tag_parser", "parse_tag")
    loops = []
    for lp in [x for x in ast.walk(f) if isinstance(x, ast.While)]:
        names = {n.id for n in ast.walk(lp.test) if isinstance(n, ast.Name)}
        pushes = [c for c in ast.walk(lp) if isinstance(c, ast.Call) and isinstance(c.func, ast.Attribute) and c.func.attr == "append" and isinstance(c.func.value, ast.Name) and c.func.value.id in names]
        pops = [c for c in ast.walk(lp) if isinstance(c, ast.Call) and isinstance(c.func, ast.Attribute) and c.func.attr == "pop" and isinstance(c.func.value, ast.Name) and c.func.value.id in names]
        if pushes and pops:
            loops.append((lp, pushes[0].func.value.id))
    if len(loops) != 1:
        chk.undecided("S6", "util.tag_parser:parse_tag:container-loop", m.loc(f), f"{len(loops)} candidate container loops")
        return
    lp, st = loops[0]
    t = norm(lp.test)
    only_stack = t in (f"len({st}) > 0", st, f"len({st})", f"len({st}) != 0", f"len({st}) >= 1", f"0 < len({st})")
    brk = [x for x in ast.walk(lp) if isinstance(x, ast.Break) and next((a for a in ancestors(x) if isinstance(a, (ast.While, ast.For))), None) is lp]
    ok = only_stack and not brk
    chk.ob("S6", "util.tag_parser:parse_tag:container-loop-exits-on-empty-stack-only", m.loc(brk[0]) if brk else m.loc(lp), ok,
           f"`while {t}` with no break: the loop ends only when every container has been closed" if ok else
           f"the container loop can be left while containers are still open (`while {t}`" + (", break" if brk else "") + "): a value that is cut off at the end of the tag (`key=`, `[1, 2`) is no longer rejected with TemplateSyntaxError - the unwrap `entries[0]` after the loop raises IndexError or the unterminated literal is silently accepted")
    n = 0
    for iff in [x for x in ast.walk(f) if isinstance(x, ast.If)]:
        for c in [c for c in ast.walk(iff.test) if isinstance(c, ast.Call) and norm(c.func) == "is_next_token" and c.args and isinstance(c.args[0], ast.Name) and c.args[0].id not in ("tokens",)]:
            if enclosing_func(c) is None or enclosing_func(c).name != "parse_value" and "terminal" not in c.args[0].id:
                continue
            if "terminal" not in c.args[0].id:
                continue
            n += 1
            blk = next((b for a in ancestors(iff) for b in (getattr(a, "body", None), getattr(a, "orelse", None)) if isinstance(b, list) and iff in b), [])
            i = blk.index(iff) if iff in blk else 0
            prev = blk[i - 1] if i > 0 else None
            okw = prev is not None and isinstance(prev, ast.Expr) and isinstance(prev.value, ast.Call) and norm(prev.value.func) == "take_while" and "WHITESPACE" in norm(prev.value)
            chk.ob("S6", f"util.tag_parser:parse_tag:terminal-lookahead-after-whitespace:{norm(c.args[0])}", m.loc(iff), okw,
                   "the terminal-token look-ahead directly follows take_while(TAG_WHITESPACE)" if okw else
                   f"`{short(iff.test)}` is evaluated before the whitespace after the value is skipped: in `{{\"key\"|upper : val}}` the `:` is no longer recognised as the key/value separator but read as a filter argument, so the tag serialises to text that re-parses differently (or raises for `{{\"a\" : 1}}`)")
    chk.floor("S6", n, 1)


def s5_faithful(chk: Check, proj: Project) -> None:
    chk.rule("S5", "take_until / take_while return exactly the text they consume: in every block the value appended to the result is the value passed to add_token")
    m, f = proj.func("util.tag_parser", "parse_tag")
    n = 0
    for p in [x for x in body_walk(f) if isinstance(x, ast.FunctionDef) and x.name in ("take_until", "take_while")]:
        for blk in [b for st in ast.walk(p) for b in (getattr(st, "body", None), getattr(st, "orelse", None)) if isinstance(b, list)]:
            for i, st in enumerate(blk):
                resv = next((norm(r.value) for r in ast.walk(p) if isinstance(r, ast.Return) and isinstance(r.value, ast.Name)), "result")
                if isinstance(st, ast.AugAssign) and norm(st.target) == resv and isinstance(st.op, ast.Add):
                    nxt = next((x for x in blk[i + 1:] if isinstance(x, ast.Expr) and isinstance(x.value, ast.Call) and norm(x.value.func) == "add_token"), None)
                    if nxt is None:
                        continue
                    n += 1

                    def strip(e: ast.AST) -> str:
                        if isinstance(e, ast.Call) and isinstance(e.func, ast.Attribute) and e.func.attr == "join" and isinstance(e.func.value, ast.Constant) and e.func.value.value == "" and e.args:
                            return norm(e.args[0])
                        return norm(e)

                    a, b = strip(st.value), strip(nxt.value.args[0]) if nxt.value.args else "?"
                    chk.ob("S5", f"util.tag_parser:parse_tag.{p.name}:{short(st, 40)}", m.loc(st), a == b, f"appends `{a}` and consumes `{b}`" if a == b else f"`{short(st)}` appends `{a}` to the returned text but `{short(nxt)}` consumes `{b}`: the value handed on is not the text that was scanned (escaped quotes are mangled, the serialisation no longer re-parses)")
    chk.floor("S5", n, 3)


MANIFEST = {
    "text": "Decides termination structure of the hand-written scanners for ALL inputs: a disjunctive fact analysis over the CFG of each loop proves that every path back to the loop head consumed input (using what branch conditions and earlier primitives established about the unchanged cursor) or changed the loop's measure; plus raise classification, bounds-guard matching for text subscripts, domination of every container push by the depth limit, and regex ambiguity degree from the parse tree. Also: serialisation wraps quotes, then translation, then spread/filter prefix; the container loop is left only with an empty stack or a raise; terminal look-ahead follows the whitespace skip. Round 4 / triage: run-time built scanner patterns cannot backtrack exponentially, a possibly-None component name is tested before string helpers see it, Django helpers with a bare next() are wrapped (from the installed Django source), the patched compile_nodelist keeps Django's error handling (shared with C10-S1). Round 5: no `assert` in the parsing scope (AssertionError is another exception type). Round 6: the not-at-end fact used by a text[index] read is fresh (no consuming call since the last bounds test). Round 7: class names built in the parsing scope do not come from tag text (F48); a closing token pops the container stack only for its own kind.",
    "note": "The semantic summaries of the scanner primitives are shape-checked against their bodies on every run (exit 2 if a primitive changes shape). Trusted: Django's own Lexer/Parser terminate. Not decided: the serialise/re-parse round trip; wall-clock bounds.",
    "technique": "static loop-progress analysis (disjunctive facts over CFG), raise/guard discipline, regex parse-tree ambiguity",
}
