"""C07 — concurrent renders do not interfere (DESIGN.md section 3, C07): race freedom by ownership.

S1-K point accesses to per-render registries use a variable key (an id of this render), never a constant.
S1-W whole-container observations of shared state (iteration, copy, set algebra, truthiness, escape, rebinding)
     see other renders' entries: forbidden unless reviewed (snapshot iteration with tolerant lookups; listed sites).
S1-C mutation of shared-key state (memos, lazy singletons, class tables) from render / compile / first-access code
     must be a reviewed idempotent site; check-then-read on an evictable container is a TOCTOU.
S1-M compound updates (>= 2 stores) in methods of process-global objects run under that object's lock.
S1-A publication: a lazily initialised shared object sets its 'ready' flag last; template Nodes (shared through
     cached templates) are not written during render; stores on shared Template objects are reviewed.
"""
from __future__ import annotations

import ast
import re
from typing import Any, Dict, List, Optional, Set, Tuple

from ..astq import assignments, calls, params, stmts
from ..callgraph import fkey
from ..cfg import always_exits, cond_atoms, flatten_conj, path_conditions
from ..report import Check
from ..source import (
    AnalysisError,
    Module,
    Project,
    ancestors,
    assign_targets,
    body_walk,
    dotted,
    enclosing_func,
    enclosing_stmt,
    last_attr,
    norm,
    parent,
    qual_of,
    short,
    walk_no_nested,
)
from ..state import accesses
from .common import CLASSIFIED, PER_RENDER, world

ENTRIES = [
    ("component", "Component.render"), ("component", "Component._render"), ("component", "ComponentNode.render"),
    ("component", "ComponentNode.parse"), ("slots", "SlotNode.render"), ("slots", "FillNode.render"),
    ("provide", "ProvideNode.render"), ("attributes", "HtmlAttrsNode.render"),
    ("dependencies", "ComponentCssDependenciesNode.render"), ("dependencies", "ComponentJsDependenciesNode.render"),
    ("template", "cached_template"), ("util.template_parser", "parse_template"),
    ("component_media", "_get_comp_cls_attr"), ("component_media", "_get_comp_cls_media"),
    ("dependencies", "render_dependencies"), ("dependencies", "cached_script_view"),
    ("node", "BaseNode.parse"), ("util.tag_parser", "TagValueStruct.resolve"), ("util.tag_parser", "TagValueStruct.compile"),
    ("util.tag_parser", "TagValue.compile"), ("components.dynamic", "DynamicComponent.on_render_before"),
    ("components.dynamic", "DynamicComponent._resolve_component"),
]

# whole-container observations that are reviewed as benign: (registry, function) -> reason
W_BENIGN = {
    ("perfutil.provide:provide_cache", "register_provide_reference", "truth"):
        "`if not provide_cache: return` only skips registration when no {% provide %} is active anywhere; a render that is inside a provide sees its own entry, so the test cannot be wrongly true for it",
}
# functions where iteration over a SNAPSHOT of a shared registry is accepted if every lookup inside is tolerant
W_SNAPSHOT_OK = {
    ("perfutil.provide:provide_references", "unregister_provide_reference"):
        "iterates a snapshot of provide ids and only touches sets that contain its own reference id",
}
# mutation of shared-key (not per-render) state from render/compile/first-access code: reviewed idempotent sites
C_IDEMPOTENT = {
    ("cache:template_cache", "get_template_cache"): "lazy singleton; a lost race creates a second empty cache, only cache misses follow",
    ("cache:component_media_cache", "get_component_media_cache"): "lazy singleton over a Django cache backend; same reasoning",
    ("component:component_node_subclasses_by_name", "ComponentNode.parse"): "memo of an equal subclass per start tag; last writer wins with an equivalent value",
    ("component_media:media_cache", "_get_comp_cls_media"): "memo of a value computed only from the class and its bases; recomputation is equal",
    ("dependencies:comp_hash_mapping", "Component.__init_subclass__"): "class creation time (import), single dict store",
    ("util.logger:actual_trace_level_num", "setup_logging"): "memo of a constant log level; both writers store the same value",
}
# attribute stores on Template objects during render
A_TEMPLATE_OK = {
    ("component", "_prepare_template", "_djc_is_component_nested"):
        "value is bool(render_context.get(BLOCK_CONTEXT_KEY)) evaluated after _render_impl pushed a BlockContext (always truthy): every thread stores True (triage t12)",
    ("slots", "_nodelist_to_slot_render_func", "_djc_is_component_nested"): "Template created in this call (private until returned)",
    ("slots", "_nodelist_to_slot_render_func", "nodelist"): "Template created in this call (private until returned)",
}

_FIXTURE_TOCTOU = '''
def cached_thing(key):
    cache = get_template_cache()
    if cache.has(key):
        return cache.get(key)
    v = make(key)
    cache.set(key, v)
    return v
'''


def reach_set(proj: Project, w):
    """Functions reachable from the render / compile / first-access entry points (for rules borrowed by other properties)."""
    entries = []
    for mod, q in ENTRIES:
        r = proj.try_func(mod, q)
        if r is not None:
            entries.append(f"{r[0].name}:{q}")
    if len(entries) < 16:
        raise AnalysisError(f"C07 entry points vanished: {len(entries)} of {len(ENTRIES)}")
    reach = w.cg.reachable(entries)
    reach.update(w.render_reachable())
    return reach


def run(chk: Check, proj: Project) -> None:
    chk.explanation = (
        "Ownership argument for race freedom: every access to process-global state of the library is enumerated and "
        "classified (point access with a render-private key / whole-container observation / mutation of shared-key "
        "state / compound update / publication of lazily initialised shared objects) and each class has a rule that "
        "makes interference impossible or flags the site. No schedule is executed."
    )
    chk.not_decided = ["equality of each concurrent result with its solo result as an observable", "timing, starvation", "thread-safety of Django's engine/loaders and of the cache backend"]
    chk.trusted_base = ["single dict/set operations are atomic under the GIL", "render ids (gen_id) do not collide", "Django's template engine, loaders and cache backends are thread-safe"]
    w = world(proj)
    entries = []
    for mod, q in ENTRIES:
        r = proj.try_func(mod, q)
        if r is not None:
            entries.append(f"{r[0].name}:{q}")
    if len(entries) < 16:
        raise AnalysisError(f"C07 entry points vanished: {len(entries)} of {len(ENTRIES)}")
    reach = w.cg.reachable(entries)
    reach.update(w.render_reachable())
    chk.extra["entry_points"] = len(entries)
    chk.extra["reachable_functions"] = len(reach)
    s1_registries(chk, proj, w)
    s1c_shared(chk, proj, w, reach)
    s1c_toctou(chk, proj, w, reach)
    s1m_locks(chk, proj, w, reach)
    s1a_publication(chk, proj, w, reach)
    s1a_nodes(chk, proj, w, reach)
    s1a_reentrant(chk, proj, w)
    s1a_parsed_values(chk, proj, w)
    s1a_lock_statements(chk, proj, w)
    s1i_shared_instances(chk, proj, w)
    s1g_global_objects(chk, proj, w, reach)
    from . import C19 as _C19

    chk.borrow("S1-A7", "the lazily created default media cache may be created by two threads at once without harm: same-named LocMemCache objects share one storage, so the name is a constant (shared with C19-S7)",
               lambda sub: _C19.s7_own_backend(sub, proj), only=lambda o: "one-store-however-often-created" in o.construct)
    from . import C06 as _C06

    chk.borrow("S2", "no residue in the per-render registries once all renders have finished, also when ANOTHER thread's render failed: every insertion into a per-render registry is followed, on the raising paths too, by its release in the same function or a caller's handler - a later sweep that only iterates the callbacks registered at the END of a component's preparation never sees a component that failed earlier (shared with C06-S1a)",
               lambda sub: _C06.s1a_pairing(sub, proj, w))
    from . import C18

    c18m = proj.mod("util.cache")
    chk.borrow("S1-A6", "the LRU's dict and recency list stay in step also on the path that single-threaded code never takes (two threads miss the same key and both store it): on an existing key the node is unlinked before it is re-linked (shared with C18-S1)",
               lambda sub: C18.s1(sub, proj, c18m, c18m.cls("LRUCache")))
    from . import C16

    chk.borrow("S1-A5", "the class-media memo is race-tolerant because it is PURE: the entry for a class is written once all selected bases are memoised, its value depends only on the class and its bases' entries, and the getter returns the memo entry of the requested class (never a local left over from a loop that another thread's progress may have shortened) (shared with C16-S2)",
               lambda sub: C16.s2(sub, proj, proj.mod("component_media")))
    chk.call_sites = w.cg.n_calls


# ---------------------------------------------------------------------------------------------
def s1_registries(chk: Check, proj: Project, w) -> None:
    chk.rule("S1-K", "point accesses to per-render registries are keyed by a variable holding an id of this render (never a constant / shared value)")
    chk.rule("S1-W", "no whole-container observation of a per-render registry (iteration, copy, keys/items, len, truthiness, set algebra, clear, escape) unless it is a snapshot iteration with tolerant lookups in a reviewed function or a listed benign site")
    nk = nw = 0
    for gk, g in w.registries().items():
        for a in w.summ.acc[gk]:
            where = f"{a.mod.name.replace('django_components.', '')}:{qual_of(a.node)}"
            fn = qual_of(a.node).split(".")[-1]
            ck = f"{where}:{short(a.stmt(), 90)}:{g.name}"
            if a.func is not None:
                chk.analysed(fkey(a.mod, a.func))
            if a.kind in ("insert", "remove", "read", "contains") and a.key is not None:
                nk += 1
                const = isinstance(a.key, ast.Constant)
                chk.ob("S1-K", ck, a.loc, not const, f"{a.kind} {g.name}[{short(a.key, 40)}]: key is {'a constant shared by all renders' if const else 'a variable id'}", nontrivial=False)
            elif a.kind.startswith("elem-"):
                nk += 1
                chk.holds("S1-K", ck, a.loc, f"{a.kind} on the entry stored under {short(a.key, 30) if a.key is not None else '?'} (belongs to one provider)", nontrivial=False)
            elif a.kind == "insert" and a.key is None:
                nk += 1
                chk.holds("S1-K", ck, a.loc, "bulk insertion of this render's own ids", nontrivial=False)
            else:
                nw += 1
                _whole(chk, proj, w, g, gk, a, ck, fn)
    chk.floor("S1-K", nk, 25)
    chk.floor("S1-W", nw, 2)


def _whole(chk: Check, proj, w, g, gk: str, a, ck: str, fn: str) -> None:
    if (gk, fn, a.kind) in W_BENIGN:
        chk.holds("S1-W", ck, a.loc, f"reviewed benign: {W_BENIGN[(gk, fn, a.kind)]}", nontrivial=False)
        return
    # snapshot iteration: for k in list(G.keys()) / list(G) / tuple(G.items()) ... with tolerant lookups inside
    if a.kind == "whole" and (gk, fn) in W_SNAPSHOT_OK:
        loop = next((x for x in ancestors(a.node) if isinstance(x, (ast.For, ast.comprehension))), None)
        it = loop.iter if loop is not None else None
        snap = isinstance(it, ast.Call) and isinstance(it.func, ast.Name) and it.func.id in ("list", "tuple", "set", "frozenset", "sorted") and any(x is a.node for x in ast.walk(it))
        if isinstance(loop, ast.For) and snap:
            vars_ = {x.id for x in ast.walk(loop.target) if isinstance(x, ast.Name)}
            raw = [
                n for st in loop.body for n in ast.walk(st)
                if isinstance(n, ast.Subscript) and isinstance(n.ctx, (ast.Load, ast.Del)) and isinstance(n.value, ast.Name) and n.value.id == g.name
                and any(isinstance(x, ast.Name) and x.id in vars_ for x in ast.walk(n.slice))
            ]
            strict = [
                n for st in loop.body for n in ast.walk(st)
                if isinstance(n, ast.Call) and isinstance(n.func, ast.Attribute) and n.func.attr == "pop" and len(n.args) == 1
                and isinstance(n.func.value, ast.Name) and n.func.value.id in {gg.name for gg in w.registries().values()}
            ]
            if not raw and not strict:
                chk.holds("S1-W", ck, a.loc, f"snapshot iteration with tolerant lookups: {W_SNAPSHOT_OK[(gk, fn)]}")
            else:
                bad = (raw + strict)[0]
                chk.violated("S1-W", ck, a.mod.loc(bad), f"iterates a snapshot of {g.name} but then uses `{short(bad)}`, which raises KeyError when another thread removed that entry in between")
            return
        chk.violated("S1-W", ck, a.loc, f"`{short(a.stmt())}` iterates the live shared registry {g.name} (no snapshot): a concurrent render inserting/removing an entry makes this one fail or observe foreign entries")
        return
    what = {"whole": "observes the whole container", "truth": "tests emptiness of the whole container", "algebra": "does set algebra on the whole container",
            "escape": "lets the container escape", "rebind": "rebinds the global", "attr": "uses an unknown attribute of", "remove": "clears / pops an arbitrary entry of"}.get(a.kind, a.kind)
    chk.violated("S1-W", ck, a.loc, f"`{short(a.stmt())}` {what} {g.name}, which holds the entries of every concurrently running render: this render can observe or delete another render's entries")


# ---------------------------------------------------------------------------------------------
# External classes whose instances are per-render working objects (pushed to, popped from, advanced while rendering /
# compiling). One process-wide instance of any of them is shared by every concurrently running render.
MUTABLE_WORK_OBJECTS = {
    "Context", "RequestContext", "RenderContext", "BaseContext", "ContextDict", "Template", "NodeList", "Parser", "Lexer",
    "DebugLexer", "Media", "Origin", "Token", "StringIO", "BytesIO", "HTMLParser", "Random", "SafeExceptionReporterFilter",
}


def _class_is_mutable(cls: ast.ClassDef) -> Optional[str]:
    """Name of a method (other than __init__ / __post_init__) that assigns to an attribute of self, if any."""
    for fn in cls.body:
        if isinstance(fn, (ast.FunctionDef, ast.AsyncFunctionDef)) and fn.name not in ("__init__", "__post_init__", "__new__"):
            ps = fn.args.posonlyargs + fn.args.args
            if not ps:
                continue
            me = ps[0].arg
            for n in ast.walk(fn):
                tg = n.targets if isinstance(n, ast.Assign) else [n.target] if isinstance(n, (ast.AugAssign, ast.AnnAssign)) else []
                for t in tg:
                    if isinstance(t, ast.Attribute) and isinstance(t.value, ast.Name) and t.value.id == me:
                        return fn.name
    return None


def s1g_global_objects(chk: Check, proj: Project, w, reach, rule: str = "S1-G") -> None:
    chk.rule(rule, "no per-render working object lives at module level: every module-level INSTANCE that render / compile code reads is either classified (settings, registry, formatter, Library) or an instance of a class that cannot change after construction - a process-wide Context / Template / NodeList / parser object ('created only once' for speed) is pushed to and popped from by every concurrent render")
    n = 0
    for k, g in sorted(w.inv.items()):
        if g.kind != "instance" or g.detail.startswith("typing."):
            continue
        n += 1
        if k in CLASSIFIED or k in PER_RENDER:
            chk.holds(rule, k, g.mod.loc(g.node), f"classified: {(CLASSIFIED.get(k) or ('per-render', ''))[0]}", nontrivial=False)
            continue
        # where is it read?
        readers = []
        for m2, q, fn in proj.all_funcs():
            if fkey(m2, fn) not in reach:
                continue
            for nm in ast.walk(fn):
                if isinstance(nm, ast.Name) and isinstance(nm.ctx, ast.Load) and nm.id == g.name:
                    r = proj.resolve(m2, nm.id)
                    if r is not None and (m2 is g.mod or r[0] in ("global", "import", "def") or True):
                        if m2 is g.mod or any(isinstance(i, ast.ImportFrom) and any(a.name == g.name for a in i.names) for i in ast.walk(m2.tree)):
                            readers.append((m2, q, nm))
        cls_name = g.detail.split(":")[-1].split(".")[-1]
        why = None
        if ":" in g.detail:
            mm_, cn = g.detail.split(":")
            try:
                cdef = proj.mod(mm_.replace("django_components.", "")).cls(cn)
                meth = _class_is_mutable(cdef)
                if meth:
                    why = f"its class {cn} changes its own state in {meth}()"
            except Exception:
                why = None
        elif cls_name in MUTABLE_WORK_OBJECTS:
            why = f"{cls_name} objects are working state of ONE render / compilation (layers are pushed and popped, nodes appended, positions advanced)"
        if not readers or why is None:
            chk.holds(rule, k, g.mod.loc(g.node), "not read by render / compile code" if not readers else f"instance of {cls_name}, which has no state-changing method")
            continue
        m2, q, nm = readers[0]
        chk.violated(rule, k, m2.loc(nm), f"module-level `{g.name} = {short(g.node.value if hasattr(g.node, 'value') else g.node, 40)}` is handed to render code in {q}: {why}, and this ONE object is shared by all threads (and by nested renders of one thread) - two fills rendered at the same time push their variables onto the same Context and see / pop each other's layers")
    chk.floor(rule, n, 5)


def s1c_shared(chk: Check, proj: Project, w, reach) -> None:
    chk.rule("S1-C", "every mutation of shared-key process-global state (memo, lazy singleton, class table) reachable from render / compile / first-access code is a reviewed idempotent site")
    n = 0
    for k, g in sorted(w.inv.items()):
        if k in PER_RENDER or g.kind == "lru_cache" or (g.kind == "instance" and g.detail.startswith("typing.")):
            continue
        if g.kind.startswith("classattr") and g.name.endswith(".allowed_flags"):
            continue
        for a in accesses(proj, g):
            if a.kind not in ("insert", "remove", "rebind", "elem-insert", "elem-remove") or a.func is None:
                continue
            fk = fkey(a.mod, a.func)
            if fk not in reach:
                continue
            n += 1
            chk.analysed(fk)
            q = qual_of(a.node)
            ck = f"{a.mod.name.replace('django_components.', '')}:{q}:{short(a.stmt(), 80)}"
            why = C_IDEMPOTENT.get((k, q)) or C_IDEMPOTENT.get((k, q.split(".")[-1]))
            if why:
                chk.holds("S1-C", ck, a.loc, f"reviewed idempotent: {why}", nontrivial=False)
            else:
                chk.violated("S1-C", ck, a.loc, f"`{short(a.stmt())}` mutates shared process-global `{g.name}` from code that concurrent renders execute ({q}); it is not a reviewed idempotent memo, so two threads can interleave their check and their write")
    chk.floor("S1-C", n, 4)


def _evictable_receivers(proj: Project, w, m: Module, f) -> Dict[str, str]:
    """local name -> description, for locals bound to an evictable shared container."""
    out: Dict[str, str] = {}
    for n in body_walk(f):
        if isinstance(n, (ast.Assign, ast.AnnAssign)) and isinstance(n.value, ast.Call):
            fn = last_attr(n.value.func)
            if fn in ("get_template_cache", "get_component_media_cache"):
                for t in (n.targets if isinstance(n, ast.Assign) else [n.target]):
                    if isinstance(t, ast.Name):
                        out[t.id] = fn + "()"
    for k, g in w.inv.items():
        if g.kind == "weakdict" or k in PER_RENDER:
            r = proj.resolve(m, g.name)
            if r and r[0] == "global" and r[1] is g.mod:
                out[g.name] = k
    return out


def _toctou_in(proj: Project, w, m: Module, f) -> List[Tuple[ast.AST, ast.AST, str]]:
    found = []
    recv = _evictable_receivers(proj, w, m, f)
    if not recv:
        return found
    for n in body_walk(f):
        # second lookup: X.get(k) / X[k] whose path condition contains a membership test on the same X and key
        look = None
        if isinstance(n, ast.Call) and isinstance(n.func, ast.Attribute) and n.func.attr in ("get", "__getitem__") and isinstance(n.func.value, ast.Name) and n.func.value.id in recv and n.args:
            look = (n.func.value.id, norm(n.args[0]))
        elif isinstance(n, ast.Subscript) and isinstance(n.ctx, ast.Load) and isinstance(n.value, ast.Name) and n.value.id in recv:
            look = (n.value.id, norm(n.slice))
        if look is None:
            continue
        for e, pol in flatten_conj(path_conditions(n)):
            test = None
            if isinstance(e, ast.Call) and isinstance(e.func, ast.Attribute) and e.func.attr in ("has", "has_key", "__contains__") and isinstance(e.func.value, ast.Name) and e.args:
                test = (e.func.value.id, norm(e.args[0]))
            elif isinstance(e, ast.Compare) and len(e.ops) == 1 and isinstance(e.ops[0], (ast.In, ast.NotIn)) and isinstance(e.comparators[0], ast.Name):
                test = (e.comparators[0].id, norm(e.left))
                if isinstance(e.ops[0], ast.NotIn):
                    pol = not pol
            if test == look and pol:
                found.append((e, n, recv[look[0]]))
    return found


def s1c_toctou(chk: Check, proj: Project, w, reach) -> None:
    chk.rule("S1-C2", "no check-then-read on an evictable shared container (LRU cache, cache backend, weak dict, foreign registry key): a membership test that guards a second lookup can be invalidated by another thread's eviction in between")
    n = 0
    for fk in sorted(reach):
        m, f = w.cg.funcs[fk]
        for test, look, what in _toctou_in(proj, w, m, f):
            n += 1
            # per-render registries with the render's own key are exempt (nobody else removes that key)
            if what in PER_RENDER:
                chk.holds("S1-C2", f"{fk.replace('django_components.', '')}:{short(look)}", m.loc(look), "check-then-read on a per-render registry with this render's own id", nontrivial=False)
                continue
            chk.violated("S1-C2", f"{fk.replace('django_components.', '')}:{short(enclosing_stmt(look))}", m.loc(look),
                         f"`{short(test)}` is checked and then `{short(look)}` reads the same key again from {what}: an eviction by another thread between the two returns None / raises where the solo run succeeds")
    # positive fixture: the rule must fire on a known-bad shape on every run
    fm = Module("django_components.__fixture__", "fixture.py", _FIXTURE_TOCTOU)
    ff = fm.func("cached_thing")
    hit = _toctou_in(proj, w, fm, ff)
    if not hit:
        raise AnalysisError("S1-C2 positive fixture no longer matches: rule is broken")
    chk.holds("S1-C2", "fixture:check-then-read", "fixture.py:4", "positive fixture matched (rule is alive); no such site on the tree" if n == 0 else "positive fixture matched", nontrivial=False)


# ---------------------------------------------------------------------------------------------
_MUT_METHODS = {"append", "add", "pop", "remove", "clear", "update", "insert", "extend", "popitem", "setdefault", "discard", "appendleft", "popleft"}


def _mutations(w, m: Module, cls: ast.ClassDef, meth, seen: Optional[Set[str]] = None) -> int:
    seen = seen or set()
    if meth.name in seen:
        return 0
    seen.add(meth.name)
    cnt = 0
    for n in body_walk(meth):
        if isinstance(n, (ast.Attribute, ast.Subscript)) and isinstance(n.ctx, (ast.Store, ast.Del)):
            cnt += 1
        elif isinstance(n, ast.Call) and isinstance(n.func, ast.Attribute):
            if n.func.attr in _MUT_METHODS and norm(n.func.value).startswith("self."):
                cnt += 1
            elif isinstance(n.func.value, ast.Name) and n.func.value.id == "self":
                r = w.cg.find_method(m, cls, n.func.attr)
                if r:
                    cnt += _mutations(w, r[0], cls, r[1], seen)
    return cnt


def _lock_attrs(cls: ast.ClassDef) -> Set[str]:
    out = set()
    for st in cls.body:
        if isinstance(st, ast.FunctionDef) and st.name == "__init__":
            for n in body_walk(st):
                if isinstance(n, ast.Assign) and isinstance(n.value, ast.Call) and (dotted(n.value.func) or "").split(".")[-1] in ("Lock", "RLock"):
                    for t in n.targets:
                        if isinstance(t, ast.Attribute) and isinstance(t.value, ast.Name) and t.value.id == "self":
                            out.add(t.attr)
    return out


def _under_lock(node: ast.AST, locks: Set[str]) -> bool:
    for a in ancestors(node):
        if isinstance(a, ast.With):
            for it in a.items:
                d = dotted(it.context_expr)
                if d and d.startswith("self.") and d.split(".")[1] in locks:
                    return True
    return False


def s1m_locks(chk: Check, proj: Project, w, reach) -> None:
    chk.rule("S1-M", "a method of a process-global object that performs a compound update (>= 2 stores, transitively through self-calls) and is reachable from render/compile code runs under a lock owned by the object")
    # classes whose instances are process-global (module-level instance or lazy singleton)
    shared_classes: Dict[str, Tuple[Module, ast.ClassDef]] = {}
    for k, g in w.inv.items():
        if g.kind == "instance" and ":" in g.detail and g.detail.startswith("django_components"):
            mn, cn = g.detail.split(":")
            shared_classes[g.detail] = (proj.modules[mn], proj.modules[mn].cls(cn))
        if g.kind == "lazy":
            for a in accesses(proj, g):
                if a.kind == "rebind" and isinstance(a.node, (ast.Assign, ast.AnnAssign)) and isinstance(a.node.value, ast.Call):
                    r = proj.resolve_expr(a.mod, a.node.value.func)
                    if r and r[0] == "def" and isinstance(r[2], ast.ClassDef):
                        shared_classes[f"{r[1].name}:{r[2].name}"] = (r[1], r[2])
    n = 0
    for ck, (m, cls) in sorted(shared_classes.items()):
        locks = _lock_attrs(cls)
        for st in cls.body:
            if not isinstance(st, ast.FunctionDef) or st.name.startswith("__"):
                continue
            fk = fkey(m, st)
            muts = _mutations(w, m, cls, st)
            if muts < 2:
                continue
            # reachable from render code directly, or through a sibling method that is
            callers_in_cls = [e for e in w.cg.callers(fk) if e[0].startswith(f"{m.name}:{cls.name}.")]
            if fk not in reach:
                continue
            n += 1
            chk.analysed(fk)
            key = f"{m.name.replace('django_components.', '')}:{cls.name}.{st.name}:compound-update"
            body = [s for s in st.body if not (isinstance(s, ast.Expr) and isinstance(s.value, ast.Constant))]
            whole_locked = len(body) == 1 and isinstance(body[0], ast.With) and any((dotted(it.context_expr) or "").startswith("self.") and (dotted(it.context_expr) or "").split(".")[1] in locks for it in body[0].items)
            ext_callers = [e for e in w.cg.callers(fk) if not e[0].startswith(f"{m.name}:{cls.name}.")]
            helper_locked = bool(callers_in_cls) and not ext_callers and st.name.startswith("_") and all(_under_lock(site, locks) or _caller_is_locked_helper(w, m, cls, e[0], locks) for e in callers_in_cls for site in [e[1]] if site is not None)
            if whole_locked or helper_locked:
                chk.holds("S1-M", key, m.loc(st), f"{muts} stores, executed under self.{sorted(locks)[0] if locks else '?'}" + (" (private helper, every caller holds the lock)" if helper_locked and not whole_locked else ""))
            else:
                chk.violated("S1-M", key, m.loc(st), f"{cls.name}.{st.name} updates {muts} locations of a process-global object (dict and linked list must change together) without holding a lock: two threads compiling templates through a full cache corrupt it / raise KeyError")
    chk.floor("S1-M", n, 2)


def _caller_is_locked_helper(w, m, cls, caller_key: str, locks: Set[str]) -> bool:
    """The call sits in another private helper all of whose callers hold the lock (one level)."""
    mm, cf = w.cg.funcs[caller_key]
    if not cf.name.startswith("_"):
        return False
    cs = [e for e in w.cg.callers(caller_key)]
    return bool(cs) and all(e[1] is not None and _under_lock(e[1], locks) for e in cs)


# ---------------------------------------------------------------------------------------------
def s1a_publication(chk: Check, proj: Project, w, reach) -> None:
    chk.rule("S1-A1", "lazy initialisation of a shared object publishes its 'ready' flag last: after the store that makes the early-return guard true, nothing else writes the object or passes it to a call")
    n = 0
    for fk in sorted(reach):
        m, f = w.cg.funcs[fk]
        # guards: `if <... X.a ...>: (store)? return` at the top level of the function
        const_states: Dict[Tuple[str, str], Set[str]] = {}
        for st in f.body:
            if isinstance(st, ast.If) and always_exits(st.body):
                for pe in ast.walk(st.test):
                    if isinstance(pe, ast.Compare) and len(pe.ops) == 1 and isinstance(pe.ops[0], (ast.Eq, ast.Is)) and isinstance(pe.comparators[0], ast.Constant) and isinstance(pe.left, ast.Attribute) and isinstance(pe.left.value, ast.Name):
                        const_states.setdefault((pe.left.value.id, pe.left.attr), set()).add(repr(pe.comparators[0].value))
        for st in f.body:
            if not (isinstance(st, ast.If) and always_exits(st.body)):
                continue
            flags = set()
            for e, pol in flatten_conj([(st.test, True)]):
                parts = e.values if isinstance(e, ast.BoolOp) else [e]
                for pe in parts:
                    tgt = pe
                    if isinstance(pe, ast.Compare) and len(pe.ops) == 1 and isinstance(pe.ops[0], ast.IsNot) and isinstance(pe.comparators[0], ast.Constant) and pe.comparators[0].value is None:
                        tgt = pe.left
                    # a state encoded as a constant (`if self._types == False: return None`): storing that constant publishes it
                    if isinstance(pe, ast.Compare) and len(pe.ops) == 1 and isinstance(pe.ops[0], (ast.Eq, ast.Is)) and isinstance(pe.comparators[0], ast.Constant) and isinstance(pe.left, ast.Attribute) and isinstance(pe.left.value, ast.Name):
                        tgt = pe.left
                        const_states.setdefault((pe.left.value.id, pe.left.attr), set()).add(repr(pe.comparators[0].value))
                    if isinstance(tgt, ast.Attribute) and isinstance(tgt.value, ast.Name):
                        flags.add((tgt.value.id, tgt.attr))
            for obj, attr in sorted(flags):
                stores = [s for s in stmts(f) if isinstance(s, (ast.Assign, ast.AnnAssign)) and any(isinstance(t, ast.Attribute) and isinstance(t.value, ast.Name) and t.value.id == obj and t.attr == attr for t, _ in assign_targets(s))]
                if not stores:
                    continue
                n += 1
                chk.analysed(fk)
                cfg = w.pair.cfgs.get(f)
                key = f"{fk.replace('django_components.', '')}:{obj}.{attr}:published-last"
                bad = None
                for s in stores:
                    val = s.value
                    if isinstance(val, ast.Constant) and val.value in (False, None) and repr(val.value) not in const_states.get((obj, attr), set()):
                        continue  # resetting the flag is not a publication
                    for sn in cfg.nodes_of(s):
                        after = cfg.reachable_from([x for x, lab in sn.succ if lab not in ("x", "p")], labels={"n", "T", "F", "b"})
                        for x in after:
                            if x.ast is None or x.kind in ("return",) and not any(isinstance(y, ast.Call) for y in ast.walk(x.ast)):
                                continue
                            if x is sn:
                                continue
                            for y in walk_no_nested(x.ast, enter_root=False):
                                if isinstance(y, ast.Attribute) and isinstance(y.ctx, ast.Store) and isinstance(y.value, ast.Name) and y.value.id == obj and not (y.attr == attr):
                                    bad = (s, y)
                                # a second store of the SAME field after one that readers already act on: the first was premature
                                if isinstance(y, ast.Attribute) and isinstance(y.ctx, ast.Store) and isinstance(y.value, ast.Name) and y.value.id == obj and y.attr == attr and const_states.get((obj, attr)):
                                    bad = (s, y)
                                # any further call means the initialisation is still going on after the flag was set
                                if isinstance(y, ast.Call) and x.kind != "return":
                                    bad = (s, y)
                if bad:
                    s, y = bad
                    chk.violated("S1-A1", key, m.loc(s), f"`{short(s)}` marks the shared object ready before `{short(y)}` has run: a second thread that tests the flag in between uses a half-initialised object")
                else:
                    chk.holds("S1-A1", key, m.loc(stores[-1]), f"`{obj}.{attr}` is the last write of the initialisation on every path")
    chk.floor("S1-A1", n, 3)


def s1a_reentrant(chk: Check, proj: Project, w) -> None:
    chk.rule("S1-A3", "the unserialised lazy resolution of a class's assets is idempotent under re-entry: a helper whose result is stored into a field of the shared record never raises because that same field is already set")
    m, f = proj.func("component_media", "_resolve_media")
    chk.analysed(fkey(m, f))
    rec = params(f)[1]
    n = 0
    # stores `rec.F = g(..., rec, ..., kw=<const>)`
    by_callee: Dict[str, List[Tuple[str, ast.Call]]] = {}
    for st in stmts(f):
        if isinstance(st, ast.Assign) and isinstance(st.value, ast.Call) and isinstance(st.targets[0], ast.Attribute) and norm(st.targets[0].value) == rec:
            r0 = w.cg.resolve_callee(m, st.value, st.value.func)
            if r0 is not None and isinstance(r0[1], ast.FunctionDef) and fkey(*r0) in w.cg.funcs:
                by_callee.setdefault(fkey(*r0), []).append((st.targets[0].attr, st.value))
    for tk, outs in sorted(by_callee.items()):
        gm, g = w.cg.funcs[tk]
        gp = params(g)
        n += 1
        chk.analysed(tk)
        out_fields = {a for a, _c in outs}
        # parameter -> set of constant strings it is bound to at these call sites; which param is the record
        bind: Dict[str, Set[str]] = {}
        recp = None
        for _a, c in outs:
            for i, a in enumerate(c.args):
                if i < len(gp):
                    if norm(a) == rec:
                        recp = gp[i]
                    elif isinstance(a, ast.Constant) and isinstance(a.value, str):
                        bind.setdefault(gp[i], set()).add(a.value)
            for k in c.keywords:
                if k.arg and norm(k.value) == rec:
                    recp = k.arg
                elif k.arg and isinstance(k.value, ast.Constant) and isinstance(k.value.value, str):
                    bind.setdefault(k.arg, set()).add(k.value.value)
        if recp is None:
            chk.holds("S1-A3", f"{tk.replace('django_components.', '')}:reentrant", gm.loc(g), "the helper does not receive the shared record")
            continue

        def fields_of(e: ast.AST) -> Set[str]:
            out: Set[str] = set()
            for y in ast.walk(e):
                if isinstance(y, ast.Attribute) and norm(y.value) == recp:
                    out.add(y.attr)
                if isinstance(y, ast.Call) and norm(y.func) == "getattr" and len(y.args) >= 2 and norm(y.args[0]) == recp:
                    a1 = y.args[1]
                    if isinstance(a1, ast.Constant):
                        out.add(str(a1.value))
                    elif isinstance(a1, ast.Name):
                        out |= bind.get(a1.id, {"?"})
                    else:
                        out.add("?")
            return out

        var_fields: Dict[str, Set[str]] = {}
        for st in stmts(g):
            if isinstance(st, ast.Assign) and len(st.targets) == 1 and isinstance(st.targets[0], ast.Name):
                fs = fields_of(st.value)
                if fs:
                    var_fields.setdefault(st.targets[0].id, set()).update(fs)
        bad = None
        for r in stmts(g):
            if not isinstance(r, ast.Raise):
                continue
            for t, pol in cond_atoms(r):
                try:
                    e = ast.parse(t, mode="eval").body
                except SyntaxError:
                    continue
                # state after the write: the field is set (`x is not None`, truthy `x`)
                setpol = None
                subj = e
                if isinstance(e, ast.Compare) and len(e.ops) == 1 and isinstance(e.comparators[0], ast.Constant) and e.comparators[0].value is None:
                    subj = e.left
                    setpol = pol if isinstance(e.ops[0], ast.IsNot) else (not pol) if isinstance(e.ops[0], ast.Is) else None
                elif isinstance(e, (ast.Name, ast.Attribute, ast.Call)):
                    setpol = pol
                if not setpol:
                    continue
                fs = fields_of(subj) | (var_fields.get(subj.id, set()) if isinstance(subj, ast.Name) else set())
                hit = (fs & out_fields) or ({"?"} & fs)
                if hit:
                    bad = (r, t, sorted(hit))
        key = f"{tk.replace('django_components.', '')}:no-raise-on-own-output"
        if bad:
            r, t, hit = bad
            chk.violated("S1-A3", key, gm.loc(r), f"`{short(r)}` is raised when `{t}` holds, i.e. when field(s) {hit} of the shared record are already set - but _resolve_media stores this helper's own result into {sorted(out_fields)} and is not serialised: a second thread entering the resolution before `resolved = True` raises instead of rendering")
        else:
            chk.holds("S1-A3", key, gm.loc(g), f"no raise in the helper is conditional on {sorted(out_fields)} being set (re-entry recomputes the same value)")
    chk.floor("S1-A3", n, 1)


# instance attributes of Component written outside __init__ that are reviewed as harmless when the instance is shared
I_BENIGN = {
    "_types": "memo of type hints derived from the CLASS only; every thread stores an equal value",
}


def s1i_shared_instances(chk: Check, proj: Project, w) -> None:
    chk.rule("S1-I", "an instance that the library itself hands to several threads (the component captured by the view callable of as_view()) keeps no per-render state on itself, unless that state is thread-confined (threading.local)")
    m = proj.mod("component")
    cls = m.cls("Component")
    av = next((x for x in cls.body if isinstance(x, ast.FunctionDef) and x.name == "as_view"), None)
    if av is None:
        raise AnalysisError("anchor vanished: Component.as_view")
    chk.analysed(fkey(m, av))
    # publication: a local that may hold an instance flows into the returned view factory
    inst = {t.id for st in stmts(av) for t, v in assign_targets(st) if isinstance(t, ast.Name) and v is not None and (isinstance(v, ast.Call) or (isinstance(v, ast.Name) and v.id in params(av)))}
    pub = [c for c in calls(av) if isinstance(c.func, ast.Attribute) and c.func.attr == "as_view" and any(isinstance(k.value, ast.Name) and k.value.id in inst for k in c.keywords)]
    chk.ob("S1-I", "component:Component.as_view:publication", m.loc(pub[0]) if pub else m.loc(av), True,
           f"`{short(pub[0])}` captures one instance for all requests" if pub else "as_view() does not capture a component instance (one instance per request)", nontrivial=False)
    if not pub:
        return
    init = next((x for x in cls.body if isinstance(x, ast.FunctionDef) and x.name == "__init__"), None)
    tl_fields = {t.attr for st in stmts(init) for t, v in assign_targets(st) if isinstance(t, ast.Attribute) and isinstance(v, ast.Call) and (dotted(v.func) or "").endswith("local")} if init else set()
    # a class-level threading.local confines to the thread as well (it is shared between instances, which is C14's concern)
    tl_fields |= {t.id for st in cls.body if isinstance(st, (ast.Assign, ast.AnnAssign)) for t, v in assign_targets(st) if isinstance(t, ast.Name) and isinstance(v, ast.Call) and (dotted(v.func) or "").endswith("local")}
    props = {x.name: x for x in cls.body if isinstance(x, ast.FunctionDef) and any((dotted(d) or "") == "property" for d in x.decorator_list)}
    confined = {name for name, fn in props.items() if any(isinstance(y, ast.Attribute) and isinstance(y.value, ast.Name) and y.value.id == "self" and y.attr in tl_fields for y in ast.walk(fn))}
    MUT = ("append", "appendleft", "pop", "popleft", "insert", "extend", "add", "update", "clear", "remove", "discard", "setdefault")
    written: Dict[str, ast.AST] = {}
    # the class and every in-package subclass of it (the dynamic component is served by as_view() like any other)
    bodies = [(m, fn) for fn in cls.body]
    for mm2 in proj.modules.values():
        for c2 in [x for x in ast.walk(mm2.tree) if isinstance(x, ast.ClassDef) and x is not cls and any((dotted(b_) or "").split(".")[-1] == "Component" for b_ in x.bases)]:
            bodies += [(mm2, fn) for fn in c2.body]
    owner: Dict[str, Any] = {}
    for mm2, fn in bodies:
        if not isinstance(fn, ast.FunctionDef) or fn.name in ("__init__", "__init_subclass__"):
            continue
        for x in ast.walk(fn):
            if isinstance(x, ast.Attribute) and isinstance(x.ctx, (ast.Store, ast.Del)) and isinstance(x.value, ast.Name) and x.value.id == "self":
                written.setdefault(x.attr, x)
                owner.setdefault(x.attr, mm2)
            if isinstance(x, ast.Call) and isinstance(x.func, ast.Attribute) and x.func.attr in MUT and isinstance(x.func.value, ast.Attribute) and isinstance(x.func.value.value, ast.Name) and x.func.value.value.id == "self":
                written.setdefault(x.func.value.attr, x)
                owner.setdefault(x.func.value.attr, mm2)
    n = 0
    for attr, site in sorted(written.items()):
        n += 1
        key = f"component:Component.{attr}:thread-confined"
        if attr in confined:
            chk.holds("S1-I", key, owner.get(attr, m).loc(site), f"`self.{attr}` is a property over a threading.local created in __init__: each thread has its own")
        elif attr in I_BENIGN:
            chk.holds("S1-I", key, m.loc(site), f"reviewed: {I_BENIGN[attr]}", nontrivial=False)
        elif attr in tl_fields:
            chk.holds("S1-I", key, m.loc(site), "the thread-local holder itself")
        else:
            chk.violated("S1-I", key, owner.get(attr, m).loc(site), f"`{short(enclosing_stmt(site))}` keeps per-render state on the component object, and as_view() shares one object between all request threads: two requests whose renders overlap read each other's `self.input` / `self.id` / inject() context")
    chk.floor("S1-I", n, 1)


def s1a_lock_statements(chk: Check, proj: Project, w) -> None:
    chk.rule("S1-A7", "a lock taken with an explicit `.acquire()` statement is released in a `finally` (or taken with `with`): an exception between acquire and release - a TemplateSyntaxError while compiling - leaves the lock held by a long-lived worker thread and every other thread blocks for good; and nothing but a real value is ever stored under a key that readers test for presence (an `add(key, <placeholder>)` reservation is visible as an EMPTY script to a thread that renders in between)")
    n = 0
    for m, q, f in proj.all_funcs():
        for st in stmts(f):
            if isinstance(st, ast.Expr) and isinstance(st.value, ast.Call) and isinstance(st.value.func, ast.Attribute) and st.value.func.attr == "acquire":
                n += 1
                lock = norm(st.value.func.value)
                blk = next((getattr(st.parent, fld) for fld in ("body", "orelse", "finalbody") if isinstance(getattr(st.parent, fld, None), list) and st in getattr(st.parent, fld)), [])  # type: ignore[attr-defined]
                nxt = blk[blk.index(st) + 1] if st in blk and blk.index(st) + 1 < len(blk) else None
                ok = isinstance(nxt, ast.Try) and any(isinstance(x, ast.Call) and isinstance(x.func, ast.Attribute) and x.func.attr == "release" and norm(x.func.value) == lock for fb in nxt.finalbody for x in ast.walk(fb))
                inside_try = any(isinstance(a, ast.Try) and any(isinstance(x, ast.Call) and isinstance(x.func, ast.Attribute) and x.func.attr == "release" and norm(x.func.value) == lock for fb in a.finalbody for x in ast.walk(fb)) for a in ancestors(st))
                chk.ob("S1-A7", f"{m.name.replace('django_components.', '')}:{q}:{lock}.acquire()", m.loc(st), ok or inside_try,
                       f"`{lock}.release()` is in the `finally` of the try that follows" if ok or inside_try else
                       f"`{lock}.acquire()` is followed by code that can raise before `{lock}.release()` runs (no try / finally): after one failing compilation in a worker thread the lock is never freed and every render in every other thread hangs")
    dm = proj.mod("dependencies")
    for q, f in dm.funcs():
        for c in [x for x in body_walk(f) if isinstance(x, ast.Call) and isinstance(x.func, ast.Attribute) and x.func.attr in ("add", "set", "set_many", "get_or_set") and len(x.args) >= 2]:
            recv = x_ = norm(c.func.value)
            is_cache = any(isinstance(v, ast.Call) and last_attr(v.func) == "get_component_media_cache" for _s, v in assignments(f, recv)) or "cache" in recv.lower()
            if not is_cache:
                continue
            n += 1
            const = isinstance(c.args[1], ast.Constant)
            chk.ob("S1-A7", f"dependencies:{q}:{short(c, 40)}:stores-a-real-value", dm.loc(c), not const,
                   "the value stored is computed from the script" if not const else
                   f"`{short(c)}` puts the placeholder {c.args[1].value!r} under the script's key: between this reservation and the real `set` the entry EXISTS, so another thread's presence test succeeds and its page gets `<script></script>` with no code")
    chk.floor("S1-A7", n, 1)


def s1a_parsed_values(chk: Check, proj: Project, w) -> None:
    chk.rule("S1-A4", "parsed tag values hang off cached template Nodes and are shared by all threads: after construction their methods write nothing but their own flag-guarded memo field - never a field of a part / entry / child (not even temporarily)")
    n = 0
    for m, q, c in [(mm_, q_, c_) for mn_ in ("util.tag_parser", "expression") for mm_ in [proj.mod(mn_)] for q_, c_ in sorted(mm_.defs.items())]:
        if not isinstance(c, ast.ClassDef):
            continue
        for f in c.body:
            if not isinstance(f, ast.FunctionDef) or f.name in ("__init__", "__post_init__", "__new__"):
                continue
            n += 1
            chk.analysed(fkey(m, f))
            # locals that alias something reachable from self
            alias: Set[str] = set()
            for _ in range(2):
                for st in stmts(f):
                    for t, v in assign_targets(st):
                        if isinstance(t, ast.Name) and v is not None:
                            roots = {x.id for x in ast.walk(v) if isinstance(x, ast.Name)}
                            if ("self" in roots or roots & alias) and not isinstance(v, (ast.Call, ast.JoinedStr, ast.Constant)):
                                alias.add(t.id)
                    if isinstance(st, ast.For):
                        roots = {x.id for x in ast.walk(st.iter) if isinstance(x, ast.Name)}
                        if "self" in roots or roots & alias:
                            alias |= {x.id for x in ast.walk(st.target) if isinstance(x, ast.Name)}
            guards = set()
            for st in f.body:
                if isinstance(st, ast.If) and always_exits(st.body):
                    guards |= {x.attr for x in ast.walk(st.test) if isinstance(x, ast.Attribute) and isinstance(x.value, ast.Name) and x.value.id == "self"}
            bad = None
            for x in body_walk(f):
                if isinstance(x, (ast.Attribute, ast.Subscript)) and isinstance(x.ctx, (ast.Store, ast.Del)):
                    root = x.value
                    direct_self = isinstance(x, ast.Attribute) and isinstance(root, ast.Name) and root.id == "self"
                    while isinstance(root, (ast.Attribute, ast.Subscript)):
                        root = root.value
                    if not isinstance(root, ast.Name):
                        continue
                    if direct_self:
                        if x.attr not in guards:
                            bad = (x, "a field that is not the method's flag-guarded memo")
                    elif root.id == "self" or root.id in alias:
                        bad = (x, "a field of an object reachable from the shared value")
            key = f"{m.name.replace('django_components.', '')}:{q}.{f.name}:no-shared-write"
            if bad:
                chk.violated("S1-A4", key, m.loc(bad[0][0] if isinstance(bad[0], tuple) else bad[0]), f"`{short(enclosing_stmt(bad[0]))}` writes {bad[1]}: the value belongs to a Node of a cached Template, so another thread that resolves the same tag in between sees the intermediate state (e.g. a spread marker temporarily cleared)")
            else:
                chk.holds("S1-A4", key, m.loc(f), "writes only its own guarded memo field (or nothing)")
    chk.floor("S1-A4", n, 8)


def s1a_nodes(chk: Check, proj: Project, w, reach) -> None:
    chk.rule("S1-A2", "template Nodes are shared between threads through cached templates: render-time methods of Node classes do not store to self; stores on Template objects are reviewed")
    n = 0
    node_classes = []
    for m in proj.modules.values():
        for q, c in m.defs.items():
            if isinstance(c, ast.ClassDef) and any((dotted(b) or "").split(".")[-1] in ("BaseNode", "Node") for b in c.bases):
                node_classes.append((m, c))
    for m, c in node_classes:
        # render-time methods: render / render_annotated and every method of the class they reach through `self.<m>`
        # (called, or handed on as a bound method)
        meths = {x.name: x for x in c.body if isinstance(x, ast.FunctionDef)}
        rt = {k for k in meths if k in ("render", "render_annotated")}
        grew = True
        while grew:
            grew = False
            for k in list(rt):
                for x in ast.walk(meths[k]):
                    if isinstance(x, ast.Attribute) and isinstance(x.ctx, ast.Load) and isinstance(x.value, ast.Name) and x.value.id == "self" and x.attr in meths and x.attr not in rt and x.attr not in ("__init__", "parse"):
                        rt.add(x.attr)
                        grew = True
        for st in c.body:
            if isinstance(st, ast.FunctionDef) and st.name in rt:
                n += 1
                chk.analysed(fkey(m, st))
                bad = [x for x in body_walk(st) if isinstance(x, ast.Attribute) and isinstance(x.ctx, (ast.Store, ast.Del)) and isinstance(x.value, ast.Name) and x.value.id == "self"]
                key = f"{m.name.replace('django_components.', '')}:{c.name}.{st.name}:no-self-store"
                if bad:
                    chk.violated("S1-A2", key, m.loc(bad[0]), f"`{short(enclosing_stmt(bad[0]))}` writes the Node during render; the Node belongs to a cached Template shared by all threads")
                else:
                    chk.holds("S1-A2", key, m.loc(st), "no store to self in the Node's render method")
    # stores on Template objects in render-reachable functions
    for fk in sorted(reach):
        m, f = w.cg.funcs[fk]
        for x in body_walk(f):
            if isinstance(x, ast.Attribute) and isinstance(x.ctx, ast.Store) and isinstance(x.value, ast.Name) and x.value.id in ("template", "tmpl", "cached_tpl"):
                n += 1
                tbl = A_TEMPLATE_OK.get((m.name.replace("django_components.", ""), qual_of(x).split(".")[-1], x.attr))
                key = f"{fk.replace('django_components.', '')}:template.{x.attr}"
                if tbl and x.attr == "_djc_is_component_nested" and qual_of(x).split(".")[-1] == "_prepare_template":
                    # the review rests on the VALUE: every thread stores the same thing. A literal True, or
                    # bool(<render_context>.get(BLOCK_CONTEXT_KEY)) evaluated after the render pushed a BlockContext object
                    st_ = enclosing_stmt(x)
                    v_ = getattr(st_, "value", None)
                    tv = norm(v_) if v_ is not None else ""
                    same_for_all = (isinstance(v_, ast.Constant) and v_.value is True) or bool(re.fullmatch(r"bool\((\w+\.)*render_context\.get\(BLOCK_CONTEXT_KEY\)\)", tv))
                    chk.ob("S1-A2", key, m.loc(x), same_for_all, f"reviewed: {tbl}" if same_for_all else
                           f"`{short(st_)}` stores a value that differs between renders on the process-wide cached Template (it is written at prepare time and read when the DEFERRED render starts): a page that extends and overrides a block renders concurrently with a plain page using the same component, the plain one lands in between, and the extending page gets the standard body")
                elif tbl:
                    chk.holds("S1-A2", key, m.loc(x), f"reviewed: {tbl}", nontrivial=False)
                else:
                    chk.violated("S1-A2", key, m.loc(x), f"`{short(enclosing_stmt(x))}` stores on a Template object during render; Template instances come from shared caches")
    chk.floor("S1-A2", n, 6)


MANIFEST = {
    "text": "Race freedom by ownership, decided from the source for every schedule at once: all accesses to process-global state are enumerated and each must be a point access under a render-private id, a reviewed idempotent memo write, a lock-protected compound update, or a flag-last publication; whole-container observations, live iteration, check-then-read on evictable caches, unlocked compound updates and early 'ready' flags are reported with the site. It does not run threads. Also: re-entrant lazy resolution is idempotent (a helper never raises because its own output field is set), parsed tag values hanging off cached Nodes are never written after construction, and an instance the library shares between threads (as_view) keeps per-render state only in thread-confined storage. Round 4: purity of the class-media memo (shared with C16-S2). Round 5: shared-instance rule over all in-package Component subclasses, the value stored on a Template is this render's, lock pairing borrowed from C18. Round 6: accesses through a whole-container local alias of a global (also from closures) are classified like direct ones. Round 7: shared-value rule also over the expression classes; states encoded as constants count as publications; the Media memo entry is complete when published (shared with C16-S2).",
    "note": "Trusted: single dict/set operations are atomic under the GIL; render ids do not collide; Django's engine, loaders and cache backends are thread-safe. Reviewed benign sites are tables in rules/C07.py (one symbol + reason each). Not decided: equality of outputs under interleaving as an observable.",
    "technique": "static access classification of shared state (inventory + call-graph reachability), lock-coverage and publication-order rules",
}
