"""Rule templates that are not tied to one function: they are instantiated over a set of modules and report every site.

forwarding   a function that hands its own parameters on to an in-package callee (>= 3 of them, by keyword `p=p` or by
             position) hands on EVERY parameter the two signatures share, and a positional one lands on the callee parameter
             of the same name. A wrapper that forgets one silently applies the callee's default.
"""
from __future__ import annotations

import ast
from typing import Dict, List, Optional, Sequence, Set, Tuple

from ..astq import calls, params
from ..callgraph import CallGraph
from ..report import Check
from ..source import Project, norm, short

# (caller qualname, callee name, parameter) -> reason why the parameter is deliberately not forwarded
FORWARDING_OK: Dict[Tuple[str, str, str], str] = {}


def forwarding(chk: Check, rule: str, proj: Project, cg: CallGraph, modules: Sequence[str], floor: int = 1) -> None:
    n = 0
    for mn in modules:
        m = proj.mod(mn)
        for q, f in sorted(m.defs.items()):
            if not isinstance(f, ast.FunctionDef):
                continue
            fp = [p for p in params(f) if p not in ("self", "cls")]
            if len(fp) < 3:
                continue
            for c in calls(f):
                kw_same = [k for k in c.keywords if k.arg and isinstance(k.value, ast.Name) and k.value.id == k.arg and k.arg in fp]
                pos_same = [a for a in c.args if isinstance(a, ast.Name) and a.id in fp]
                if len(kw_same) + len(pos_same) < 3:
                    continue
                tg = cg.resolve_callee(m, c, c.func)
                if tg is None or not isinstance(tg[1], ast.FunctionDef):
                    continue
                g = tg[1]
                gp = params(g)
                off = 1 if gp and gp[0] in ("self", "cls") and not (isinstance(c.func, ast.Name)) else 0
                n += 1
                chk.analysed(f"{m.name}:{q}")
                passed: Set[str] = {k.arg for k in c.keywords if k.arg}
                misbound: List[Tuple[str, str]] = []
                for i, a in enumerate(c.args):
                    if isinstance(a, ast.Starred):
                        passed |= set(gp)
                        break
                    tgt = gp[i + off] if i + off < len(gp) else None
                    if tgt is not None:
                        passed.add(tgt)
                        if isinstance(a, ast.Name) and a.id in fp and a.id in gp and a.id != tgt:
                            misbound.append((a.id, tgt))
                if any(k.arg is None for k in c.keywords):
                    passed |= set(gp)
                missing = [p for p in fp if p in gp and p not in passed and (q, g.name, p) not in FORWARDING_OK]
                key = f"{m.name.replace('django_components.', '')}:{q}->{g.name}:forwards-shared-parameters"
                if misbound:
                    chk.violated(rule, key, m.loc(c), f"`{short(c, 60)}` passes `{misbound[0][0]}` in the position of the callee's `{misbound[0][1]}`: the two values are swapped / shifted on the way down")
                elif missing:
                    chk.violated(rule, key, m.loc(c), f"`{short(c, 60)}` does not hand `{missing[0]}` on to {g.name}() although both take it: the caller's value is ignored and {g.name}() applies its default")
                else:
                    chk.holds(rule, key, m.loc(c), f"all shared parameters reach {g.name}()")
    chk.floor(rule, n, floor)


MEMO_DECORATORS = ("lru_cache", "cache", "cached", "memoize", "memoized")


def no_value_keyed_memo(chk: Check, rule: str, proj: Project, funcs: List[Tuple[str, str]], why: str) -> None:
    """None of `funcs` (module, qualified name) is wrapped in a value-keyed memo decorator. `why` says what the function
    reads that a memo would freeze."""
    for mod, q in funcs:
        r = proj.try_func(mod, q)
        if r is None:
            chk.undecided(rule, f"{mod}:{q}:not-memoised", "?", f"{mod}:{q} not found")
            continue
        m, f = r
        decs = [norm(d.func) if isinstance(d, ast.Call) else norm(d) for d in f.decorator_list]
        memo = [d for d in decs if d.split(".")[-1] in MEMO_DECORATORS]
        chk.ob(rule, f"{mod}:{q}:not-memoised", m.loc(f), not memo,
               "no memo decorator" if not memo else f"`@{memo[0]}` freezes the first answer for equal arguments, but {why}")


def ident_kind(name: str) -> Optional[str]:
    """The one script kind an identifier names (`css_input_hash`, `toLoadJsTags`, `JS_PLACEHOLDER`), else None."""
    import re

    toks = {t.lower() for part in name.split("_") for t in re.findall(r"[A-Z]+(?![a-z])|[A-Z]?[a-z0-9]+", part)}
    has = [k for k in ("js", "css") if k in toks]
    return has[0] if len(has) == 1 else None


def _terminal_ident(e: ast.AST) -> Optional[str]:
    if isinstance(e, ast.Name):
        return e.id
    if isinstance(e, ast.Attribute):
        return e.attr
    if isinstance(e, ast.Subscript) and isinstance(e.slice, ast.Constant) and isinstance(e.slice.value, str):
        return e.slice.value
    if isinstance(e, ast.Call) and isinstance(e.func, ast.Attribute) and e.func.attr in ("get", "pop", "decode", "encode", "strip") :
        if e.func.attr in ("get", "pop") and e.args and isinstance(e.args[0], ast.Constant) and isinstance(e.args[0].value, str):
            return e.args[0].value
        if e.func.attr in ("decode", "encode", "strip"):
            return _terminal_ident(e.func.value)
    if isinstance(e, ast.BoolOp) and e.values:
        return _terminal_ident(e.values[0])
    return None


def kind_named_args(chk: Check, rule: str, proj: Project, cg: CallGraph, modules: Sequence[str], floor: int = 1) -> None:
    """Twin-kind argument agreement: where a callee's parameter names one script kind (`css_input_hash`) and the argument
    is a variable / attribute / constant-keyed item that names a kind too, the two kinds are the same. The js / css twins
    have identical types everywhere, so a swap type-checks and every test that uses only one kind passes."""
    n = 0
    for mn in modules:
        m = proj.mod(mn)
        for q, f in sorted(m.defs.items()):
            if not isinstance(f, (ast.FunctionDef, ast.AsyncFunctionDef)):
                continue
            for c in calls(f):
                tg = cg.resolve_callee(m, c, c.func)
                if tg is None:
                    continue
                g = tg[1]
                if isinstance(g, ast.ClassDef):
                    init = cg.find_method(tg[0], g, "__init__")
                    flds = [s.target.id for s in g.body if isinstance(s, ast.AnnAssign) and isinstance(s.target, ast.Name)]
                    if init is not None:
                        gp = params(init[1])[1:]
                    else:
                        gp = flds
                    off = 0
                elif isinstance(g, (ast.FunctionDef, ast.AsyncFunctionDef)):
                    gp = params(g)
                    off = 1 if gp and gp[0] in ("self", "cls") and not isinstance(c.func, ast.Name) else 0
                    gp = gp[off:]
                else:
                    continue
                pairs: List[Tuple[str, ast.AST]] = []
                for i, a in enumerate(c.args):
                    if isinstance(a, ast.Starred):
                        break
                    if i < len(gp):
                        pairs.append((gp[i], a))
                pairs += [(k.arg, k.value) for k in c.keywords if k.arg]
                for pn, a in pairs:
                    kp = ident_kind(pn)
                    ti = _terminal_ident(a)
                    ka = ident_kind(ti) if ti else None
                    if isinstance(a, ast.Constant) and a.value in ("js", "css"):
                        ka = a.value
                    if kp is None or ka is None:
                        continue
                    n += 1
                    chk.analysed(f"{m.name}:{q}")
                    gname = getattr(g, "name", "?")
                    chk.ob(rule, f"{m.name.replace('django_components.', '')}:{q}->{gname}({pn}=):kind-of-argument", m.loc(a), kp == ka,
                           f"`{short(a, 40)}` ({ka}) is bound to `{pn}`" if kp == ka else
                           f"`{short(a, 60)}` (a {ka} value) is bound to {gname}()'s `{pn}` (the {kp} one): the two kinds are swapped on the way down - e.g. the CSS variables hash is recorded in the JS field of the dependency marker, so the page announces `<hash>.<css-input>.js`, which was never cached (404), and the stylesheet for the CSS variables is never announced")
    chk.floor(rule, n, floor)
