"""C13 — html_attrs and Python-passed slot content are emitted escaped (DESIGN.md section 3, C13).

S1 escape-before-emit: everything appended to the attribute list passes a sanitizer (conditional_escape / escape /
   positional format_html); every mark_safe / SafeString sink of the package is reviewed or built from inert parts.
S2 exactly-once escaping of slot content: plain content is escaped under escape_content; a callable is wrapped by the
   escaping closure unless it is a Slot that is already escaped; the Slot built for it is marked escaped.
S3 merge order defaults < attrs < appended kwargs; None/False skipped, True renders the bare (escaped) key.
S4 end-tag guard: component JS/CSS containing `</script` / `</style` in any letter case, whatever follows, is refused
   before it is wrapped.
"""
from __future__ import annotations

import ast
import re
from typing import List, Optional, Set, Tuple

from ..absstr import Evaluator, alphabet_of
from ..astq import assignments, calls, kwarg, params, stmts
from ..callgraph import fkey
from ..cfg import CFG, cond_atoms, flatten_conj, path_conditions
from ..regexlang import ASCII_WORD, Lang, Seg
from ..report import Check
from ..source import AnalysisError, Project, ancestors, body_walk, dotted, enclosing_func, enclosing_stmt, last_attr, norm, parent, qual_of, short
from .common import world

SANITIZERS = {"conditional_escape", "escape", "format_html"}

# reviewed mark_safe / SafeString sinks: (module, function) -> why the argument is safe
SINKS_OK = {
    ("slots", "SlotRef.__str__"): "NodeList.render() output (Django escapes variables while rendering)",
    ("slots", "_extract_fill_content"): "NodeList.render() output, stripped",
    ("dependencies", "set_component_attrs_for_js_and_css"): "re-marks the HTML step's output only if the input was a SafeString",
    ("dependencies", "insert_component_dependencies_comment"): "marker comment (alphabet checked by C04-S1) + the component's rendered template output",
    ("dependencies", "render_dependencies"): "re-marks only if the input was a SafeString",
    ("dependencies", "_component_dependencies"): "module constant placeholder",
    ("perfutil.component", "component_post_render"): "placeholder with an id of inert alphabet / joined outputs of component renderers",
    ("attributes", "attributes_to_string"): "join of sanitised parts (checked structurally by S1)",
}

# number of non-constant mark_safe / SafeString sinks that were reviewed per function
SINK_COUNT = {
    ("attributes", "attributes_to_string"): 1, ("dependencies", "set_component_attrs_for_js_and_css"): 1, ("dependencies", "insert_component_dependencies_comment"): 1,
    ("dependencies", "render_dependencies"): 1, ("perfutil.component", "component_post_render"): 2, ("slots", "_extract_fill_content"): 1, ("slots", "SlotRef.__str__"): 1,
}


def run(chk: Check, proj: Project) -> None:
    chk.explanation = (
        "Taint-style discipline: sources (attribute keys/values, slot content, component JS/CSS) reach HTML sinks "
        "(mark_safe, TextNode, <script>/<style> wrapping) only through a sanitizer or a refusal that dominates the "
        "emission; all mark_safe sinks are enumerated and classified; escaping of slot content is exactly-once by a "
        "typestate on Slot.escaped."
    )
    chk.not_decided = ["HTML-parser round trip of arbitrary attribute names", "number/bool concatenation semantics of repeated keywords"]
    chk.trusted_base = ["django.utils.html.conditional_escape / format_html escape their positional arguments unless they are SafeData", "Template/NodeList.render output is safe HTML"]
    w = world(proj)
    s1(chk, proj, w)
    s2(chk, proj, w)
    s3(chk, proj, w)
    s4(chk, proj, w)
    from . import C01, C08

    chk.borrow("S8", "slot content given from Python is emitted as given: only `None` means 'no fill' - an empty string is content (the slot must not fall back to its default markup, nor a required slot raise) (shared with C01-S4)",
               lambda sub: C01.s4(sub, proj, w), only=lambda o: "none" in o.construct.lower() or "dropped" in o.construct.lower())
    s9_replacement_is_not_a_template(chk, proj)
    s5_merge_repeated(chk, proj, w)
    s6_pipeline(chk, proj, w)
    s10_parts_render_escaped(chk, proj)
    s12_append_never_skips(chk, proj)
    from . import C07 as _C07

    chk.borrow("S11", "whether slot content given from Python is escaped is decided by THIS render's `escape_slots_content`: the wrapper that escapes a slot function's output is built per render - a process-wide memo keyed by the function object freezes the flag of the first render, so after one render with escaping off every later render of that function emits its raw output (shared with C07-S1-C)",
               lambda sub: _C07.s1c_shared(sub, proj, w, _C07.reach_set(proj, w)), only=lambda o: "_normalize_slot_fills" in o.construct or "attributes:" in o.construct)
    from . import generic

    chk.rule("S7", "render routes forward every shared parameter (escape_slots_content among them), generic form (shared with C01-S10)")
    generic.forwarding(chk, "S7", proj, w.cg, ["component", "attributes"], floor=4)


def s6_pipeline(chk: Check, proj: Project, w) -> None:
    chk.rule("S6", "html_attrs post-processing order: repeated keywords are merged BEFORE aggregate keys (`attrs:class=`) are folded into dicts (folding assigns, so a repeat would overwrite); render_to_response forwards every argument it shares with render (escape_slots_content among them); mappings are spread by the Mapping ABC (shared with C11-S6)")
    m, f = proj.func("util.template_tag", "resolve_params")
    chk.analysed(fkey(m, f))
    mg = [c for c in calls(f, "merge_repeated_kwargs")]
    ag = [c for c in calls(f, "process_aggregate_kwargs")]
    if len(mg) != 1 or len(ag) != 1:
        chk.undecided("S6", "util.template_tag:resolve_params:merge-before-aggregate", m.loc(f), f"{len(mg)} merge / {len(ag)} aggregate calls")
    else:
        ok = mg[0].lineno < ag[0].lineno and isinstance(enclosing_stmt(ag[0]), ast.Assign) and enclosing_stmt(ag[0]) in f.body
        chk.ob("S6", "util.template_tag:resolve_params:merge-before-aggregate", m.loc(ag[0]), ok,
               "merge_repeated_kwargs runs before process_aggregate_kwargs" if ok else
               "aggregate keys are folded before repeated keywords are merged: `attrs:class=\"a\" attrs:class=\"b\"` becomes a plain assignment into the nested dict and renders class=\"b\" instead of class=\"a b\"")
    cm, rr = proj.func("component", "Component.render_to_response")
    _cm2, rd = proj.func("component", "Component.render")
    chk.analysed(fkey(cm, rr))
    inner = [c for c in calls(rr) if isinstance(c.func, ast.Attribute) and c.func.attr == "render" and len(c.keywords) >= 4]
    if len(inner) != 1:
        chk.undecided("S6", "component:Component.render_to_response:forwards-shared-arguments", cm.loc(rr), f"{len(inner)} inner render calls")
    else:
        shared = [p_ for p_ in params(rr) if p_ in params(rd) and p_ not in ("cls", "self")]
        missing = []
        for p_ in shared:
            v = kwarg(inner[0], p_)
            if v is None or not ((isinstance(v, ast.Name) and v.id == p_) or (p_ == "render_dependencies" and isinstance(v, ast.Constant))):
                if p_ == "render_dependencies" and v is None:
                    continue
                missing.append(p_)
        chk.ob("S6", "component:Component.render_to_response:forwards-shared-arguments", cm.loc(inner[0]), not missing,
               f"all of {shared} are forwarded to render() by name" if not missing else
               f"render_to_response() does not forward {missing} to render(): render_to_response(..., escape_slots_content=False) still HTML-escapes the slot content (render falls back to its default)")
    from . import C11

    sub_m = proj.mod("util.template_tag")
    chk.borrow("S6", "html_attrs post-processing order; forwarding; Mapping ABC (shared with C11-S6)", lambda sub: C11.s6(sub, proj, sub_m))


def s5_merge_repeated(chk: Check, proj: Project, w) -> None:
    chk.rule("S5", "merge_repeated_kwargs: the remembered position of a key indexes the OUTPUT list it is applied to; every further repeat is appended to the already merged value")
    m, f = proj.func("util.template_tag", "merge_repeated_kwargs")
    chk.analysed(fkey(m, f))
    rets = [r for r in stmts(f) if isinstance(r, ast.Return) and isinstance(r.value, ast.Name)]
    if not rets:
        chk.undecided("S5", "util.template_tag:merge_repeated_kwargs:shape", m.loc(f), "no `return <list>`")
        return
    out = norm(rets[-1].value)
    # replacement store: out[<idx>] = <copy>
    repl = [x for x in stmts(f) if isinstance(x, ast.Assign) and isinstance(x.targets[0], ast.Subscript) and norm(x.targets[0].value) == out]
    if len(repl) != 1 or not isinstance(repl[0].targets[0].slice, ast.Name):
        chk.undecided("S5", "util.template_tag:merge_repeated_kwargs:shape", m.loc(f), "replacement store into the output list not recognised")
        return
    idxv = repl[0].targets[0].slice.id
    d = assignments(f, idxv)
    src = d[0][1] if len(d) == 1 else None
    idx_map = norm(src.value) if isinstance(src, ast.Subscript) else None
    rec = [x for x in stmts(f) if isinstance(x, ast.Assign) and isinstance(x.targets[0], ast.Subscript) and norm(x.targets[0].value) == idx_map]
    ok = len(rec) == 1 and norm(rec[0].value) == f"len({out})"
    if ok:
        # ... recorded right before the append of that same element
        blk = next((b for a in ancestors(rec[0]) for b in (getattr(a, "body", None), getattr(a, "orelse", None)) if isinstance(b, list) and rec[0] in b), [])
        i = blk.index(rec[0]) if rec[0] in blk else -1
        ok = i >= 0 and any(isinstance(x, ast.Expr) and norm(x).startswith(f"{out}.append(") for x in blk[i + 1:]) and not any(isinstance(x, ast.Expr) and norm(x).startswith(f"{out}.append(") for x in blk[:i])
    chk.ob("S5", "util.template_tag:merge_repeated_kwargs:index-frame", m.loc(rec[0]) if rec else m.loc(f), ok,
           f"the position remembered per key is len({out}) at the moment the first occurrence is appended (an index into the output list)" if ok else
           f"the position remembered per key (`{short(rec[0]) if rec else '?'}`) is not an index into `{out}`, the list it is later applied to: once an earlier keyword has been merged the output list is shorter than the input, so two different repeated keywords raise IndexError or overwrite the wrong parameter")
    # the value a repeat is appended to is the merged copy kept per key
    cp = repl[0].value
    cpn = norm(cp) if isinstance(cp, ast.Name) else None
    cd = assignments(f, cpn) if cpn else []
    origv = None
    if cd and isinstance(cd[0][1], ast.Call):
        for k in cd[0][1].keywords:
            if k.arg == "value":
                origv = next((x.id for x in ast.walk(k.value) if isinstance(x, ast.Name) and x.id not in ("str",)), None)
    od = assignments(f, origv) if origv else []
    by_key = norm(od[0][1].value) if od and isinstance(od[0][1], ast.Subscript) else None
    keeps = by_key is not None and any(isinstance(x, ast.Assign) and isinstance(x.targets[0], ast.Subscript) and norm(x.targets[0].value) == by_key and norm(x.value) == cpn for x in stmts(f))
    aug = [x for x in stmts(f) if isinstance(x, ast.AugAssign) and isinstance(x.op, ast.Add)]
    app_ok = bool(aug) and by_key is not None and norm(aug[-1].target).startswith(f"{by_key}[") and norm(aug[-1].value).startswith("' ' + ")
    chk.ob("S5", "util.template_tag:merge_repeated_kwargs:repeats-extend-merged-value", m.loc(od[0][0]) if od else m.loc(f), bool(keeps and app_ok),
           "the copy is made from the per-key entry (which holds the merged value so far), stored back, and every repeat is appended to it with one space" if keeps and app_ok else
           "a repeat is merged onto a fresh copy of the ORIGINAL parameter instead of the value merged so far: with three or more occurrences the middle ones are lost (class=a class=b class=c gives 'a c')")


def _sanitised(e: ast.AST, sources: Set[str]) -> Tuple[bool, str]:
    """Is the expression a sanitizer applied to sources (or a constant)?"""
    if isinstance(e, ast.Constant):
        return True, "constant"
    if isinstance(e, ast.Call):
        fn = last_attr(e.func)
        if fn in ("conditional_escape", "escape") and len(e.args) == 1:
            return True, fn
        if fn == "format_html" and e.args and isinstance(e.args[0], ast.Constant) and isinstance(e.args[0].value, str):
            holes = len(re.findall(r"\{\}", e.args[0].value))
            named = re.findall(r"\{(\w+)\}", e.args[0].value)
            if holes == len(e.args) - 1 and not named and not e.keywords:
                # every hole is a positional (escaped) argument; the format itself must not contain sources
                return True, "format_html with positional arguments"
            return False, "format_html whose placeholders do not match its arguments"
    used = {n.id for n in ast.walk(e) if isinstance(n, ast.Name)} & sources
    if not used:
        return True, "no source involved"
    return False, f"raw {sorted(used)}"


def s1(chk: Check, proj: Project, w) -> None:
    chk.rule("S1", "every part of the attribute string passes a sanitizer before mark_safe; every mark_safe/SafeString sink in the package is reviewed or built from inert parts")
    m, f = proj.func("attributes", "attributes_to_string")
    chk.analysed(fkey(m, f))
    loop = next((x for x in body_walk(f) if isinstance(x, ast.For) and ".items()" in norm(x.iter)), None)
    if loop is None:
        raise AnalysisError("attributes_to_string: loop over items() vanished")
    sources = {n.id for n in ast.walk(loop.target) if isinstance(n, ast.Name)}
    apps = [c for c in calls(f, "append")]
    chk.floor("S1-appends", len(apps), 2)
    inert: Set[str] = set()
    # attribute NAMES cannot be escaped in HTML: every name that is emitted has passed a guard that refuses the characters
    # which end a name (whitespace, quotes, '>', '/', '=')
    keyv = norm(loop.target.elts[0]) if isinstance(loop.target, ast.Tuple) else None
    guards = []
    for iff in [x for x in ast.walk(loop) if isinstance(x, ast.If) and x.body and isinstance(x.body[-1], (ast.Raise, ast.Continue))]:
        # the search alone (or as one alternative of an `or`) must decide: a conjunct next to it can switch the guard off
        alts = iff.test.values if isinstance(iff.test, ast.BoolOp) and isinstance(iff.test.op, ast.Or) else [iff.test]
        for c in alts:
            if isinstance(c, ast.Call) and isinstance(c.func, ast.Attribute) and c.func.attr == "search" and c.args and keyv and keyv in {x.id for x in ast.walk(c.args[0]) if isinstance(x, ast.Name)}:
                guards.append((iff, c))
    need = [" ", "\t", "\n", "\f", "\r", '"', "'", ">", "/", "="]
    if not guards:
        chk.violated("S1", "attributes:attributes_to_string:name-guard", m.loc(loop),
                     "attribute names are only HTML-escaped, and escaping leaves whitespace, '=' and '/' alone: the name `x onclick=alert(1)` is emitted as `x onclick=alert(1)=\"v\"`, which a parser reads as the attributes `x` and `onclick` - the name breaks out into an attribute of the attacker's choice")
    else:
        iff, c = guards[0]
        from ..regexlang import Lang, Seg
        from .markers import compiled_regex

        gname = norm(c.func.value)
        try:
            pat, fl, _n = compiled_regex(proj, "attributes", gname)
            lang = Lang(pat, fl)
            missing = [ch for ch in need if not lang.accepts_all([Seg.lit(ch)])[0]]
            first_app = min(a.lineno for a in apps)
            dominates = iff in loop.body and iff.lineno < first_app
            okg = not missing and dominates
            if okg and all(lang.accepts_all([Seg.lit(ch)])[0] for ch in '<>"\''):
                inert.add(keyv)
            chk.ob("S1", "attributes:attributes_to_string:name-guard", m.loc(iff), okg,
                   f"`{gname}` ({pat!r}) refuses every name containing whitespace, a quote, '>', '/' or '=' before anything is appended" if okg else
                   (f"the name guard `{gname}` ({pat!r}) lets {missing!r} through: such a character ends the attribute name, the rest of the name is read as further attributes" if missing else
                    "the name guard does not run before every append (it is nested under another condition or comes after one)"))
        except AnalysisError as e:
            chk.undecided("S1", "attributes:attributes_to_string:name-guard", m.loc(iff), f"guard pattern not foldable: {e}")
    lists = set()
    for c in apps:
        lists.add(norm(c.func.value))  # type: ignore[union-attr]
        ok, why = _sanitised(c.args[0], sources) if c.args else (False, "no argument")
        if not ok and c.args and isinstance(c.args[0], ast.Name) and c.args[0].id in inert:
            ok, why = True, "a name the guard has cleared of quotes, angle brackets and separators (nothing left to escape but '&', which parsers do not decode in names)"
        chk.ob("S1", f"attributes:attributes_to_string:{short(c, 60)}", m.loc(c), ok, f"appended part is {why}" if ok else f"`{short(c)}` emits {why} into the attribute string without escaping: a quote or angle bracket in it breaks out of the attribute")
    rets = [s for s in stmts(f) if isinstance(s, ast.Return) and s.value is not None]
    for r in rets:
        v = r.value
        ok = isinstance(v, ast.Call) and last_attr(v.func) == "mark_safe" and len(v.args) == 1 and isinstance(v.args[0], ast.Call) and last_attr(v.args[0].func) == "join" and norm(v.args[0].args[0]) in lists
        chk.ob("S1", "attributes:attributes_to_string:return", m.loc(r), ok, "the result is the join of the sanitised parts" if ok else f"`{short(r)}` does not return the join of the sanitised parts")
    # append_attributes / HtmlAttrsNode.render / merge_repeated_kwargs must not produce SafeData themselves
    n = 0
    for mm, q, fn in proj.all_funcs():
        if "management" in mm.name:
            continue
        for c in calls(fn):
            nm = last_attr(c.func)
            if nm not in ("mark_safe", "SafeString", "SafeText"):
                continue
            if isinstance(parent(c), ast.Attribute) and parent(c).attr == "join":  # SafeString(" ").join(...)
                continue
            n += 1
            key = f"{mm.name.replace('django_components.', '')}:{q}:{short(c, 60)}"
            top = q
            tbl = SINKS_OK.get((mm.name.replace("django_components.", ""), top)) or SINKS_OK.get((mm.name.replace("django_components.", ""), q.split(".")[0]))
            arg = c.args[0] if c.args else None
            if arg is None or isinstance(arg, ast.Constant):
                chk.holds("S1", key, mm.loc(c), "constant", nontrivial=False)
            elif tbl:
                chk.holds("S1", key, mm.loc(c), f"reviewed sink: {tbl}", nontrivial=False)
            else:
                chk.violated("S1", key, mm.loc(c), f"new HTML sink `{short(c)}` in {q}: its argument is not a reviewed safe value, so data marked safe here is emitted without escaping")
    chk.floor("S1-sinks", n, 8)
    # a reviewed function stays reviewed only for the sinks that were looked at: a further mark_safe in it is a new sink
    per_fn: Dict[Tuple[str, str], List[ast.Call]] = {}
    for mm, q, fn in proj.all_funcs():
        for c in calls(fn):
            if last_attr(c.func) in ("mark_safe", "SafeString", "SafeText") and not (isinstance(parent(c), ast.Attribute) and parent(c).attr == "join") and c.args and not isinstance(c.args[0], ast.Constant):
                per_fn.setdefault((mm.name.replace("django_components.", ""), q), []).append(c)
    for key_, lst in sorted(per_fn.items()):
        exp = SINK_COUNT.get(key_)
        if exp is not None:
            mm = proj.mod(key_[0])
            chk.ob("S1", f"{key_[0]}:{key_[1]}:reviewed-sink-count", mm.loc(lst[-1]), len(lst) <= exp,
                   f"{len(lst)} reviewed sink(s)" if len(lst) <= exp else
                   f"`{short(lst[-1])}` is a further HTML sink in {key_[1]} ({len(lst)} where {exp} were reviewed): what it marks safe was not looked at - e.g. `mark_safe(str(value))` for non-str attribute values lets a lazy translation string or an object's __str__ with a quote in it break out of the attribute")


def s2(chk: Check, proj: Project, w) -> None:
    chk.rule("S2", "slot content: plain values are escaped under escape_content; callables are wrapped by the escaping closure unless they are Slots already marked escaped; the resulting Slot is marked escaped")
    m, f = proj.func("component", "Component._normalize_slot_fills")
    chk.analysed(fkey(m, f))
    ps = params(f)
    flag = next((p for p in ps if "escape" in p), None)
    if flag is None:
        raise AnalysisError("_normalize_slot_fills: escape flag parameter vanished")
    # (a) non-callable path
    tn = calls(f, "TextNode")
    ok = False
    for c in tn:
        a = c.args[0] if c.args else None
        if isinstance(a, ast.IfExp) and norm(a.test) == flag and isinstance(a.body, ast.Call) and last_attr(a.body.func) in ("conditional_escape",) and norm(a.body.args[0]) == norm(a.orelse):
            ok = True
    chk.ob("S2", "component:_normalize_slot_fills:plain-content", m.loc(tn[0]) if tn else m.loc(f), ok, f"TextNode(conditional_escape(content) if {flag} else content)" if ok else "plain slot content reaches TextNode without `conditional_escape(...) if escape flag` (plain `escape()` escapes content that is ALREADY marked safe a second time: a pre-rendered component passed as `slots={'x': html}` shows its markup - and its dependency marker - as visible text)")
    if tn:
        at = cond_atoms(enclosing_stmt(tn[0]))
        okc = any(pol and t.startswith("not callable(") for t, pol in at) or any((not pol) and t.startswith("callable(") for t, pol in at)
        chk.ob("S2", "component:_normalize_slot_fills:plain-branch", m.loc(tn[0]), okc, "taken only for non-callable content")
    # (b) callable path
    g = next((x for x in body_walk(f) if isinstance(x, ast.FunctionDef) and x.name == "gen_escaped_content_func"), None)
    if g is None:
        raise AnalysisError("_normalize_slot_fills: gen_escaped_content_func vanished")
    cvar = params(g)[0]
    reuse = [s for s in stmts(g) if isinstance(s, ast.Assign) and isinstance(s.targets[0], ast.Name) and norm(s.value) == f"{cvar}.content_func"]
    for s in reuse:
        atoms = flatten_conj(path_conditions(s))
        # at the reuse site we must know: isinstance(content, Slot) and content.escaped
        known_escaped = False
        for e, pol in atoms:
            # negation of `not isinstance(c, Slot) or not c.escaped`  ==  isinstance and escaped
            if not pol and isinstance(e, ast.BoolOp) and isinstance(e.op, ast.Or):
                parts = {norm(v) for v in e.values}
                if f"not {cvar}.escaped" in parts:
                    known_escaped = True
            if pol and norm(e) == f"{cvar}.escaped":
                known_escaped = True
        chk.ob("S2", "component:_normalize_slot_fills:reuse-only-if-escaped", m.loc(s), known_escaped,
               f"`{short(s)}` is reached only when `{cvar}.escaped` is known true" if known_escaped else
               f"`{short(s)}` reuses the function of a Slot without knowing that `{cvar}.escaped` is true (conditions: {[ (norm(e), p) for e, p in atoms][:2]}): a user-built Slot(fn) is emitted raw yet marked escaped")
    chk.floor("S2-reuse", len(reuse), 1)
    wrap = next((x for x in ast.walk(g) if isinstance(x, ast.FunctionDef) and x is not g), None)
    okw = False
    if wrap is not None:
        for r in [x for x in ast.walk(wrap) if isinstance(x, ast.Return) and x.value is not None]:
            v = r.value
            if isinstance(v, ast.IfExp) and norm(v.test) == flag and isinstance(v.body, ast.Call) and last_attr(v.body.func) in ("conditional_escape",) and norm(v.body.args[0]) == norm(v.orelse):
                okw = True
    chk.ob("S2", "component:_normalize_slot_fills:wrapper-escapes", m.loc(wrap) if wrap is not None else m.loc(g), okw, f"the wrapper returns conditional_escape(rendered) if {flag} else rendered" if okw else "the wrapping closure does not escape the rendered content under the escape flag")
    sl = calls(g, "Slot")
    oks = bool(sl) and all(isinstance(kwarg(c, "escaped"), ast.Constant) and kwarg(c, "escaped").value is True for c in sl)
    chk.ob("S2", "component:_normalize_slot_fills:slot-marked-escaped", m.loc(sl[0]) if sl else m.loc(g), oks, "Slot(..., escaped=True)" if oks else "the Slot built for callable content is not marked escaped: it is wrapped (escaped) again on the next pass")
    # early return of an unchanged Slot requires it to be escaped
    for r in [x for x in stmts(g) if isinstance(x, ast.Return) and x.value is not None and norm(x.value) == cvar]:
        at = cond_atoms(r)
        okr = any(pol and t == f"{cvar}.escaped" for t, pol in at)
        chk.ob("S2", "component:_normalize_slot_fills:passthrough-only-if-escaped", m.loc(r), okr, "a Slot is passed through unchanged only if it is already escaped" if okr else "a Slot is passed through unchanged without testing .escaped")


def s9_replacement_is_not_a_template(chk: Check, proj: Project) -> None:
    chk.rule("S9", "component JS / CSS that passed the end-tag guard reaches the page unchanged: wherever collected content is put into the document with re.sub / subn, the replacement is a FUNCTION (or a constant): a string / bytes replacement is a template in which `re` re-interprets backslash escapes - `<\\057script>` has no end tag and passes the guard, and is emitted as `</script>`")
    dm = proj.mod("dependencies")
    n = 0
    for q, f in dm.funcs():
        for c in [x for x in body_walk(f) if isinstance(x, ast.Call) and isinstance(x.func, ast.Attribute) and x.func.attr in ("sub", "subn") and x.args]:
            n += 1
            chk.analysed(fkey(dm, f))
            r = c.args[0]
            is_fn = isinstance(r, ast.Lambda) or (isinstance(r, ast.Name) and any(isinstance(d, ast.FunctionDef) and d.name == r.id for d in ast.walk(f)))
            const = isinstance(r, ast.Constant)
            chk.ob("S9", f"dependencies:{q}:{short(c, 50)}:replacement-kind", dm.loc(c), is_fn or const,
                   "the replacement is a function (its return value is inserted literally)" if is_fn else ("constant replacement" if const else
                   f"`{short(c, 70)}` passes `{norm(r)}` - text that contains the components' own JS / CSS - as a replacement TEMPLATE: backslash escapes in it are processed after wrap_component_js / wrap_component_css approved the text, so `<\\057script>` in Component.js ends up as a literal `</script>` that terminates its own element"))
    chk.floor("S9", n, 2)


def s3(chk: Check, proj: Project, w) -> None:
    chk.rule("S3", "defaults are merged before attrs, extra keywords are appended after both; None/False are skipped and True renders the bare escaped key")
    m, f = proj.func("attributes", "HtmlAttrsNode.render")
    chk.analysed(fkey(m, f))
    ups = [c for c in calls(f, "update")]
    order = [("defaults" in norm(c.args[0]), "attrs" in norm(c.args[0]) and "defaults" not in norm(c.args[0])) for c in ups if c.args]
    same = len({norm(c.func.value) for c in ups}) == 1 if ups else False  # type: ignore[union-attr]
    ok = len(ups) == 2 and same and order[0][0] and order[1][1]
    chk.ob("S3", "attributes:HtmlAttrsNode.render:defaults-then-attrs", m.loc(ups[0]) if ups else m.loc(f), ok, "update(defaults) precedes update(attrs) on the same dict" if ok else "defaults are not merged before attrs (attrs would not override defaults)")
    # attrs overrides defaults with ALL of its entries: a None / False in attrs is how a default is switched off
    if len(ups) == 2 and ups[1].args:
        a1 = ups[1].args[0]
        filt = [x for x in ast.walk(a1) if isinstance(x, (ast.DictComp, ast.ListComp, ast.GeneratorExp, ast.SetComp)) and any(g.ifs for g in x.generators)] + [x for x in ast.walk(a1) if isinstance(x, ast.Call) and norm(x.func) == "filter"]
        ap_name = params(f)[2] if len(params(f)) > 2 else "attrs"
        prefilt = [st for st, v in assignments(f, ap_name) if v is not None and st.lineno < ups[1].lineno]
        bad = filt or prefilt
        chk.ob("S3", "attributes:HtmlAttrsNode.render:attrs-override-unfiltered", m.loc(bad[0]) if bad else m.loc(ups[1]), not bad,
               "every entry of attrs overrides the default of the same name, whatever its value" if not bad else
               f"`{short(bad[0])}` drops entries of attrs before they override defaults: `defaults:disabled=True attrs:disabled=False` (or None) can no longer switch the default off - the attribute is rendered although the caller turned it off")
    ap = calls(f, "append_attributes")
    ok2 = False
    if ap and ups:
        args = [norm(a) for a in ap[0].args]
        d = norm(ups[0].func.value)  # type: ignore[union-attr]
        ok2 = len(args) == 2 and args[0] == f"*{d}.items()" and args[1] == "*kwargs.items()" and ap[0].lineno > ups[-1].lineno
    chk.ob("S3", "attributes:HtmlAttrsNode.render:kwargs-appended-last", m.loc(ap[0]) if ap else m.loc(f), ok2, "extra keywords are appended after the merged dict" if ok2 else "extra keywords are not appended after defaults and attrs")
    ret = [s for s in stmts(f) if isinstance(s, ast.Return)]
    ok3 = bool(ret) and isinstance(ret[-1].value, ast.Call) and last_attr(ret[-1].value.func) == "attributes_to_string"
    chk.ob("S3", "attributes:HtmlAttrsNode.render:renders-through-attributes_to_string", m.loc(ret[-1]) if ret else m.loc(f), ok3, "result is attributes_to_string(merged)")
    m2, f2 = proj.func("attributes", "attributes_to_string")
    loop = next((x for x in body_walk(f2) if isinstance(x, ast.For)), None)
    v = loop.target.elts[1].id if loop is not None and isinstance(loop.target, ast.Tuple) else "value"  # type: ignore[union-attr]
    k = loop.target.elts[0].id if loop is not None and isinstance(loop.target, ast.Tuple) else "key"  # type: ignore[union-attr]
    skip = [s for s in (loop.body if loop else []) if isinstance(s, ast.If) and s.body and isinstance(s.body[-1], ast.Continue)]
    ok4 = bool(skip) and {norm(x) for x in (skip[0].test.values if isinstance(skip[0].test, ast.BoolOp) else [skip[0].test])} == {f"{v} is None", f"{v} is False"}
    chk.ob("S3", "attributes:attributes_to_string:skip-none-false", m2.loc(skip[0]) if skip else m2.loc(f2), ok4, "None and False are skipped" if ok4 else "the skip condition is not exactly `value is None or value is False`")
    bare = [s for s in (loop.body if loop else []) if isinstance(s, ast.If) and norm(s.test) == f"{v} is True"]
    # (whether the key still needs escaping is S1's business: a name cleared by the guard may be appended as it is)
    ok5 = bool(bare) and any(isinstance(c, ast.Call) and last_attr(c.func) == "append" and c.args and (norm(c.args[0]) == k or (isinstance(c.args[0], ast.Call) and last_attr(c.args[0].func) in ("conditional_escape", "escape", "str") and norm(c.args[0].args[0]) == k)) for s in bare[0].body for c in ast.walk(s))
    chk.ob("S3", "attributes:attributes_to_string:true-renders-bare-key", m2.loc(bare[0]) if bare else m2.loc(f2), ok5, "True renders the bare key")
    # append_attributes: concatenation with one space, no sink
    m3, f3 = proj.func("attributes", "append_attributes")
    aug = [s for s in stmts(f3) if isinstance(s, ast.AugAssign)]
    ok6 = len(aug) == 1 and norm(aug[0].value).startswith("' ' + ") and not any(last_attr(c.func) in ("mark_safe", "SafeString") for c in calls(f3))
    chk.ob("S3", "attributes:append_attributes:space-join-no-sink", m3.loc(aug[0]) if aug else m3.loc(f3), ok6, "repeated keys are joined with one space; the merge itself marks nothing safe" if ok6 else "append_attributes does not join with a single space / marks the merged value safe")


def s4(chk: Check, proj: Project, w) -> None:
    chk.rule("S4", "wrap_component_js / wrap_component_css refuse content containing the end-tag prefix in any letter case, whatever follows it, before wrapping")
    dm = proj.mod("dependencies")
    for fn, needle in (("wrap_component_js", "</script"), ("wrap_component_css", "</style")):
        f = dm.func(fn)
        chk.analysed(fkey(dm, f))
        cfg = CFG(f)
        dom = cfg.dominators()
        content = params(f)[1]
        guards = [s for s in f.body if isinstance(s, ast.If) and any(isinstance(x, ast.Raise) for x in s.body)]
        key = f"dependencies:{fn}:end-tag-guard"
        if not guards:
            chk.violated("S4", key, dm.loc(f), f"{fn} wraps the content without refusing `{needle}`: the content can terminate its own element")
            continue
        t = guards[0].test
        ok = False
        why = ""
        if isinstance(t, ast.Compare) and isinstance(t.ops[0], ast.In) and isinstance(t.left, ast.Constant):
            hay = t.comparators[0]
            folded = isinstance(hay, ast.Call) and isinstance(hay.func, ast.Attribute) and hay.func.attr in ("lower", "casefold") and norm(hay.func.value) == content
            nd = t.left.value
            ok = folded and isinstance(nd, str) and nd == nd.lower() and needle.startswith(nd) and len(nd) >= len(needle) - 0 and nd == needle
            why = "haystack is not case-normalised" if not folded else f"needle {nd!r} is not exactly the end-tag prefix {needle!r}"
        else:
            # regex form: re.search(pattern, content, IGNORECASE) -- the pattern must match the bare prefix itself
            rc = next((c for c in ast.walk(t) if isinstance(c, ast.Call) and last_attr(c.func) in ("search", "findall", "match")), None)
            pat = None
            flags = 0
            if rc is not None:
                if dotted(rc.func) in ("re.search",) and rc.args:
                    okp, pat = proj.try_fold(dm, rc.args[0])
                    flags = re.IGNORECASE if "IGNORECASE" in norm(rc) or "re.I" in norm(rc) else 0
                elif isinstance(rc.func, ast.Attribute):
                    r = proj.resolve_expr(dm, rc.func.value)
                    if r and r[0] == "global":
                        gv = r[1].global_value(r[2])
                        if isinstance(gv, ast.Call) and gv.args:
                            okp, pat = proj.try_fold(r[1], gv.args[0])
                            flags = re.IGNORECASE if "IGNORECASE" in norm(gv) or "re.I" in norm(gv) else 0
            if isinstance(pat, str):
                lang = Lang(pat, flags)
                a1, _ = lang.accepts_all([Seg.lit(needle)])
                a2, _ = lang.accepts_all([Seg.lit(needle.upper())])
                ok = a1 and a2 and rc is not None and last_attr(rc.func) == "search"
                why = f"the pattern {pat!r} does not match the bare prefix {needle!r} in both letter cases: `{needle}/>`, `{needle} x>` or `{needle.upper()}>` still close the element"
            else:
                why = "unrecognised guard form"
        # the guard dominates the wrapping return
        rets = [n for n in cfg.nodes if n.kind == "return"]
        gn = [n for n in cfg.nodes if n.kind == "test" and n.ast is t]
        domok = bool(gn) and all(cfg.dominates(gn[0], r, dom) for r in rets)
        chk.ob("S4", key, dm.loc(guards[0]), ok and domok, f"`{short(t)}` refuses every occurrence of {needle!r} (any case) before wrapping" if ok and domok else
               f"end-tag guard `{short(t)}` is too weak ({why if not ok else 'does not dominate the return'}): such content is emitted and closes its element early")


def s10_parts_render_escaped(chk: Check, proj: Project) -> None:
    chk.rule("S10", "the parts of a multi-part tag argument (`title=\"Hello {{ v }}\"`) are joined by NodeList.render, which marks the result SAFE: every part is therefore the wrapped node's own render() output (VariableNode.render applies autoescape) - a wrapper that takes a `{{ }}` part's value from FilterExpression.resolve() hands the raw value to a result that nothing escapes again, so `\"`, `<`, `>` in the variable break out of the attribute html_attrs emits")
    m = proj.mod("expression")
    n = 0
    for q, c in sorted(m.defs.items()):
        if not isinstance(c, ast.ClassDef) or not any((dotted(b) or "").split(".")[-1] == "Node" for b in c.bases):
            continue
        r = next((x for x in c.body if isinstance(x, ast.FunctionDef) and x.name == "render"), None)
        if r is None:
            continue
        n += 1
        chk.analysed(f"{m.name}:{q}.render")
        raw = [x for x in ast.walk(r) if isinstance(x, ast.Call) and isinstance(x.func, ast.Attribute) and x.func.attr == "resolve"]
        rets = [x for x in ast.walk(r) if isinstance(x, ast.Return) and x.value is not None]
        rendered = [x for x in ast.walk(r) if isinstance(x, ast.Call) and isinstance(x.func, ast.Attribute) and x.func.attr in ("render", "render_annotated") and "self." in norm(x.func.value)]
        ok = not raw and bool(rendered) and bool(rets)
        chk.ob("S10", f"expression:{q}.render:part-is-the-node's-rendered-output", m.loc(raw[0]) if raw else m.loc(r), ok,
               "the part is what the wrapped node's render() returns" if ok else
               f"`{short(raw[0]) if raw else short(r)}` takes the value of a template variable without the escaping VariableNode.render applies, inside a NodeList whose joined result is marked safe: `{{% html_attrs title=\"Hello {{{{ v }}}}\" %}}` with v = '\" onmouseover=\"x' emits the attribute break-out")
    chk.floor("S10", n, 1)


def s12_append_never_skips(chk: Check, proj: Project) -> None:
    chk.rule("S12", "every extra keyword value given for an attribute is appended, separated by one space: the merge loop of append_attributes has no branch that skips a pair because of what the value IS (already present as a token, empty, equal to the last one) - `data-steps=\"1 2 3\"` plus `data-steps=\"1\"` is `1 2 3 1`")
    am, f = proj.func("attributes", "append_attributes")
    chk.analysed(fkey(am, f))
    loops = [x for x in ast.walk(f) if isinstance(x, ast.For)]
    if not loops:
        chk.undecided("S12", "attributes:append_attributes:every-pair-is-merged", am.loc(f), "merge loop not found")
        return
    lp = loops[0]
    vals = {t.id for t in ast.walk(lp.target) if isinstance(t, ast.Name)}
    from ..cfg import flatten_conj as _fc, path_conditions as _pc

    skips = [x for x in ast.walk(lp) if isinstance(x, (ast.Continue, ast.Break))]
    # the two arms (first occurrence / repeated key) are decided by the KEY alone
    val = list(vals)[-1] if vals else "value"
    tgt = lp.target
    vname = tgt.elts[1].id if isinstance(tgt, ast.Tuple) and len(tgt.elts) == 2 and isinstance(tgt.elts[1], ast.Name) else val
    value_tests = [e for st in ast.walk(lp) if isinstance(st, ast.If) for e in ast.walk(st.test) if isinstance(e, ast.Name) and e.id == vname]
    bad = skips[0] if skips else (value_tests[0] if value_tests else None)
    chk.ob("S12", "attributes:append_attributes:every-pair-is-merged", am.loc(bad) if bad is not None else am.loc(lp), bad is None,
           "no pair is skipped and no branch looks at the value" if bad is None else
           f"`{short(enclosing_stmt(bad))}` lets the merge depend on the value: a value that equals an existing token of the attribute is dropped instead of appended (`aria-labelledby=\"a b\"` + `aria-labelledby=\"a\"` stays `a b`)")


MANIFEST = {
    "text": "Decides the escape discipline structurally: every part of the html_attrs output passes a sanitizer before the single mark_safe; all mark_safe/SafeString sinks of the package are enumerated and must be reviewed; the typestate of slot content (raw / escaped-once) under escape_content, including that a Slot's function is reused only when it is known escaped; merge order and None/False/True branches; the end-tag refusal is case-insensitive, matches the bare prefix and dominates the wrapping. Also: merge_repeated_kwargs indexes the output list it writes and extends the merged value. Round 4: merge-before-aggregate order, render_to_response forwards every shared argument, Mapping ABC (shared with C11-S6). Round 5: attribute NAMES pass a guard whose regex language covers every character that ends a name (whitespace, quotes, angle brackets, '/', '=') and that dominates every append (F43); attrs override defaults unfiltered. Round 7: only None means 'no fill' (shared with C01-S4); a re.sub replacement carrying component text is a function, never a template; conditional_escape (not escape) for slot content.",
    "note": "Trusted: Django's conditional_escape/format_html escape positional arguments unless SafeData; Template/NodeList.render output is safe. Not decided: HTML-parser round trip of arbitrary names; value concatenation semantics.",
    "technique": "static taint/sanitizer discipline, sink audit, typestate on Slot.escaped, dominance of refusal guards, regex language test for the guard pattern",
}
