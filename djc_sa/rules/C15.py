"""C15 — registries behave as dictionaries and keep the tag library consistent (DESIGN.md section 3, C15).

S1 ownership: `_registry` / `_tags` are written only inside ComponentRegistry; Library.tags is changed only through
   register_tag (behind is_tag_protected) and in unregister (not protected AND tag set empty).
S2 paired updates in register / unregister / clear; every step of unregister talks about the same tag.
S3 validate before mutate: nothing that can raise is reachable after the first state write of a mutator.
S4 protected-tag table = tags of the built-in nodes registered in templatetags (minus the component tag).
"""
from __future__ import annotations

import ast
from typing import Dict, List, Optional, Set, Tuple

from ..astq import assignments, calls, params, stmts
from ..callgraph import fkey
from ..cfg import CFG, cond_atoms, flatten_conj, path_conditions
from ..report import Check
from ..source import AnalysisError, Project, ancestors, body_walk, dotted, enclosing_func, enclosing_stmt, last_attr, norm, parent, qual_of, short
from .common import world


def run(chk: Check, proj: Project) -> None:
    chk.explanation = (
        "Ownership of the registry tables and of Library.tags, pairing of the three updates in each mutator, the same "
        "tag variable through every step of unregister, validate-before-mutate by CFG reachability from state writes to "
        "raising statements (callees included), and agreement of the protected-tag table with the built-in tags."
    )
    chk.not_decided = ["dictionary equivalence over histories of operations"]
    chk.trusted_base = ["django.template.Library.tag(name, fn) stores fn under tags[name]"]
    w = world(proj)
    m = proj.mod("component_registry")
    cls = m.cls("ComponentRegistry")
    s1(chk, proj, w, m, cls)
    s2(chk, proj, w, m, cls)
    s3(chk, proj, w, m, cls)
    s4(chk, proj, w)
    s5(chk, proj, w, m)
    s6(chk, proj, w, m)
    s7(chk, proj, w, m)
    s9_protection_is_replaced(chk, proj)
    s10_settings_getter_is_live(chk, proj, m, cls)
    s11_names_are_free_keys(chk, proj, m, cls)


def s9_protection_is_replaced(chk: Check, proj: Project) -> None:
    chk.rule("S9", "which tags a Library protects is what the LAST call of mark_protected_tags said: the stored list is computed from the argument (or the built-in table) alone, never from the list stored before - an accumulating setter can never lift or narrow a protection, so register() keeps raising TagProtectedError for a name that is free again")
    lm, f = proj.func("library", "mark_protected_tags")
    chk.analysed(fkey(lm, f))
    lib = params(f)[0]
    sts = [st for st in stmts(f) if isinstance(st, (ast.Assign, ast.AugAssign)) and any(isinstance(t, ast.Attribute) and isinstance(t.value, ast.Name) and t.value.id == lib for t in (st.targets if isinstance(st, ast.Assign) else [st.target]))]
    chk.floor("S9", len(sts), 1)
    for st in sts:
        attr = (st.targets[0] if isinstance(st, ast.Assign) else st.target).attr
        # names the value depends on, through local definitions
        seen: Set[str] = set()
        todo = [st.value]
        reads_old = isinstance(st, ast.AugAssign)
        while todo:
            e = todo.pop()
            for x in ast.walk(e):
                if isinstance(x, ast.Attribute) and x.attr == attr and isinstance(x.value, ast.Name) and x.value.id == lib:
                    reads_old = True
                if isinstance(x, ast.Call) and norm(x.func) == "getattr" and len(x.args) >= 2 and isinstance(x.args[1], ast.Constant) and x.args[1].value == attr:
                    reads_old = True
                if isinstance(x, ast.Name) and x.id not in seen:
                    seen.add(x.id)
                    todo += [v for _s, v in assignments(f, x.id) if v is not None]
        chk.ob("S9", f"library:mark_protected_tags:{lib}.{attr}-replaced-not-accumulated", lm.loc(st), not reads_old,
               "the stored list is built from the argument / the built-in table only" if not reads_old else
               f"`{short(st)}` merges the new list into the one stored before: after mark_protected_tags(lib, ['alpha']) a later mark_protected_tags(lib, ['beta']) still protects 'alpha' - registering a component under a formatter that yields the start tag `alpha` raises TagProtectedError although the name is free")


def s11_names_are_free_keys(chk: Check, proj: Project, m, cls) -> None:
    chk.rule("S11", "a component NAME is a free dictionary key: register() itself refuses only a conflicting class (AlreadyRegistered); tag protection is asked about the TAG the formatter produced, inside the Library helper, and a Library that was never marked protects nothing (the lookup's fallback is empty) - a guard on the name, or built-in names protected by default, makes register('slot', C) fail under the default formatter / on a private Library where a dict accepts it")
    f = m.func("ComponentRegistry.register")
    chk.analysed(f"{m.name}:ComponentRegistry.register")
    from ..astq import exc_class_of_raise, raises_in

    rs = raises_in(f)
    other = [r for r in rs if (exc_class_of_raise(r) or "").split(".")[-1] not in ("AlreadyRegistered",)]
    chk.ob("S11", "component_registry:register:refuses-only-a-conflicting-class", m.loc(other[0]) if other else m.loc(f), bool(rs) and not other,
           "the only explicit raise of register() is AlreadyRegistered" if rs and not other else
           (f"`{short(other[0])}` under `{' and '.join(('' if p_ else 'not ') + t_ for t_, p_ in cond_atoms(other[0])) or 'no condition'}` refuses a registration for a reason a dictionary does not have: the test looks at the component NAME, but what must not be overwritten is a TAG - under the default formatter every component uses the one `component` tag, so a component called `slot` / `fill` / `provide` touches no protected tag and is still rejected" if other else "register() has no AlreadyRegistered raise"))
    prot = [c for c in calls(f) if last_attr(c.func) == "is_tag_protected"]
    chk.ob("S11", "component_registry:register:protection-asked-in-the-library-helper", m.loc(prot[0]) if prot else m.loc(f), not prot,
           "register() does not ask about protection itself (register_tag does, for the formatter's tag)" if not prot else
           f"`{short(prot[0])}` asks the protection question in register(), about `{short(prot[0].args[1]) if len(prot[0].args) > 1 else '?'}`")
    lm, lf = proj.func("library", "is_tag_protected")
    chk.analysed(fkey(lm, lf))
    ga = [c for c in calls(lf) if norm(c.func) == "getattr" and len(c.args) == 3]
    if not ga:
        chk.undecided("S11", "library:is_tag_protected:unmarked-library-protects-nothing", lm.loc(lf), "getattr(lib, <attr>, <fallback>) not found")
    else:
        d = ga[0].args[2]
        empty = (isinstance(d, (ast.List, ast.Tuple, ast.Set)) and not d.elts) or (isinstance(d, ast.Call) and norm(d.func) in ("list", "tuple", "set", "frozenset") and not d.args) or (isinstance(d, ast.Constant) and d.value in ((), ""))
        chk.ob("S11", "library:is_tag_protected:unmarked-library-protects-nothing", lm.loc(d), empty,
               "the fallback for a Library that was never marked is empty" if empty else
               f"the fallback for a Library that was never passed to mark_protected_tags() is `{short(d)}`: a private Library silently protects the built-in names, and with the shorthand formatter register('slot', C) raises TagProtectedError where a plain dict accepts the key")


def s10_settings_getter_is_live(chk: Check, proj: Project, m, cls) -> None:
    chk.rule("S10", "a registry follows the CURRENT settings for every field it was not given: the getter stored by the `settings` property re-reads app_settings (and a callable input) on every access - a getter that returns a value resolved once freezes `tag_formatter` at first use, so a component registered after COMPONENTS.tag_formatter changed is installed under the old tag and unregister() looks for the new one")
    prop = next((x for x in cls.body if isinstance(x, ast.FunctionDef) and x.name == "settings"), None)
    if prop is None:
        raise AnalysisError("ComponentRegistry.settings vanished")
    chk.analysed(f"{m.name}:ComponentRegistry.settings")
    sts = [st for st in ast.walk(prop) if isinstance(st, ast.Assign) and any(norm(t) == "self._settings" for t in st.targets)]
    chk.floor("S10", len(sts), 1)
    nested = {x.name: x for x in ast.walk(prop) if isinstance(x, ast.FunctionDef) and x is not prop}
    for st in sts:
        v = st.value
        body = nested.get(v.id) if isinstance(v, ast.Name) else v if isinstance(v, ast.Lambda) else None
        live = body is not None and any(isinstance(x, ast.Name) and x.id == "app_settings" for x in ast.walk(body))
        chk.ob("S10", f"component_registry:ComponentRegistry.settings:{short(st, 50)}:getter-reads-current-settings", m.loc(st), live,
               "the stored getter reads app_settings when it is called" if live else
               f"`{short(st)}` stores a getter that does not read app_settings itself (it returns something resolved earlier): fields the registry was not given (a partial RegistrySettings(context_behavior=...)) stop following COMPONENTS - after the tag formatter changes, register() installs the new component under the OLD formatter's tag")


_FIXTURE_DUP = "def f(s):\n    return s.tag_formatter or s.tag_formatter\n"


def duplicate_operands(tree: ast.AST) -> List[ast.BoolOp]:
    return [b for b in ast.walk(tree) if isinstance(b, ast.BoolOp) and len({norm(v) for v in b.values}) < len(b.values)]


def s7(chk: Check, proj: Project, w, m) -> None:
    chk.rule("S7", "the protected list stored on a Library is a private copy (never the caller's list or the module default); the tag-name pattern accepts every character the documentation allows (hyphen included); no `x or x` where the second operand was meant to be the deprecated alias")
    lm = proj.mod("library")
    f = lm.func("mark_protected_tags")
    st = [x for x in stmts(f) if isinstance(x, ast.Assign) and any(isinstance(t, ast.Attribute) and t.attr == "_protected_tags" for t in x.targets)]
    if len(st) != 1:
        idk = [x for x in ast.walk(f) if isinstance(x, ast.Subscript) and isinstance(x.ctx, ast.Store) and isinstance(x.slice, ast.Call) and norm(x.slice.func) == "id"]
        if not st and idk:
            chk.violated("S7", "library:mark_protected_tags:private-copy", lm.loc(idk[0]),
                         f"`{short(enclosing_stmt(idk[0]))}` keeps the protected list in a table keyed by `id(...)` of the Library, which neither keeps the Library alive nor is cleaned when it dies: CPython re-uses the address, so a NEW, never-marked Library allocated where a marked one used to be refuses 'slot' / 'fill' with TagProtectedError (and a marked one can lose its protection the same way)")
        else:
            chk.undecided("S7", "library:mark_protected_tags:private-copy", lm.loc(f), f"{len(st)} stores of _protected_tags")
    else:
        v = st[0].value
        fresh = (isinstance(v, (ast.List, ast.Tuple, ast.Set)) and all(isinstance(e, (ast.Starred, ast.Constant)) for e in v.elts)) or (isinstance(v, ast.Call) and (norm(v.func) in ("list", "tuple", "set", "frozenset", "sorted") or (isinstance(v.func, ast.Attribute) and v.func.attr == "copy")))
        chk.ob("S7", "library:mark_protected_tags:private-copy", lm.loc(st[0]), fresh,
               f"`{short(st[0])}` stores a new container" if fresh else
               f"`{short(st[0])}` stores the caller's (or the module's default) list itself: a caller that later clears / refills the list it passed in changes what an already configured Library protects - a built-in tag can then be overwritten, or an unprotected name raises TagProtectedError")
    # tag characters
    tm = proj.mod("tag_formatter")
    from ..regexlang import Lang, Seg
    from .markers import compiled_regex

    try:
        pat, fl, node = compiled_regex(proj, "tag_formatter", "TAG_RE")
        lang = Lang(pat, fl)
        alpha = set("abcXYZ019_") | set("-:@.#/")
        ok, wit = lang.accepts_all([Seg.field(alpha, 1, None)])
        chk.ob("S7", "tag_formatter:TAG_RE:accepts-documented-characters", tm.loc(node), ok,
               "TAG_RE accepts every non-empty string over word characters and - : @ . # /" if ok else
               f"TAG_RE rejects {wit!r}: a component registered under such a name with the shorthand formatter raises ValueError instead of getting its tag (inside a character class `.-:` is a RANGE, which drops the hyphen)")
    except AnalysisError as e:
        chk.undecided("S7", "tag_formatter:TAG_RE:accepts-documented-characters", tm.loc(tm.tree), str(e))
    if len(duplicate_operands(ast.parse(_FIXTURE_DUP))) != 1:
        raise AnalysisError("duplicate-operand lint lost its positive fixture")
    dups = [(mm, b) for mm in (m, proj.mod("app_settings"), lm, tm) for b in duplicate_operands(mm.tree)]
    chk.ob("S7", "registry-modules:no-duplicate-boolean-operands", dups[0][0].loc(dups[0][1]) if dups else m.loc(m.tree), not dups,
           "no `x or x` / `x and x` in the registry, settings, library and formatter modules" if not dups else
           f"`{short(dups[0][1])}` has the same operand twice: the deprecated upper-case alias (RegistrySettings(TAG_FORMATTER=...)) is never read, the registry silently falls back to the global formatter and its tags no longer match its contents")


def s6(chk: Check, proj: Project, w, m) -> None:
    chk.rule("S6", "the tag dict of a Library is shared (other registries, other apps): deletions from it are guarded by membership; an explicitly EMPTY protected list means 'protect nothing' (default substituted only for None); a callable settings input is evaluated on every access")
    n = 0
    for q, f in sorted(m.defs.items()):
        if not isinstance(f, ast.FunctionDef):
            continue
        for d in [x for x in ast.walk(f) if isinstance(x, ast.Delete)]:
            for t in d.targets:
                if isinstance(t, ast.Subscript) and norm(t.value).endswith("library.tags"):
                    n += 1
                    k = norm(t.slice)
                    ok = any(pol and tt == f"{k} in {norm(t.value)}" for tt, pol in cond_atoms(d))
                    chk.ob("S6", f"component_registry:{q}:del-library-tag-guarded", m.loc(d), ok, f"`{short(d)}` runs only if `{k} in {norm(t.value)}`" if ok else
                           f"`{short(d)}` is not guarded by a membership test: when another registry that shares this Library has already removed the tag, unregister() raises KeyError half-way and the entry stays registered for good")
    chk.floor("S6", n, 1)
    lm = proj.mod("library")
    f = lm.func("mark_protected_tags")
    chk.analysed(fkey(lm, f))
    bad = []
    for b in [x for x in ast.walk(f) if isinstance(x, ast.BoolOp) and isinstance(x.op, ast.Or)]:
        if isinstance(b.values[0], ast.Name) and b.values[0].id in params(f):
            okf, val = proj.try_fold(lm, b.values[-1])
            if not okf or (hasattr(val, "__len__") and len(val) > 0):
                bad.append(b)
    chk.ob("S6", "library:mark_protected_tags:default-only-for-None", lm.loc(bad[0]) if bad else lm.loc(f), not bad,
           "the default list is substituted only when the argument is None" if not bad else
           f"`{short(bad[0])}` substitutes the (non-empty) default for EVERY falsy argument: mark_protected_tags(lib, []) - 'protect nothing' - protects the default names, so registering 'slot' on that library raises TagProtectedError")
    sp = m.func("ComponentRegistry.settings")
    chk.analysed(fkey(m, sp))
    cs = [c for c in ast.walk(sp) if isinstance(c, ast.Call) and norm(c.func) == "self._settings_input"]
    if not cs:
        chk.undecided("S6", "component_registry:settings:callable-evaluated-per-access", m.loc(sp), "call of the settings getter not found")
    else:
        ok = all(enclosing_func(c) is not sp for c in cs)
        chk.ob("S6", "component_registry:settings:callable-evaluated-per-access", m.loc(cs[0]), ok,
               "self._settings_input(self) is called inside the getter closure, i.e. on every access" if ok else
               "the settings callable is evaluated once, outside the getter closure, and its result is frozen: after the application switches the tag formatter, register() still computes tags with the old one (Library.tags and the protected-name check no longer match the registry)")


def s5(chk: Check, proj: Project, w, m) -> None:
    chk.rule("S5", "only the DEFAULT library gets the default protected-tag list (a user-supplied Library keeps its own); class identity used by register() is per class")
    f = m.func("ComponentRegistry.library")
    chk.analysed(fkey(m, f))
    mk = calls(f, "mark_protected_tags")
    ok = bool(mk) and all(any((not pol) and t == "self._library is not None" for t, pol in cond_atoms(enclosing_stmt(c))) or any(pol and t == "self._library is None" for t, pol in cond_atoms(enclosing_stmt(c))) for c in mk)
    chk.ob("S5", "component_registry:library:protected-list-only-for-default-library", m.loc(mk[0]) if mk else m.loc(f), ok if mk else None,
           "mark_protected_tags runs only when the registry falls back to the default library" if ok else
           "mark_protected_tags runs for a user-supplied Library too (on every access): the owner's own protected list is replaced by the default one, so the owner's protected tag can be overwritten / removed and default names are refused on a private library")
    cm, cf = proj.func("component", "Component.__init_subclass__")
    st = [x for x in stmts(cf) if isinstance(x, ast.Assign) and norm(x.targets[0]).endswith("._class_hash")]
    ok2 = len(st) == 1 and st[0] in cf.body
    chk.ob("S5", "component:__init_subclass__:own-hash-for-every-class", cm.loc(st[0]) if st else cm.loc(cf), ok2,
           "every component class gets its own _class_hash (register() compares it to tell classes apart)" if ok2 else
           "_class_hash is not assigned unconditionally for every subclass: a subclass of a component inherits its parent's hash, so registering it under the parent's name silently replaces the entry instead of raising AlreadyRegistered")


def _is_state_write(n: ast.AST) -> Optional[str]:
    """Does this node write self._registry / self._tags / library.tags? Returns a description."""
    if isinstance(n, (ast.Assign, ast.AugAssign, ast.Delete)):
        tgts = n.targets if isinstance(n, (ast.Assign, ast.Delete)) else [n.target]
        for t in tgts:
            s = norm(t)
            if s.startswith(("self._registry", "self._tags")) or ".library.tags[" in s or s.startswith("self.library.tags"):
                return s
    if isinstance(n, ast.Expr) and isinstance(n.value, ast.Call) and isinstance(n.value.func, ast.Attribute):
        recv = norm(n.value.func.value)
        if (recv.startswith(("self._registry", "self._tags")) or "library.tags" in recv) and n.value.func.attr in ("add", "remove", "pop", "clear", "update", "discard", "setdefault", "append"):
            return f"{recv}.{n.value.func.attr}()"
    return None


def s1(chk: Check, proj: Project, w, m, cls) -> None:
    chk.rule("S1", "`_registry` / `_tags` are written only by ComponentRegistry methods; Library.tags is written only via register_tag (guarded by is_tag_protected), in unregister, and in BaseNode.register/unregister")
    n = 0
    for mm, q, f in proj.all_funcs():
        for st in stmts(f):
            for x in ast.walk(st) if isinstance(st, (ast.Assign, ast.AugAssign, ast.Delete, ast.Expr)) else []:
                if isinstance(x, ast.Attribute) and x.attr in ("_registry", "_tags") and isinstance(x.ctx, (ast.Store, ast.Del)) or (
                    isinstance(x, ast.Subscript) and isinstance(x.ctx, (ast.Store, ast.Del)) and isinstance(x.value, ast.Attribute) and x.value.attr in ("_registry", "_tags")
                ):
                    n += 1
                    inside = mm is m and q.startswith("ComponentRegistry.")
                    chk.ob("S1", f"{mm.name.replace('django_components.', '')}:{q}:{short(st, 60)}", mm.loc(st), inside, "written inside ComponentRegistry" if inside else f"`{short(st)}` writes a registry table from outside ComponentRegistry", nontrivial=False)
    chk.floor("S1-writes", n, 5)
    # Library.tags writers
    libw = []
    for mm, q, f in proj.all_funcs():
        for x in body_walk(f):
            if isinstance(x, ast.Subscript) and isinstance(x.ctx, (ast.Store, ast.Del)) and norm(x.value).endswith(".tags") and "librar" in norm(x.value).lower():
                libw.append((mm, q, x))
            if isinstance(x, ast.Call) and isinstance(x.func, ast.Attribute) and x.func.attr == "tag" and "librar" in norm(x.func.value).lower():
                libw.append((mm, q, x))
    ok_sites = {("component_registry", "ComponentRegistry.unregister"), ("library", "register_tag"), ("node", "BaseNode.register"), ("node", "BaseNode.unregister")}
    for mm, q, x in libw:
        site = (mm.name.replace("django_components.", ""), q)
        chk.ob("S1", f"{site[0]}:{q}:{short(enclosing_stmt(x), 60)}", mm.loc(x), site in ok_sites, "reviewed writer of Library.tags" if site in ok_sites else f"`{short(enclosing_stmt(x))}` changes Library.tags outside the reviewed writers: protected tags can be overwritten / component tags left behind")
    chk.floor("S1-libwriters", len(libw), 3)
    lm, lf = proj.func("library", "register_tag")
    tg = [c for c in calls(lf, "tag")]
    at = cond_atoms(enclosing_stmt(tg[0])) if tg else []
    ok = bool(tg) and any((not pol) and t.startswith("is_tag_protected(") for t, pol in at) and any(isinstance(s, ast.Raise) and "TagProtectedError" in norm(s) for s in stmts(lf))
    chk.ob("S1", "library:register_tag:guarded", lm.loc(lf), ok, "library.tag(...) only if not is_tag_protected, else TagProtectedError" if ok else "register_tag registers without / before the protection test")
    im, if_ = proj.func("library", "is_tag_protected")
    r = [s for s in stmts(if_) if isinstance(s, ast.Return)]
    rv = r[0].value if r else None
    okp = isinstance(rv, ast.Compare) and isinstance(rv.ops[0], ast.In) and norm(rv.left) == params(if_)[1] and isinstance(rv.comparators[0], ast.Name) and any("_protected_tags" in norm(v) for _s, v in assignments(if_, rv.comparators[0].id) if v is not None)
    chk.ob("S1", "library:is_tag_protected", im.loc(if_), okp, "membership of the tag in the library's protected list")
    # ComponentRegistry uses register_tag (never library.tag directly)
    rm, rf = proj.func("component_registry", "ComponentRegistry._register_to_library")
    chk.ob("S1", "component_registry:_register_to_library:uses-register_tag", rm.loc(rf), bool(calls(rf, "register_tag")) and not [c for c in calls(rf, "tag") if "library" in norm(c.func)], "component tags are registered through register_tag")


def s2(chk: Check, proj: Project, w, m, cls) -> None:
    chk.rule("S2", "register: library registration, `_tags[tag].add(name)` and `_registry[name] = entry` on the success path; unregister: every step uses the same tag; clear: iterate a snapshot, then reset both tables")
    f = m.func("ComponentRegistry.register")
    chk.analysed(fkey(m, f))
    name = params(f)[1]
    ent = [s for s in stmts(f) if isinstance(s, ast.Assign) and isinstance(s.value, ast.Call) and last_attr(s.value.func) == "_register_to_library"]
    ev = norm(ent[0].targets[0]) if ent else "?"
    tagv = next((norm(s.targets[0]) for s in stmts(f) if isinstance(s, ast.Assign) and norm(s.value) == f"{ev}.tag"), None)
    adds = [c for c in calls(f, "add") if norm(c.func.value) == f"self._tags[{tagv}]" and c.args and norm(c.args[0]) == name]  # type: ignore[union-attr]
    regs = [s for s in stmts(f) if isinstance(s, ast.Assign) and norm(s.targets[0]) == f"self._registry[{name}]" and norm(s.value) == ev]
    top = lambda x: enclosing_stmt(x) in f.body  # noqa: E731
    ok = bool(ent) and len(adds) == 1 and len(regs) == 1 and top(adds[0]) and top(regs[0]) and top(ent[0])
    chk.ob("S2", "component_registry:register:paired-updates", m.loc(f), ok, f"entry = _register_to_library(...); _tags[{tagv}].add({name}); _registry[{name}] = entry -- all unconditional" if ok else "register() does not unconditionally record the name under its tag AND in the registry after registering the tag")
    # every registration (re-)installs the tag: whether the Library has the tag is the Library's state, which unregister()
    # of this or ANY other registry changes - a per-registry memory of "already installed" goes stale
    rl = m.func("ComponentRegistry._register_to_library")
    chk.analysed(fkey(m, rl))
    rt = calls(rl, "register_tag")
    okt = len(rt) == 1 and enclosing_stmt(rt[0]) in rl.body
    chk.ob("S2", "component_registry:_register_to_library:tag-installed-on-every-registration", m.loc(rt[0]) if rt else m.loc(rl), okt,
           "register_tag(...) runs unconditionally for every registered component" if okt else
           f"register_tag(...) is skipped when `{' and '.join(('' if pol else 'not ') + t for t, pol in cond_atoms(enclosing_stmt(rt[0]))) if rt else '?'}`: after the last user of a tag was unregistered (which deletes the tag from the Library) a later register() of a component needing that tag leaves the Library WITHOUT the tag - all() lists the component, the template tag does not exist")
    from . import generic
    from ..state import accesses, inventory

    chk.rule("S8", "what register / unregister ask about a Library or a formatter is answered from their CURRENT state: the protection lookup is not memoised (the protected list of a Library changes: mark_protected_tags after a first registration), and computing a tag writes no state shared between formatter instances or registries")
    generic.no_value_keyed_memo(chk, "S8", proj, [("library", "is_tag_protected"), ("library", "mark_protected_tags"), ("tag_formatter", "get_tag_formatter")],
                                "the protected list of a Library is mutable: after `mark_protected_tags(lib, ['slot'])` a registry that asked about 'slot' earlier still gets 'not protected' and overwrites / removes the protected tag")
    inv_ = inventory(proj)
    tfm = proj.mod("tag_formatter")
    shared_w = [a for k_, g_ in inv_.items() if g_.mod is tfm for a in accesses(proj, g_) if a.kind in ("insert", "remove", "rebind", "elem-insert") and a.func is not None]
    chk.ob("S8", "tag_formatter:no-shared-state-written-while-formatting", shared_w[0].loc if shared_w else tfm.loc(tfm.tree), not shared_w,
           "the tag_formatter module keeps no table that formatting writes to" if not shared_w else
           f"`{short(shared_w[0].stmt())}` memoises a formatting result in module-level `{shared_w[0].g.name}`: the key cannot tell two INSTANCES of one formatter class apart (ComponentFormatter('component') vs ComponentFormatter('widget')), so the second registry gets the first one's tag and its Library ends up with a tag none of its components use")
    # all() answers with the registry's CONTENT, not with a handle on its state: a fresh dict per call
    al = m.func("ComponentRegistry.all")
    chk.analysed(fkey(m, al))
    rets = [r for r in stmts(al) if isinstance(r, ast.Return) and r.value is not None]
    def _fresh(v: ast.expr) -> bool:
        if isinstance(v, ast.Name):
            d = [x for _s, x in assignments(al, v.id) if x is not None]
            return bool(d) and all(_fresh(x) for x in d)
        return isinstance(v, (ast.DictComp, ast.Dict)) or (isinstance(v, ast.Call) and (norm(v.func) == "dict" or (isinstance(v.func, ast.Attribute) and v.func.attr == "copy")))
    badr = [r for r in rets if not _fresh(r.value)]
    chk.ob("S2", "component_registry:all:returns-a-fresh-dict", m.loc(badr[0]) if badr else m.loc(al), bool(rets) and not badr,
           "all() builds a new dict on every call" if rets and not badr else
           f"`{short(badr[0]) if badr else 'all()'}` hands out an object the registry keeps (a memo): a caller that pops / adds / clears the dict it got changes what the NEXT all() reports - names that get() does not know, registered names missing - until the next register / unregister")
    ex = [s for s in f.body if isinstance(s, ast.If) and any(isinstance(r, ast.Raise) and "AlreadyRegistered" in norm(r) for r in s.body)]
    okx = bool(ex) and "_class_hash !=" in norm(ex[0].test) and "existing" in norm(ex[0].test)
    chk.ob("S2", "component_registry:register:conflict-test", m.loc(ex[0]) if ex else m.loc(f), okx, "AlreadyRegistered only for a DIFFERENT class under the same name (same class is a no-op re-registration)")
    # unregister
    u = m.func("ComponentRegistry.unregister")
    chk.analysed(fkey(m, u))
    uname = params(u)[1]
    tv = None
    for s in stmts(u):
        if isinstance(s, ast.Assign) and norm(s.value).endswith(".tag") and isinstance(s.targets[0], ast.Name):
            tv = s.targets[0].id
            src = norm(s.value)[: -len(".tag")]
            d = assignments(u, src)
            ok = len(d) == 1 and norm(d[0][1]) == f"self._registry[{uname}]"
            chk.ob("S2", "component_registry:unregister:tag-of-entry", m.loc(s), ok, f"`{tv}` is the tag of the entry being removed")
    if tv is None:
        raise AnalysisError("unregister: tag variable not found")
    facts = {
        "remove-name-from-tag-set": any(norm(c) == f"self._tags[{tv}].remove({uname})" for c in calls(u)),
        "emptiness-of-that-tag-set": any(isinstance(s, ast.Assign) and norm(s.value) in (f"not len(self._tags[{tv}])", f"not self._tags[{tv}]", f"len(self._tags[{tv}]) == 0") for s in stmts(u)),
        "delete-empty-tag-set": any(isinstance(s, ast.Delete) and norm(s.targets[0]) == f"self._tags[{tv}]" for s in stmts(u)),
        "protection-test-on-the-tag": any(norm(c) == f"is_tag_protected(self.library, {tv})" for c in calls(u)),
        "library-removal-of-the-tag": any(isinstance(s, ast.Delete) and norm(s.targets[0]) == f"self.library.tags[{tv}]" for s in stmts(u)),
        "delete-registry-entry": any(isinstance(s, ast.Delete) and norm(s.targets[0]) == f"self._registry[{uname}]" and s in u.body for s in stmts(u)),
    }
    for k, v in facts.items():
        chk.ob("S2", f"component_registry:unregister:{k}", m.loc(u), v, f"{k.replace('-', ' ')} (`{tv}`)" if v else
               f"unregister(): the step '{k.replace('-', ' ')}' is missing or does not talk about the entry's tag `{tv}` (e.g. uses the component NAME, or the number of tags): the Library keeps a tag no component uses, or loses one that is still used")
    dl = [s for s in stmts(u) if isinstance(s, ast.Delete) and norm(s.targets[0]).startswith("self.library.tags[")]
    if dl:
        atoms = cond_atoms(dl[0])
        emp = next((norm(s.targets[0]) for s in stmts(u) if isinstance(s, ast.Assign) and "self._tags[" in norm(s.value) and ("len(" in norm(s.value) or norm(s.value).startswith("not "))), None)
        prot = next((norm(s.targets[0]) for s in stmts(u) if isinstance(s, ast.Assign) and "is_tag_protected(" in norm(s.value)), None)
        ok = any(pol and t == emp for t, pol in atoms) and (any((not pol) and t == prot for t, pol in atoms) or any(pol and t == f"not {prot}" for t, pol in atoms))
        chk.ob("S2", "component_registry:unregister:library-removal-guard", m.loc(dl[0]), ok, "the tag is removed from the Library only if it is not protected and no component uses it any more")
    # clear
    c = m.func("ComponentRegistry.clear")
    chk.analysed(fkey(m, c))
    loop = next((x for x in body_walk(c) if isinstance(x, ast.For)), None)
    itv = norm(loop.iter) if loop is not None else ""
    snap = False
    if loop is not None and isinstance(loop.iter, ast.Name):
        d = assignments(c, loop.iter.id)
        snap = len(d) == 1 and isinstance(d[0][1], ast.Call) and norm(d[0][1].func) in ("list", "tuple") and "self._registry" in norm(d[0][1])
    elif loop is not None:
        snap = itv.startswith(("list(", "tuple(")) and "self._registry" in itv
    okc = loop is not None and snap and any(norm(x) == f"self.unregister({norm(loop.target)})" for x in calls(loop))
    chk.ob("S2", "component_registry:clear:unregisters-snapshot", m.loc(c), okc, "clear() unregisters every name of a snapshot of the registry (so tags are released too)")
    resets = {norm(s) for s in c.body}
    chk.ob("S2", "component_registry:clear:resets-tables", m.loc(c), {"self._registry = {}", "self._tags = {}"} <= resets, "both tables are reset")
    g = m.func("ComponentRegistry.get")
    okg = any(isinstance(s, ast.If) and norm(s.test) == f"{params(g)[1]} not in self._registry" and any(isinstance(r, ast.Raise) and "NotRegistered" in norm(r) for r in s.body) for s in g.body)
    chk.ob("S2", "component_registry:get:raises-NotRegistered", m.loc(g), okg, "get() raises NotRegistered exactly for missing names")
    a = m.func("ComponentRegistry.all")
    oka = any("self._registry.items()" in norm(s) for s in stmts(a))
    chk.ob("S2", "component_registry:all:from-registry", m.loc(a), oka, "all() is computed from the registry table")


def _raising(w, m, f, seen: Optional[Set[str]] = None, depth: int = 0) -> bool:
    seen = seen or set()
    k = fkey(m, f)
    if k in seen or depth > 4:
        return False
    seen.add(k)
    if any(isinstance(n, ast.Raise) for n in body_walk(f)):
        return True
    for tk, site, kind in w.cg.edges.get(k, []):
        if kind == "call":
            mm, ff = w.cg.funcs[tk]
            if _raising(w, mm, ff, seen, depth + 1):
                return True
    return False


def s3(chk: Check, proj: Project, w, m, cls) -> None:
    chk.rule("S3", "in register / unregister / clear no statement that can raise (an explicit raise, or a call whose in-package callee can raise) is reachable after the first write to the registry tables or Library.tags")
    for q in ("ComponentRegistry.register", "ComponentRegistry.unregister"):
        f = m.func(q)
        cfg = w.pair.cfgs.get(f)
        writes = [n for n in cfg.nodes if n.ast is not None and n.kind == "stmt" and _is_state_write(n.ast)]

        def _writes_library(mod_, fn_, depth: int = 0) -> bool:
            for c_ in ast.walk(fn_):
                if isinstance(c_, ast.Call):
                    if isinstance(c_.func, ast.Attribute) and c_.func.attr == "tag" and "lib" in norm(c_.func.value).lower():
                        return True
                    if depth < 3:
                        tg_ = w.cg.resolve_callee(mod_, c_, c_.func)
                        if tg_ is not None and isinstance(tg_[1], (ast.FunctionDef, ast.AsyncFunctionDef)) and tg_[1] is not fn_ and _writes_library(tg_[0], tg_[1], depth + 1):
                            return True
            return False

        # a statement that calls an in-package helper which installs a tag in the Library is a state write too
        for n in cfg.nodes:
            if n.ast is None or n.kind != "stmt" or n in writes:
                continue
            for c in [x for x in ast.walk(n.ast) if isinstance(x, ast.Call)]:
                tg = w.cg.resolve_callee(m, c, c.func)
                if tg is not None and isinstance(tg[1], (ast.FunctionDef, ast.AsyncFunctionDef)) and _writes_library(tg[0], tg[1]):
                    writes.append(n)
                    break
        raisers = []
        for n in cfg.nodes:
            if n.ast is None or n.kind in ("def",):
                continue
            if n.kind == "raise":
                raisers.append((n, "raise"))
                continue
            for c in ([x for x in ast.walk(n.ast) if isinstance(x, ast.Call)] if n.kind in ("stmt", "test", "return") else []):
                tg = w.cg.resolve_callee(m, c, c.func)
                if tg is not None and isinstance(tg[1], (ast.FunctionDef, ast.AsyncFunctionDef)) and _raising(w, tg[0], tg[1]):
                    raisers.append((n, f"{tg[1].name}() can raise"))
        bad = None
        for wn in writes:
            reach = cfg.reachable_from([s for s, lab in wn.succ if lab not in ("x", "p")], labels={"n", "T", "F", "b"})
            for rn, why in raisers:
                if rn in reach and rn is not wn:
                    bad = bad or (wn, rn, why)
        chk.paths += len(writes) * max(1, len(raisers))
        chk.ob("S3", f"component_registry:{q.split('.')[1]}:validate-before-mutate", m.loc(bad[0].ast) if bad else m.loc(f), bad is None and bool(writes) and bool(raisers),
               f"all {len(raisers)} raising statements precede the first of {len(writes)} state writes" if bad is None else
               f"`{short(bad[0].ast)}` is executed before `{short(bad[1].ast)}` ({bad[2]}): when that raises (e.g. TagProtectedError) the failed {q.split('.')[1]}() has already changed the registry, so get()/all()/unregister() see a component that was rejected")
    # the protected registration itself: register_tag raises before calling library.tag
    lm, lf = proj.func("library", "register_tag")
    cfg = w.pair.cfgs.get(lf)
    tagn = [n for n in cfg.nodes if n.ast is not None and any(isinstance(c, ast.Call) and last_attr(c.func) == "tag" for c in ast.walk(n.ast))]
    rn = [n for n in cfg.nodes if n.kind == "raise"]
    ok = bool(tagn) and bool(rn) and not any(r in cfg.reachable_from([tagn[0]]) for r in rn)
    chk.ob("S3", "library:register_tag:raise-not-after-registration", lm.loc(lf), ok, "register_tag cannot raise after it registered the tag")


def s4(chk: Check, proj: Project, w) -> None:
    chk.rule("S4", "PROTECTED_TAGS equals the tags of the built-in Node classes registered in templatetags/component_tags.py, minus the component tag")
    lm = proj.mod("library")
    ok, prot = proj.try_fold(lm, lm.global_value("PROTECTED_TAGS"))
    if not ok:
        raise AnalysisError("PROTECTED_TAGS is not a constant list")
    tm = proj.mod("templatetags.component_tags")
    tags: Dict[str, str] = {}
    for st in tm.tree.body:
        if isinstance(st, ast.Expr) and isinstance(st.value, ast.Call) and isinstance(st.value.func, ast.Attribute) and st.value.func.attr == "register":
            r = proj.resolve_expr(tm, st.value.func.value)
            if r and r[0] == "def" and isinstance(r[2], ast.ClassDef):
                tv = next((s.value for s in r[2].body if isinstance(s, ast.Assign) and norm(s.targets[0]) == "tag"), None)
                okf, v = proj.try_fold(r[1], tv)
                if okf:
                    tags[r[2].name] = v
    if len(tags) < 6:
        raise AnalysisError(f"only {len(tags)} built-in tag registrations found")
    builtins = {v for k, v in tags.items() if k != "ComponentNode"}
    missing, extra = builtins - set(prot), set(prot) - builtins
    chk.ob("S4", "library:PROTECTED_TAGS-vs-builtin-tags", lm.loc(lm.global_value("PROTECTED_TAGS")), not missing and not extra,
           f"PROTECTED_TAGS = built-in tags {sorted(builtins)}" if not missing and not extra else f"built-in tags not protected: {sorted(missing)}; protected but not built-in: {sorted(extra)}: a component registered under such a name overwrites a built-in tag")
    am, af = proj.func("apps", "ComponentsConfig.ready")
    chk.ob("S4", "apps:ready:marks-protected", am.loc(af), bool(calls(af, "mark_protected_tags")) or any("mark_protected_tags" in norm(s) for mm, q, f in proj.all_funcs() for s in stmts(f)), "the default library's protected tags are marked at start-up")


MANIFEST = {
    "text": "Decides ownership of the registry tables and Library.tags (who may write), pairing and subject-variable consistency of every step in register/unregister/clear, validate-before-mutate as CFG non-reachability from state writes to raising statements including in-package callees, and agreement of PROTECTED_TAGS with the built-in tag classes registered by the templatetags module. Also: only the default library gets the default protected list, every class gets its own hash, deletions from the shared Library.tags are guarded, an empty protected list means 'nothing', and a callable settings input is evaluated per access. Round 4: the protected list is stored as a private copy, TAG_RE accepts every documented character (regex language), no duplicated boolean operand where a deprecated alias was meant. Round 5: the Library tag is (re-)installed on every registration (no per-registry memory of installed tags). Round 6: protected tags live on the Library object, never in an id()-keyed side table. Round 7: all() returns a fresh dict.",
    "note": "Trusted: django.template.Library.tag stores the function under tags[name]. Not decided: dictionary equivalence over histories.",
    "technique": "static who-may-write rule, CFG reachability (validate-before-mutate) with call-graph summaries of raising callees, table agreement",
}
