"""C03 — variable scoping follows the configured context behaviour (DESIGN.md section 3, C03).

S1 isolation gate: under `only` or ISOLATED the component is rendered in make_isolated_context_copy(context).
S2 what an isolated copy may carry: one forloop layer (copied), the component key, inject keys -- nothing else, and no
   layer shared by reference.
S3 balanced context-stack effect on normal exits: statement-form push/insert has a pop on every normal path; key
   stores into a caller's context happen under a layer the caller pushed.
S4 exhaustive fill-context selection over ContextBehavior.
S5 deferred rendering uses snapshots: outer_context / the renderer's context / on_render_after's context are
   snapshot_context(...) values.
S6 snapshot_context copies what it walks: no variable of the first copy loop is used in the second; the forloop chain
   walk advances into the copy; the captured-variable layer of a fill is placed relative to the LAST component layer.
"""
from __future__ import annotations

import ast
import re
from typing import Any, Dict, List, Optional, Set, Tuple

from ..astq import assignments, calls, kwarg, local_from, params, stmts
from ..callgraph import fkey
from ..cfg import CFG, cond_atoms, disj_atoms, flatten_conj, path_conditions
from ..report import Check
from ..source import AnalysisError, Project, ancestors, assign_targets, body_walk, dotted, enclosing_func, enclosing_stmt, last_attr, norm, parent, short
from .common import world
from .ctxrules import deferred_live_context, forwarding_loops, isolated_copy_ops


def run(chk: Check, proj: Project) -> None:
    chk.explanation = (
        "Structural obligations of context scoping: the isolation gate's reaching definition, a who-may-write rule for "
        "the isolated copy, a stack-effect analysis of every statement-form push on Context objects, exhaustiveness of "
        "the fill-context selection over the ContextBehavior enum, snapshot provenance of every deferred context, and "
        "copy discipline inside snapshot_context."
    )
    chk.not_decided = ["the 2-run non-interference statement itself", "shadowing order between layers in django mode", "docs-vs-code disagreement about {% with %}"]
    chk.trusted_base = ["Django Context.update()/push() used in `with` pop on exit; ContextDict copies the pushed dict"]
    w = world(proj)
    s1(chk, proj, w)
    s2(chk, proj, w)
    s3(chk, proj, w)
    s4(chk, proj, w)
    s5(chk, proj, w)
    s6(chk, proj, w)
    s9_forloop_copies(chk, proj, w)
    s7(chk, proj, w)
    from .C17 import s5_accessors

    s5_accessors(chk, proj, ["CONTEXT_BEHAVIOR"], rule="S8")
    s10_mode_source(chk, proj, w)
    s12_layer_frame(chk, proj, w)
    from . import C14 as _C14

    chk.borrow("S15", "in django mode the slot's original content printed through `{{ default }}` is evaluated against the bindings at THAT position: the SlotRef renders on every use - a memo of the first output replays the first use's `{% with %}` / `{% for %}` values at later positions (shared with C14-S2)",
               lambda sub: _C14.s2(sub, proj, w), only=lambda o: "SlotRef" in o.construct)
    from . import C01 as _C01

    chk.borrow("S14", "the slot's original content printed through `{{ default }}` sees ITS component's variables: every key that SlotNode.render overrides with the parent component's value on the shared Context (`component_vars` among them) is re-established by the SlotRef (shared with C01-S12)",
               lambda sub: _C01.s12b_slotref_keys(sub, proj))
    from . import C06, C07

    chk.borrow("S13", "the Context a fill is rendered in belongs to ONE render: no module-level Context / Template object ('the empty outer context, created once') is handed to render code - every fill rendered through it would push its variables onto the same object, so concurrently active fills (two threads, or a render started from inside a slot function) see and pop each other's variables (shared with C07-S1-G)",
               lambda sub: C07.s1g_global_objects(sub, proj, w, C07.reach_set(proj, w)))
    # variable layers of the caller's Context only (`<ctx>.push/.update`); the render_context window is C06's (F6b)
    chk.borrow("S11", "a layer pushed on the CALLER's Context in statement form is popped also when something in between raises - in a context-manager generator the pop after the `yield` stands in a `finally` (shared with C06-S2b / S2a; failed renders as such are C06)",
               lambda sub: (C06.s2b_push_pop(sub, proj, w), C06.s2a_generators(sub, proj, w)),
               only=lambda o: o.construct.endswith(">.push") or o.construct.endswith(">.update") or o.construct.endswith(">.dicts.insert") or o.construct.endswith(">.dicts.append") or "_prepare_template" in o.construct)


def defs_closure(f: ast.AST, name: str) -> List[ast.expr]:
    """All expressions that (transitively, through local names) define `name` in `f`."""
    out: List[ast.expr] = []
    seen: Set[str] = set()
    todo = [name]
    while todo:
        n_ = todo.pop()
        if n_ in seen:
            continue
        seen.add(n_)
        for _s, v in assignments(f, n_):
            if v is None:
                continue
            out.append(v)
            for x in ast.walk(v):
                if isinstance(x, ast.Name) and x.id not in seen:
                    todo.append(x.id)
    return out


def capture_model(ff: ast.AST) -> Tuple[Optional[str], List[Dict[str, Any]]]:
    """Abstract model of FillNode._extract_fill's variable capture: the marker index variable and, for every loop over
    the Context's layers, [{loop, whole, lower, upper, step, reversed, index_var, layer_var, stores:[{node, kind, atoms}]}].
    `kind` is 'forloop' when the store runs under `"forloop" in <layer>`, else 'vars'."""
    idx = local_from(ff, lambda v: isinstance(v, ast.Call) and last_attr(v.func) == "get_last_index" and "FILL_GEN_CONTEXT_KEY" in norm(v))
    loops: List[Dict[str, Any]] = []
    for lp in [x for x in body_walk(ff) if isinstance(x, ast.For) and ".dicts" in norm(x.iter)]:
        if any(isinstance(a, ast.For) and ".dicts" in norm(a.iter) for a in ancestors(lp)):
            continue
        it = lp.iter
        d: Dict[str, Any] = {"loop": lp, "reversed": False, "index_var": None, "layer_var": norm(lp.target), "whole": False, "lower": None, "upper": None, "step": None}
        while isinstance(it, ast.Call) and isinstance(it.func, ast.Name) and it.func.id in ("enumerate", "reversed", "list", "tuple") and it.args:
            if it.func.id == "reversed":
                d["reversed"] = not d["reversed"]
            if it.func.id == "enumerate" and isinstance(lp.target, ast.Tuple) and len(lp.target.elts) == 2:
                d["index_var"], d["layer_var"] = norm(lp.target.elts[0]), norm(lp.target.elts[1])
                if len(it.args) > 1 or it.keywords:
                    d["index_var"] = None
            it = it.args[0]
        if isinstance(it, ast.Subscript) and isinstance(it.slice, ast.Slice) and norm(it.value).endswith(".dicts"):
            d["lower"], d["upper"], d["step"] = it.slice.lower, it.slice.upper, it.slice.step
        elif norm(it).endswith(".dicts"):
            d["whole"] = True
        else:
            d["unknown"] = norm(it)
        stores = []
        for x in ast.walk(lp):
            tgt = None
            if isinstance(x, ast.Assign) and isinstance(x.targets[0], ast.Subscript) and "extra_context" in norm(x.targets[0].value):
                tgt = x
            elif isinstance(x, ast.Expr) and isinstance(x.value, ast.Call) and isinstance(x.value.func, ast.Attribute) and "extra_context" in norm(x.value.func.value):
                tgt = x
            if tgt is None:
                continue
            atoms = [(e, pol) for e, pol in flatten_conj(path_conditions(tgt, upto=lp))]
            kind = "forloop" if any(pol and isinstance(e, ast.Compare) and isinstance(e.left, ast.Constant) and e.left.value == "forloop" and isinstance(e.ops[0], ast.In) for e, pol in atoms) else "vars"
            stores.append({"node": tgt, "kind": kind, "atoms": atoms})
        d["stores"] = stores
        if stores:
            loops.append(d)
    return idx, loops


def s12_layer_frame(chk: Check, proj: Project, w) -> None:
    chk.rule("S12", "layer frame of fill variables: the component's data layer is ALWAYS pushed (the fill layer is positioned relative to it), variables bound between the tag and the fill are captured from the discovery marker layer INCLUSIVE, and the position correction applies on every path")
    cm, cf = proj.func("component", "_prepare_template")
    chk.analysed(fkey(cm, cf))
    withs = [x for x in ast.walk(cf) if isinstance(x, ast.With) and any(params(cf)[-2] in norm(it.context_expr) or "context_data" in norm(it.context_expr) for it in x.items)]
    okw = bool(withs) and all(isinstance(it.context_expr, ast.Call) and isinstance(it.context_expr.func, ast.Attribute) and it.context_expr.func.attr in ("update", "push") for it in withs[0].items)
    if not withs:
        # statement form: `<ctx>.update(<data>)` / `.push(<data>)` as a top-level statement of the function (its pairing with
        # the pop on the error path is S11's question, borrowed from C06)
        stm = [x for x in cf.body if isinstance(x, ast.Expr) and isinstance(x.value, ast.Call) and isinstance(x.value.func, ast.Attribute) and x.value.func.attr in ("update", "push") and x.value.args and (params(cf)[-2] in norm(x.value.args[0]) or "context_data" in norm(x.value.args[0]))]
        chk.ob("S12", "component:_prepare_template:data-layer-always-pushed", cm.loc(stm[0]) if stm else cm.loc(cf), True if stm else None,
               "the data layer is pushed by an unconditional statement" if stm else "the push of the component's data layer was not found")
    else:
      chk.ob("S12", "component:_prepare_template:data-layer-always-pushed", cm.loc(withs[0]) if withs else cm.loc(cf), okw if withs else None,
           "`with context.update(<data>)` is unconditional: one layer per component render, whatever get_context_data returned" if okw else
           f"`{short(withs[0].items[0].context_expr)}` pushes the data layer only sometimes: render_func places the fill's captured variables one layer below the component layer assuming that layer exists; without it they land below the surrounding context and an outer variable of the same name wins")
    fm, ff = proj.func("slots", "FillNode._extract_fill")
    chk.analysed(fkey(fm, ff))
    idx, loops = capture_model(ff)
    if not idx or not loops:
        chk.undecided("S12", "slots:FillNode._extract_fill:capture-includes-marker-layer", fm.loc(ff), "marker index / capture loop not found")
    else:
        # (a) variables bound between the tag and the fill: captured from the marker layer inclusive
        vs = [(lp, st) for lp in loops for st in lp["stores"] if st["kind"] == "vars"]
        verdict: Optional[bool] = None
        why = "no store of plain variables into extra_context found"
        where = fm.loc(ff)
        for lp, st in vs:
            where = fm.loc(lp["loop"])
            if not lp["whole"]:
                lo = lp["lower"]
                verdict = lo is not None and norm(lo) == idx and lp["upper"] is None and "unknown" not in lp
                why = (f"the capture walks `.dicts[{idx}:]`, starting AT the marker layer" if verdict else
                       f"the capture walks `{norm(lp['loop'].iter)}`: the marker layer itself is skipped (or layers are cut off), but tags that bind with `as var` directly in the component body ({{% firstof .. as x %}}, {{% url .. as x %}}) write into exactly that layer - their bindings are dropped and the fill sees the outer variable")
            else:
                cmp_ = [(e, pol) for e, pol in st["atoms"] if isinstance(e, ast.Compare) and len(e.ops) == 1 and lp["index_var"] is not None and {norm(e.left), norm(e.comparators[0])} == {lp["index_var"], idx}]
                if not cmp_:
                    verdict, why = None, "plain variables are captured from the whole stack without a comparison against the marker index"
                else:
                    e, pol = cmp_[0]
                    op = type(e.ops[0])
                    if norm(e.left) != lp["index_var"]:
                        op = {ast.Lt: ast.Gt, ast.Gt: ast.Lt, ast.LtE: ast.GtE, ast.GtE: ast.LtE}.get(op, op)
                    if not pol:
                        op = {ast.Lt: ast.GtE, ast.GtE: ast.Lt, ast.Gt: ast.LtE, ast.LtE: ast.Gt}.get(op, op)
                    verdict = op is ast.GtE
                    why = (f"plain variables are captured from the layers with `{lp['index_var']} >= {idx}`, i.e. from the marker layer on" if verdict else
                           f"`{norm(e)}` skips the marker layer itself, but tags that bind with `as var` directly in the component body ({{% firstof .. as x %}}, {{% url .. as x %}}) write into exactly that layer - their bindings are dropped and the fill sees the outer variable")
            break
        chk.ob("S12", "slots:FillNode._extract_fill:capture-includes-marker-layer", where, verdict, why)
        # (b) nothing cuts the walk short
        jumps = []
        extra = []
        for lp in loops:
            jumps += [x for x in ast.walk(lp["loop"]) if isinstance(x, (ast.Break, ast.Return))]
            for st in lp["stores"]:
                for e, pol in st["atoms"]:
                    t = norm(e)
                    is_forloop = isinstance(e, ast.Compare) and isinstance(e.left, ast.Constant) and e.left.value == "forloop"
                    is_idx = isinstance(e, ast.Compare) and ((lp["index_var"] is not None and {norm(e.left), norm(e.comparators[0])} == {lp["index_var"], idx}) or (norm(e.left) == idx and isinstance(e.ops[0], (ast.Is, ast.IsNot)) and isinstance(e.comparators[0], ast.Constant) and e.comparators[0].value is None))
                    is_keyfilter = ".startswith('_')" in t
                    if not (is_forloop or is_idx or is_keyfilter):
                        extra.append((st["node"], t, pol))
        bad_j = jumps[0] if jumps else (extra[0][0] if extra else None)
        chk.ob("S12", "slots:FillNode._extract_fill:capture-visits-every-layer", fm.loc(bad_j) if bad_j is not None else fm.loc(loops[0]["loop"]), bad_j is None,
               "the capture has no break / return and no condition besides the marker position, the forloop test and the `_` key filter: every layer between the marker and the fill is looked at" if bad_j is None else
               (f"`{short(enclosing_stmt(jumps[0]))}` cuts the capture short" if jumps else f"the capture additionally depends on `{'' if extra[0][2] else 'not '}{extra[0][1]}`") + ": scopes nested INSIDE a {% for %} ({% for %}{% with x=.. %}{% fill %}{{ x }}) or other layers are no longer captured and the fill renders without them")
        # (c) loop state from ALL layers
        fls = [(lp, st) for lp in loops for st in lp["stores"] if st["kind"] == "forloop"]
        if fls:
            lp, st = fls[0]
            restricted = [norm(e) for e, pol in st["atoms"] if not (isinstance(e, ast.Compare) and isinstance(e.left, ast.Constant) and e.left.value == "forloop")]
            whole = lp["whole"] and not restricted
            chk.ob("S12", "slots:FillNode._extract_fill:loop-state-captured-from-all-layers", fm.loc(lp["loop"]), whole,
                   f"the loop layers are collected from the whole `{norm(lp['loop'].iter)}`" if whole else
                   f"the loop layers are collected from `{norm(lp['loop'].iter)}`{' under `' + restricted[0] + '`' if restricted else ''} only: loops opened AROUND the component tag are no longer captured, and a fill whose context is rebuilt later (`only` in django mode, inside another component) renders the loop variable / forloop as empty")
            # (e) ... but all-or-nothing: re-applying ONLY the loop layers from outside the tag puts them above nearer bindings
            partial = whole and not any(st2["kind"] == "vars" and not any(isinstance(e, ast.Compare) and lp2["index_var"] is not None and {norm(e.left), norm(e.comparators[0])} == {lp2["index_var"], idx} for e, _p in st2["atoms"]) and lp2["whole"] for lp2 in loops for st2 in lp2["stores"])
            chk.ob("S12", "slots:FillNode._extract_fill:outer-loop-values-over-nearer-bindings", fm.loc(st["node"]), not partial,
                   "layers from outside the tag are captured all or not at all" if not partial else
                   "of the layers OUTSIDE the component tag only the {% for %} layers are captured, and the captured variables are placed above the outer context: a loop variable of a loop around the tag wins over a nearer binding of the same name that also lies outside the tag - `{% for x in xs %}{% with x=1 %}{% component .. %}{% fill .. %}{{ x }}` renders the loop value, not 1 (both modes)")
        # (d) one ordered pass
        one = len(loops) == 1
        chk.ob("S12", "slots:FillNode._extract_fill:captured-in-stack-order", fm.loc(loops[-1]["loop"]), one,
               "every captured layer is applied in ONE pass over the stack, outermost first: the innermost binding of a name wins, as at the position of the fill" if one else
               f"the captured variables are applied in {len(loops)} separate passes (`for .. in {norm(loops[0]['loop'].iter)}` then `for .. in {norm(loops[-1]['loop'].iter)}`): whatever the later pass stores shadows NEARER bindings of the earlier one - `{{% for x in xs %}}{{% with x=1 %}}{{% fill %}}{{{{ x }}}}` renders the loop value instead of 1")
    rm, rf = proj.func("slots", "_nodelist_to_slot_render_func.render_func")
    chk.analysed(fkey(rm, rf))
    ins_ = [c for c in calls(rf) if norm(c.func).endswith(".dicts.insert") and c.args and isinstance(c.args[0], ast.Name)]
    iv = ins_[0].args[0].id if ins_ and any("_COMPONENT_CONTEXT_KEY" in norm(v) for v in defs_closure(rf, ins_[0].args[0].id)) else None
    # the "one layer further down" correction: `iv -= 1` or `iv = <...> - 1`
    dec = [x for x in ast.walk(rf) if (isinstance(x, ast.AugAssign) and isinstance(x.op, ast.Sub) and norm(x.target) == iv)
           or (isinstance(x, ast.Assign) and norm(x.targets[0]) == iv and isinstance(x.value, ast.BinOp) and isinstance(x.value.op, ast.Sub) and isinstance(x.value.right, ast.Constant) and x.value.right.value == 1 and "len(" not in norm(x.value))]
    # which Context the fill is rendered in is decided in SlotNode.render; the marker it leaves for the render function
    sm_, sf_ = proj.func("slots", "SlotNode.render")
    ctxp = params(sf_)[1]
    marker = None
    # the dict that is pushed on the fill's context around the slot call: `with <used>.update(<pushed>)`
    pushed = {norm(it.context_expr.args[0]) for w_ in ast.walk(sf_) if isinstance(w_, ast.With) for it in w_.items if isinstance(it.context_expr, ast.Call) and isinstance(it.context_expr.func, ast.Attribute) and it.context_expr.func.attr == "update" and it.context_expr.args and isinstance(it.context_expr.args[0], ast.Name)}
    for st in stmts(sf_):
        if isinstance(st, ast.Assign) and isinstance(st.targets[0], ast.Subscript) and norm(st.targets[0].value) in pushed and isinstance(st.value, ast.Compare) and len(st.value.ops) == 1 and isinstance(st.value.ops[0], (ast.Is, ast.IsNot)) and ctxp in {norm(st.value.left), norm(st.value.comparators[0])}:
            marker = (norm(st.targets[0].slice), isinstance(st.value.ops[0], ast.IsNot), st)
    def _marker_atoms(node: ast.AST) -> List[Tuple[str, bool]]:
        return [(t, pol) for t, pol in cond_atoms(node) if marker is not None and marker[0] in t]
    if not iv:
        chk.undecided("S12", "slots:render_func:position-correction-unconditional", rm.loc(rf), "component-layer index not found")
    elif dec:
        other = [(t, pol) for d in dec for t, pol in cond_atoms(d) if not (marker is not None and marker[0] in t)]
        # once the outer-context case has its own branch (F51), this branch runs only on the slot's own context, which always
        # holds the component's layers: a guard for "no component layer" there is dead code, not a change of behaviour
        has_outer_branch = marker is not None and any(_marker_atoms(d) for d in dec)
        okd = not other or has_outer_branch
        chk.ob("S12", "slots:render_func:position-correction-unconditional", rm.loc(dec[0]), okd,
               f"`{short(dec[0])}` runs on every path of the own-context case (also when no component layer was found: index 0 becomes -1, i.e. just under the top layer)" if okd else
               f"`{short(dec[0])}` is conditional (`{('' if other[0][1] else 'not ') + other[0][0]}`): when the fill's context has no component layer (a component used directly in a page, isolated mode) the captured variables are inserted at the BOTTOM of the context instead of just under the top layer, and page variables of the same name win")
    else:
        chk.holds("S12", "slots:render_func:position-correction-unconditional", rm.loc(rf), "no position correction is needed any more (the extra layer is gone)", nontrivial=False)
    # F51: when the fill is rendered in the context from OUTSIDE the component (isolated mode), the last component layer of that
    # context is the ENCLOSING component's; the captured variables are nearer than anything in it and go right under the top layer
    if iv:
        tops = [st for st in ast.walk(rf) if isinstance(st, ast.Assign) and norm(st.targets[0]) == iv and re.fullmatch(r"len\((\w+)\.dicts\) - 1", norm(st.value)) and any(pol == marker[1] for _t, pol in _marker_atoms(st))] if marker is not None else []
        uncond_marker = marker is not None and marker[2] in sf_.body
        okm = bool(tops) and uncond_marker
        chk.ob("S12", "slots:render_func:outer-context-case-goes-under-the-top-layer", rm.loc(tops[0]) if tops else rm.loc(rf), okm,
               f"SlotNode.render records `{short(marker[2].value)}` under {marker[0]} in the layer it pushes, and the render function then places the captured layer at `len(ctx.dicts) - 1`" if okm else
               "the captured layer is always positioned relative to the LAST COMPONENT LAYER of the fill's context; in isolated mode that context is the one from outside the component, its last component layer belongs to the enclosing component, and every binding the enclosing template made above it shadows the captured variables: inside a component template `{% with a=1 %}{% component .. %}{% with a=2 %}{% fill .. %}{{ a }}` prints 1 (the same body in a page prints 2)")


def s10_mode_source(chk: Check, proj: Project, w) -> None:
    chk.rule("S10", "one source of truth for the mode: every comparison against a ContextBehavior member on a render path reads `<component's registry>.settings.context_behavior` (a registry may override the project-wide setting); the dynamic component forwards the context ITS isolation gate produced")
    n = 0
    for m, q, f in proj.all_funcs():
        if m.name.endswith((".app_settings", ".component_registry")):
            continue
        for cmpn in [x for x in body_walk(f) if isinstance(x, ast.Compare) and len(x.ops) == 1]:
            sides = [cmpn.left, cmpn.comparators[0]]
            member = [e for e in sides if isinstance(e, ast.Attribute) and norm(e.value) == "ContextBehavior"]
            if not member:
                continue
            other = sides[1] if sides[0] is member[0] else sides[0]
            n += 1
            chk.analysed(f"{m.name}:{q}")
            src = other
            if isinstance(other, ast.Attribute) and isinstance(other.value, ast.Name):
                d = [v for _s, v in assignments(f, other.value.id) if v is not None]
                outer = enclosing_func(f)
                while not d and outer is not None:
                    d = [v for _s, v in assignments(outer, other.value.id) if v is not None]
                    outer = enclosing_func(outer)
                if len(d) == 1:
                    src = ast.Attribute(value=d[0], attr=other.attr, ctx=ast.Load())
            elif isinstance(other, ast.Name):
                d = [v for _s, v in assignments(f, other.id) if v is not None]
                if len(d) == 1:
                    src = d[0]
            t = norm(src)
            ok = t.endswith(".registry.settings.context_behavior") or t.endswith("registry.settings.context_behavior")
            key = f"{m.name.replace('django_components.', '')}:{q}:mode-from-registry:{norm(member[0])}"
            if ok:
                chk.holds("S10", key, m.loc(cmpn), f"compares `{t}`")
            elif "app_settings" in t or "CONTEXT_BEHAVIOR" in t:
                chk.violated("S10", key, m.loc(cmpn), f"`{short(cmpn)}` reads the project-wide setting instead of the component's registry settings: with a registry whose context_behavior differs from the global one the component template is scoped one way and its fills the other")
            else:
                chk.undecided("S10", key, m.loc(cmpn), f"source of the compared mode `{t}` not recognised")
    chk.floor("S10", n, 4)
    gm, gf = proj.func("components.dynamic", "DynamicComponent.get_context_data")
    om, of = proj.func("components.dynamic", "DynamicComponent.on_render_before")
    rc = [c for c in calls(of, "render") if isinstance(c.func, ast.Attribute) and kwarg(c, "context") is not None]
    v = kwarg(rc[0], "context") if rc else None
    val = v
    if isinstance(v, ast.Subscript) and isinstance(v.slice, ast.Constant):
        for d in [x for x in ast.walk(gf) if isinstance(x, ast.Dict)]:
            for k, vv in zip(d.keys, d.values):
                if isinstance(k, ast.Constant) and k.value == v.slice.value:
                    val = vv
    txt = norm(val) if val is not None else ""
    ok = "self.input.context" in txt and "outer_context" not in txt
    chk.ob("S10", "components.dynamic:forwarded-context-is-own-input", gm.loc(val) if val is not None and hasattr(val, "lineno") else om.loc(of), ok if val is not None else None,
           "the inner component is rendered with (a snapshot of) the dynamic component's own input context, i.e. what the isolation gate produced" if ok else
           f"the inner component is rendered with `{txt}`: `outer_context` is the FULL context of the tag, so under isolation (isolated mode / `only`) the target's template sees variables that were never passed")
    # the target is created in the deferred hook: the context its fills are rendered in must be a snapshot taken at the tag too
    recv = rc[0].func.value.id if rc and isinstance(rc[0].func, ast.Attribute) and isinstance(rc[0].func.value, ast.Name) else None
    inst = [vv for _s, vv in assignments(of, recv) if isinstance(vv, ast.Call)] if recv else []
    oc = kwarg(inst[0], "outer_context") if inst else None
    oval = None
    if isinstance(oc, ast.Subscript) and isinstance(oc.slice, ast.Constant):
        for d in [x for x in ast.walk(gf) if isinstance(x, ast.Dict)]:
            for k, vv in zip(d.keys, d.values):
                if isinstance(k, ast.Constant) and k.value == oc.slice.value:
                    oval = vv
    snap = oval is not None and any(isinstance(x, ast.Call) and last_attr(x.func) == "snapshot_context" and x.args and norm(x.args[0]) == "self.outer_context" for x in ast.walk(oval))
    chk.ob("S10", "components.dynamic:fill-context-is-snapshot-of-tag", gm.loc(oval) if oval is not None and hasattr(oval, "lineno") else (om.loc(inst[0]) if inst else om.loc(of)), snap if inst else None,
           "the target's outer_context (where its fills are rendered in isolated mode) is snapshot_context(self.outer_context), taken in get_context_data, i.e. at the position of the tag" if snap else
           f"the target is created in on_render_before - deferred when the tag sits in another component's template - with outer_context=`{norm(oc) if oc is not None else '?'}`: by then the live Context has left the {{% with %}} / {{% for %}} scopes around the tag, so in isolated mode `{{% with w=1 %}}{{% component \"dynamic\" is=.. %}}{{% fill %}}{{{{ w }}}}` renders w empty while the plain tag renders 1")


def s7(chk: Check, proj: Project, w) -> None:
    chk.rule("S7", "slot data / default aliases are bound by a store into the top layer (innermost binding); variables captured between the component tag and the fill are collected outermost-first so that the innermost binding wins")
    m, f = proj.func("slots", "_nodelist_to_slot_render_func.render_func")
    ctx = params(f)[0]
    outer = proj.func("slots", "_nodelist_to_slot_render_func")[1]
    for var in [p for p in params(outer) if p.endswith("_var")]:
        guard = [s for s in f.body if isinstance(s, ast.If) and norm(s.test) == var]
        ok = bool(guard) and any(isinstance(x, ast.Assign) and isinstance(x.targets[0], ast.Subscript) and norm(x.targets[0].value) == ctx and norm(x.targets[0].slice) == var for x in guard[0].body)
        chk.ob("S7", f"slots:render_func:{var}-bound-innermost", m.loc(guard[0]) if guard else m.loc(f), ok if guard else None,
               f"`{ctx}[{var}] = ...` binds the alias in the top layer" if ok else
               f"the alias `{var}` is not bound with `{ctx}[{var}] = ...` (e.g. setdefault only assigns when the name resolves nowhere): an unrelated outer variable of the same name wins over the slot data")
    m2, f2 = proj.func("slots", "FillNode._extract_fill")
    idx, loops = capture_model(f2)
    if not loops:
        chk.undecided("S7", "slots:FillNode._extract_fill:capture-order", m2.loc(f2), "capture loop over context.dicts not found")
    else:
        bad = [lp for lp in loops if lp["reversed"] or lp["step"] is not None or "unknown" in lp]
        setd = [st["node"] for lp in loops for st in lp["stores"] if isinstance(st["node"], ast.Expr) and st["node"].value.func.attr not in ("update",)]
        condk = [st["node"] for lp in loops for st in lp["stores"] if any(isinstance(e, ast.Compare) and isinstance(e.ops[0], (ast.In, ast.NotIn)) and "extra_context" in norm(e.comparators[0]) for e, _p in st["atoms"])]
        ok = not bad and not setd and not condk
        chk.ob("S7", "slots:FillNode._extract_fill:capture-order", m2.loc((bad[0]["loop"] if bad else (setd or condk or [loops[0]["loop"]])[0])), ok,
               "captured layers are walked outermost -> innermost with unconditional assignment (innermost wins)" if ok else
               f"the capture walks `{short(bad[0]['loop'].iter) if bad else short((setd or condk)[0])}`: the OUTERMOST binding of a name wins, so a name bound twice between the tag and the fill evaluates differently from its position in the template")
        # the captured keys exclude internal ones
        stores = [st for lp in loops for st in lp["stores"] if st["kind"] == "vars" and isinstance(st["node"], ast.Assign)]
        okk = bool(stores) and all(any(".startswith('_')" in norm(e) and not pol for e, pol in st["atoms"]) for st in stores)
        chk.ob("S7", "slots:FillNode._extract_fill:no-internal-keys-captured", m2.loc(stores[0]["node"]) if stores else m2.loc(loops[0]["loop"]), okk if stores else None,
               "keys starting with `_` (the library's internal keys, e.g. inject keys) are not captured into the fill" if okk else
               "the capture filter lets internal `_...` keys into the fill's extra context: the inject key of a {% provide %} that only wrapped the {% fill %} tag is captured, its data is released after fill discovery, and inject() inside the fill later raises KeyError for the dangling id")


def s1(chk: Check, proj: Project, w) -> None:
    chk.rule("S1", "ComponentNode.render: on every path where `only` is set or context_behavior is ISOLATED the context passed to _render is make_isolated_context_copy(context)")
    m, f = proj.func("component", "ComponentNode.render")
    chk.analysed(fkey(m, f))
    rc = calls(f, "_render")
    if len(rc) != 1:
        chk.undecided("S1", "component:ComponentNode.render:shape", m.loc(f), f"{len(rc)} _render calls")
        return
    ctxv = norm(kwarg(rc[0], "context") or (rc[0].args[0] if rc[0].args else ast.Constant(value=None)))
    iso = [s for s in stmts(f) if isinstance(s, ast.Assign) and norm(s.targets[0]) == ctxv and isinstance(s.value, ast.Call) and last_attr(s.value.func) == "make_isolated_context_copy"]
    if len(iso) != 1:
        chk.violated("S1", "component:ComponentNode.render:isolation-gate", m.loc(rc[0]), f"`{ctxv}` passed to the component is never replaced by make_isolated_context_copy(...): outer variables leak into `only` / isolated components")
        return
    s = iso[0]
    gate = next((a for a in ancestors(s) if isinstance(a, ast.If)), None)
    dis = set(disj_atoms(gate.test)) if gate is not None else set()
    has_only = any("COMP_ONLY_FLAG" in d and "self.flags" in d for d in dis)
    has_iso = any("context_behavior == ContextBehavior.ISOLATED" in d for d in dis)
    extra = [d for d in dis if not ("COMP_ONLY_FLAG" in d or "ContextBehavior.ISOLATED" in d)]
    conj = isinstance(gate.test, ast.BoolOp) and isinstance(gate.test.op, ast.And) if gate is not None else False
    ok = gate is not None and has_only and has_iso and not conj and norm(s.value.args[0]) == ctxv and s.lineno < rc[0].lineno and gate in f.body
    chk.ob("S1", "component:ComponentNode.render:isolation-gate", m.loc(gate) if gate is not None else m.loc(s), ok,
           "context := make_isolated_context_copy(context) if `only` or ISOLATED, directly before _render" if ok else
           f"the isolation gate `{short(gate.test) if gate is not None else '?'}` does not cover both the `only` flag and ISOLATED mode (or is nested under another condition)")
    # the outer context given to the instance is the ORIGINAL context (fills are lexically scoped to it)
    inst = [c for c in calls(f) if kwarg(c, "outer_context") is not None]
    oko = bool(inst) and norm(kwarg(inst[0], "outer_context")) == ctxv and inst[0].lineno < s.lineno
    chk.ob("S1", "component:ComponentNode.render:outer-context-is-callers", m.loc(inst[0]) if inst else m.loc(f), oko, "outer_context is the caller's context, captured before isolation")
    fills = calls(f, "resolve_fills")
    okf = bool(fills) and norm(fills[0].args[0]) == ctxv and fills[0].lineno < s.lineno
    chk.ob("S1", "component:ComponentNode.render:fills-resolved-in-callers-context", m.loc(fills[0]) if fills else m.loc(f), okf, "fills are discovered in the caller's context, before isolation")


def s2(chk: Check, proj: Project, w) -> None:
    chk.rule("S2", "the isolated copy receives exactly: one copied forloop layer, the component key, the keys with the inject prefix; no layer is shared by reference")
    isolated_copy_ops(chk, "S2", proj)
    m, f = proj.func("context", "make_isolated_context_copy")
    chk.analysed(fkey(m, f))
    fresh = next((x.targets[0].id for x in body_walk(f) if isinstance(x, ast.Assign) and isinstance(x.value, ast.Call) and isinstance(x.value.func, ast.Attribute) and x.value.func.attr == "new" and isinstance(x.targets[0], ast.Name)), None)
    n = 0
    for s in stmts(f):
        if isinstance(s, ast.Assign) and isinstance(s.targets[0], ast.Subscript) and norm(s.targets[0].value) == fresh:
            n += 1
            k = s.targets[0].slice
            atoms = cond_atoms(s)
            if norm(k) == "_COMPONENT_CONTEXT_KEY":
                ok = norm(s.value) == f"{params(f)[0]}[_COMPONENT_CONTEXT_KEY]"
                chk.ob("S2", "context:make_isolated_context_copy:component-key", m.loc(s), ok, "the component key is passed through")
            else:
                guarded = any(pol and "startswith(_INJECT_CONTEXT_KEY_PREFIX)" in t and t.startswith(norm(k)) for t, pol in atoms)
                chk.ob("S2", f"context:make_isolated_context_copy:{short(s, 50)}", m.loc(s), guarded, "only keys with the inject prefix are copied" if guarded else
                       f"`{short(s)}` copies a key of the outer context into the isolated copy without the inject-prefix guard: an outer variable leaks into an isolated component")
    for c in calls(f):
        if isinstance(c.func, ast.Attribute) and norm(c.func.value) == fresh and c.func.attr in ("update", "push", "dicts"):
            n += 1
            a0 = c.args[0] if c.args else None
            guarded = isinstance(a0, ast.DictComp) and any("startswith(_INJECT_CONTEXT_KEY_PREFIX)" in norm(i) for g in a0.generators for i in g.ifs) and not any(isinstance(i, ast.BoolOp) and isinstance(i.op, ast.Or) for g in a0.generators for i in g.ifs)
            chk.ob("S2", f"context:make_isolated_context_copy:{short(enclosing_stmt(c), 50)}", m.loc(c), guarded,
                   "only keys with the inject prefix are copied" if guarded else
                   f"`{short(enclosing_stmt(c))}` forwards a whole mapping / layer of the outer context into the isolated copy: every other variable stored in the same layer (a `{{% firstof .. as v %}}` / `{{% cycle .. as v %}}` inside the provide body, slot data next to a provided key) reaches `only` / isolated components that were never passed it")
    chk.floor("S2-stores", n, 2)
    # the forloop helper pushes exactly one layer
    m2, f2 = proj.func("context", "_copy_forloop_context")
    chk.analysed(fkey(m2, f2))
    tp = params(f2)[1]
    ups = [c for c in calls(f2) if isinstance(c.func, ast.Attribute) and norm(c.func.value) == tp]
    one = len(ups) == 1 and ups[0].func.attr == "update" and ups[0].args and isinstance(ups[0].args[0], ast.Subscript) and not isinstance(ups[0].args[0].slice, ast.Slice) and norm(ups[0].args[0].value) == f"{params(f2)[0]}.dicts" and not any(isinstance(a, (ast.For, ast.While)) for a in ancestors(ups[0]))
    if ups and not any(c.func.attr == "update" for c in ups):
        one = False
    chk.ob("S2", "context:_copy_forloop_context:single-layer", m2.loc(ups[0]) if ups else m2.loc(f2), one if ups else None,
           "exactly one layer (the loop's own) is pushed, via update() (copied)" if one else
           "the forloop forwarding pushes more than the loop's own layer (a slice / several layers) into the isolated copy: variables bound between the loop and the component tag ({% with %}, enclosing component data) leak into an `only` / isolated component")
    idx = assignments(f2, norm(ups[0].args[0].slice)) if one else []
    oki = bool(idx) and idx[0][1] is not None and "get_last_index" in norm(idx[0][1]) and "'forloop' in" in norm(idx[0][1])
    chk.ob("S2", "context:_copy_forloop_context:innermost-forloop-layer", m2.loc(idx[0][0]) if idx else m2.loc(f2), oki if one else None, "the layer is the LAST one that contains `forloop`")


def _bypass(cfg: CFG, start_nodes, stop_nodes) -> bool:
    seen: Set[int] = set()
    todo = [s for n in start_nodes for s, lab in n.succ if lab not in ("x", "p")]
    while todo:
        n = todo.pop()
        if n.id in seen or n in stop_nodes:
            continue
        seen.add(n.id)
        if n is cfg.exit:
            return True
        todo.extend(s for s, lab in n.succ if lab not in ("x", "p"))
    return False


def s3(chk: Check, proj: Project, w) -> None:
    chk.rule("S3", "every statement-form push/insert/append on a Context stack (.dicts, .render_context, the metadata stack) has the matching pop on every normal path to the function's exit; `with x.update()/push()` is balanced by construction")
    n_pairs = n_with = 0
    for m, q, f in proj.all_funcs():
        if m.name.split(".")[-1] not in ("component", "slots", "provide", "context", "dynamic") and "components.dynamic" not in m.name:
            continue
        cfg: Optional[CFG] = None
        for s in stmts(f):
            if isinstance(s, ast.Expr) and isinstance(s.value, ast.Call) and isinstance(s.value.func, ast.Attribute) and s.value.func.attr in ("push", "insert", "append", "appendleft"):
                recv = norm(s.value.func.value)
                if not (recv.endswith(".dicts") or recv.endswith(".render_context") or recv.endswith("_metadata_stack")):
                    continue
                n_pairs += 1
                chk.analysed(fkey(m, f))
                cfg = cfg or w.pair.cfgs.get(f)
                pops = {x for p in stmts(f) if isinstance(p, ast.Expr) and isinstance(p.value, ast.Call) and isinstance(p.value.func, ast.Attribute) and p.value.func.attr in ("pop", "popleft") and norm(p.value.func.value) == recv for x in cfg.nodes_of(p)}
                byp = _bypass(cfg, cfg.nodes_of(s), pops) if pops else True
                # generator context managers pop after the yield: the normal continuation of the yield must pass the pop
                chk.ob("S3", f"{m.name.replace('django_components.', '')}:{q}:{short(s, 60)}", m.loc(s), not byp,
                       f"`{recv}` is popped on every normal path after this push" if not byp else f"`{short(s)}` has no matching pop on some normal path to the exit: rendering leaves an extra layer on the caller's Context")
        for wn in [x for x in body_walk(f) if isinstance(x, ast.With)]:
            for it in wn.items:
                c = it.context_expr
                if isinstance(c, ast.Call) and isinstance(c.func, ast.Attribute) and c.func.attr in ("update", "push", "bind_template") and ("context" in norm(c.func.value).lower() or "ctx" in norm(c.func.value).lower()):
                    n_with += 1
    chk.floor("S3-pairs", n_pairs, 3)
    chk.extra["with_balanced_pushes"] = n_with
    chk.holds("S3", "with-form-pushes", "-", f"{n_with} pushes are in `with` form (popped by ContextDict.__exit__)", nontrivial=False)
    if n_with < 6:
        chk.error(f"C03-S3: only {n_with} with-form pushes found (floor 6)")
    # key stores into a caller's context: the caller has a layer open
    m, f = proj.func("slots", "SlotNode.render")
    slot_calls = [c for c in calls(f) if isinstance(c.func, ast.Attribute) and c.func.attr == "slot" and len(c.args) >= 2]
    for c in slot_calls:
        ctxn = norm(c.args[0])
        ok = any(isinstance(a, ast.With) and any(isinstance(it.context_expr, ast.Call) and norm(it.context_expr.func) == f"{ctxn}.update" for it in a.items) for a in ancestors(c))
        chk.ob("S3", "slots:SlotNode.render:slot-call-under-own-layer", m.loc(c), ok, f"the slot function (which stores the data/default aliases into `{ctxn}`) runs inside `with {ctxn}.update(...)`" if ok else f"the slot function writes its aliases into `{ctxn}` outside a layer pushed by SlotNode.render: the aliases stay in the caller's context")
    m2, f2 = proj.func("provide", "ProvideNode.render")
    sp = calls(f2, "set_provided_context_var")
    ok = bool(sp) and any(isinstance(a, ast.With) and any(isinstance(it.context_expr, ast.Call) and norm(it.context_expr.func) == f"{norm(sp[0].args[0])}.update" for it in a.items) for a in ancestors(sp[0]))
    chk.ob("S3", "provide:ProvideNode.render:key-store-under-own-layer", m2.loc(sp[0]) if sp else m2.loc(f2), ok, "the inject key is stored inside `with context.update({})`")


def s4(chk: Check, proj: Project, w) -> None:
    chk.rule("S4", "_resolve_slot_context: unfilled -> the current context; one branch per ContextBehavior member; otherwise raises")
    m, f = proj.func("slots", "SlotNode._resolve_slot_context")
    chk.analysed(fkey(m, f))
    am = proj.mod("app_settings")
    members = [t.id for s in am.cls("ContextBehavior").body if isinstance(s, ast.Assign) for t in s.targets if isinstance(t, ast.Name)]
    if len(members) < 2:
        raise AnalysisError("ContextBehavior members not found")
    ctxp = params(f)[1]
    # decided on the path conditions of the return / raise statements (independent of how the branches are nested)
    rets = [r for r in stmts(f) if isinstance(r, ast.Return) and r.value is not None]
    raises = [r for r in stmts(f) if isinstance(r, ast.Raise)]

    def under(st: ast.AST) -> Dict[str, bool]:
        """member -> True (this statement runs only if behaviour == member) / False (only if != member)"""
        out: Dict[str, bool] = {}
        for t, pol in cond_atoms(st):
            mm_ = re.match(r"^(.*) (==|!=) ContextBehavior\.(\w+)$", t)
            if mm_:
                out[mm_.group(3)] = (mm_.group(2) == "==") == pol
        return out

    def unfilled(st: ast.AST) -> Optional[bool]:
        for t, pol in cond_atoms(st):
            if t.endswith("slot_fill.is_filled") or t.endswith(".is_filled"):
                return not pol if not t.startswith("not ") else pol
        return None

    uf = [r for r in rets if unfilled(r) is True]
    ok = bool(uf) and all(norm(r.value) == ctxp for r in uf)
    chk.ob("S4", "slots:_resolve_slot_context:unfilled-current-context", m.loc(uf[0]) if uf else m.loc(f), ok, "default content is rendered in the current context")
    filled = [r for r in rets if unfilled(r) is not True]
    for mem in members:
        mine = [r for r in filled if under(r).get(mem) is True or (len(members) == 2 and any(under(r).get(o) is False for o in members if o != mem) and under(r).get(mem) is not False)]
        chk.ob("S4", f"slots:_resolve_slot_context:branch-{mem}", m.loc(mine[0]) if mine else m.loc(f), bool(mine), f"has a branch for ContextBehavior.{mem}" if mine else f"no branch for ContextBehavior.{mem}")
        if mem == "ISOLATED" and mine:
            okm = all("outer_context" in norm(r.value) or any("outer_context" in norm(v) for x in ast.walk(r.value) if isinstance(x, ast.Name) for _s, v in assignments(f, x.id) if v is not None) for r in mine)
            chk.ob("S4", "slots:_resolve_slot_context:isolated-uses-outer-context", m.loc(mine[0]), okm, "isolated: fills evaluate in the component's outer context" if okm else f"isolated mode renders fills in `{[norm(r.value) for r in mine]}`, not in the outer context: fill content sees the inner component's variables")
        if mem == "DJANGO" and mine:
            okm = all(norm(r.value) == ctxp for r in mine)
            chk.ob("S4", "slots:_resolve_slot_context:django-uses-current-context", m.loc(mine[0]), okm, "django: fills evaluate in the current context")
            # `only` isolates the component in EVERY mode (S1); then the current context is the isolated copy
            alt = [r for r in filled if under(r).get("ISOLATED") is not True and "outer_context" in "".join(norm(x) for x in ast.walk(r.value) if isinstance(x, (ast.Name, ast.Attribute)))]
            chk.ob("S4", "slots:_resolve_slot_context:only-flag-fill-scope", m.loc(mine[0]), bool(alt),
                   "in django mode a component isolated with `only` renders its fills against the outer context" if alt else
                   "in 'django' mode the fill is always rendered in the component's current context; under the `only` flag that context is the isolated copy (ComponentNode.render, S1) plus the component's data, so fill content sees none of the page variables: `{% component \"c\" only %}{% fill \"s\" %}{{ page_var }}{% endfill %}` renders empty although the fill is written at the position of the tag (only the captured loops / with-bindings inside the tag survive)")
    # anything else raises: a raise that runs when the behaviour equals none of the members
    okr = any(all(under(r).get(mem) is False for mem in members) for r in raises)
    chk.ob("S4", "slots:_resolve_slot_context:else-raises", m.loc(raises[0]) if raises else m.loc(f), okr, "an unknown behaviour raises")


def s5(chk: Check, proj: Project, w) -> None:
    chk.rule("S5", "contexts kept for deferred rendering are snapshots: ComponentContext.outer_context, the renderer's context, on_render_after's context")
    r = proj.try_func("component", "Component._render_with_id") or proj.try_func("component", "Component._render_impl")
    m, f = r  # type: ignore[misc]
    chk.analysed(fkey(m, f))
    cc = calls(f, "ComponentContext")
    oc = kwarg(cc[0], "outer_context") if cc else None
    ok = isinstance(oc, ast.IfExp) and isinstance(oc.body, ast.Call) and last_attr(oc.body.func) == "snapshot_context" and isinstance(oc.orelse, ast.Constant) and oc.orelse.value is None
    chk.ob("S5", "component:render:outer_context-is-snapshot", m.loc(cc[0]) if cc else m.loc(f), ok, "ComponentContext.outer_context = snapshot_context(...) or None" if ok else f"outer_context is `{short(oc) if oc is not None else '?'}`: fills rendered later see the caller's context as it is THEN, not as it was at the component tag")
    gr = calls(f, "_gen_component_renderer")
    cv = norm(kwarg(gr[0], "context")) if gr and kwarg(gr[0], "context") is not None else None
    d = assignments(f, cv) if cv else []
    ok = len(d) == 1 and isinstance(d[0][1], ast.Call) and last_attr(d[0][1].func) == "snapshot_context"
    chk.ob("S5", "component:render:renderer-context-is-snapshot", m.loc(gr[0]) if gr else m.loc(f), ok, f"the deferred renderer gets `{cv}` = snapshot_context(context)" if ok else f"the deferred renderer is given `{cv}`, which is not a snapshot: it renders with whatever the live context holds later")
    cb = next((x for x in body_walk(f) if isinstance(x, ast.FunctionDef) and x.name == "on_component_rendered"), None)
    if cb is not None:
        ora = calls(cb, "on_render_after")
        ok = bool(ora) and norm(ora[0].args[0]) == cv
        chk.ob("S5", "component:render:on_render_after-gets-snapshot", m.loc(ora[0]) if ora else m.loc(cb), ok, "on_render_after receives the snapshot")
    deferred_live_context(chk, "S5", proj)
    # other writers of outer_context attribute
    for mm, q, fn in proj.all_funcs():
        for s in stmts(fn):
            if isinstance(s, ast.Assign) and any(isinstance(t, ast.Attribute) and t.attr == "outer_context" for t in s.targets) and not q.endswith("__init__"):
                chk.violated("S5", f"{mm.name}:{q}:{short(s, 50)}", mm.loc(s), f"`{short(s)}` assigns outer_context outside the constructor / ComponentContext construction")


def s9_forloop_copies(chk: Check, proj: Project, w) -> None:
    chk.rule("S9", "sibling agreement: every place that copies a `forloop` dict for later (deferred) use also copies the parentloop chain below it with a loop; a one-level copy keeps the live parent loop dicts")
    n = 0
    for m, q, f in proj.all_funcs():
        sites = []
        for st in stmts(f):
            if isinstance(st, ast.Assign) and isinstance(st.value, ast.Call) and isinstance(st.value.func, ast.Attribute) and st.value.func.attr == "copy" and not st.value.args:
                src = st.value.func.value
                if isinstance(src, ast.Subscript) and isinstance(src.slice, ast.Constant) and src.slice.value == "forloop":
                    sites.append(st)
        for st in sites:
            n += 1
            chk.analysed(f"{m.name}:{q}")
            walks = []
            for lp in ast.walk(f):
                if isinstance(lp, (ast.While, ast.For)):
                    for a in ast.walk(lp):
                        if isinstance(a, ast.Assign) and isinstance(a.targets[0], ast.Subscript) and isinstance(a.targets[0].slice, ast.Constant) and a.targets[0].slice.value == "parentloop" \
                                and isinstance(a.value, ast.Call) and isinstance(a.value.func, ast.Attribute) and a.value.func.attr == "copy":
                            walks.append(lp)
            ok = bool(walks) and any(w_.lineno > st.lineno for w_ in walks)
            chk.ob("S9", f"{m.name.replace('django_components.', '')}:{q}:forloop-copy-walks-parentloop", m.loc(st), ok,
                   "the copy of `forloop` is followed by a loop that copies each `parentloop` below it" if ok else
                   f"`{short(st)}` copies one level only: `forloop.parentloop` stays the dict that the enclosing {{% for %}} keeps updating, so content rendered later (a fill produced in nested loops, a deferred component) reports the outer loop's FINAL counter instead of the one at its own iteration")
    chk.floor("S9", n, 2)


def s6(chk: Check, proj: Project, w) -> None:
    chk.rule("S6", "snapshot_context: the second copy loop uses none of the first loop's variables; the forloop chain walk advances into the freshly stored copy; fill variables are layered relative to the LAST component layer")
    m, f = proj.func("util.context", "snapshot_context")
    chk.analysed(fkey(m, f))
    loops = [x for x in f.body if isinstance(x, ast.For)]
    if len(loops) != 2:
        chk.undecided("S6", "util.context:snapshot_context:shape", m.loc(f), f"expected two copy loops, found {len(loops)}")
    else:
        def bound(loop: ast.For) -> Set[str]:
            out = {n.id for n in ast.walk(loop.target) if isinstance(n, ast.Name)}
            for s in ast.walk(loop):
                for t, _v in assign_targets(s):
                    if isinstance(t, ast.Name):
                        out.add(t.id)
            return out

        b1, b2 = bound(loops[0]), bound(loops[1])
        only1 = b1 - b2
        stale = [n for n in ast.walk(loops[1]) if isinstance(n, ast.Name) and isinstance(n.ctx, ast.Load) and n.id in only1]
        # names assigned before the loops / in both are fine
        chk.ob("S6", "util.context:snapshot_context:no-stale-loop-variable", m.loc(stale[0]) if stale else m.loc(loops[1]), not stale,
               "the render-context loop uses only its own variables" if not stale else
               f"the second copy loop reads `{stale[0].id}`, a variable of the FIRST loop (stale after it finished): the 'already copied' test looks at the wrong dict, so a pushed render-context layer is shared instead of copied and nested components see another component's blocks")
        # both loops copy: CopiedDict(...) of their own dict variable
        for i, lp in enumerate(loops):
            cp = [c for c in calls(lp, "CopiedDict") if c.args]
            own = {n.id for n in ast.walk(lp) if isinstance(n, ast.Name) and isinstance(n.ctx, ast.Store)}
            ok = bool(cp) and all(isinstance(c.args[0], ast.Name) and c.args[0].id in own for c in cp)
            chk.ob("S6", f"util.context:snapshot_context:loop{i + 1}-copies-own-dict", m.loc(lp), ok, "every layer is copied with CopiedDict(<this loop's dict>)")
    # aliasing: the Context layers of the result are fresh copies, except layers strictly BELOW the topmost layer that
    # an earlier snapshot already copied (the topmost one is still written by `{% ... as var %}` tags of the live render)
    if loops:
        lp0 = loops[0]
        live = params(f)[0]
        idxv = norm(lp0.target)
        sl = [x for x in ast.walk(lp0) if isinstance(x, ast.Subscript) and isinstance(x.slice, ast.Slice) and norm(x.value) == f"{live}.dicts"]
        whole = [x for x in ast.walk(lp0) if isinstance(x, ast.Attribute) and norm(x) == f"{live}.dicts" and isinstance(parent(x), (ast.BinOp, ast.Assign, ast.List, ast.Starred)) and not isinstance(parent(x), ast.Subscript)]
        key = "util.context:snapshot_context:no-writable-layer-shared"
        if whole:
            chk.violated("S6", key, m.loc(whole[0]), f"`{short(enclosing_stmt(whole[0]))}` puts the live context's layer list itself into the snapshot")
        elif not sl:
            chk.holds("S6", key, m.loc(lp0), "no layer of the live context is reused by reference: every layer is copied")
        else:
            for x in sl:
                up = x.slice.upper
                if x.slice.lower is None and up is not None and norm(up) == idxv:
                    chk.holds("S6", key, m.loc(x), f"only the layers strictly below the topmost already-copied layer (`{live}.dicts[:{idxv}]`) are reused; that layer itself is copied")
                elif x.slice.lower is None and isinstance(up, ast.BinOp) and isinstance(up.op, ast.Add) and norm(up.left) == idxv:
                    chk.violated("S6", key, m.loc(x),
                                 f"`{short(enclosing_stmt(x))}` reuses the topmost already-copied layer BY REFERENCE (`[:{norm(up)}]` includes the layer at `{idxv}`): it is the live top layer of the parent's template render, so a later `{{% firstof .. as x %}}` / `{{% url .. as x %}}` in the parent is seen by the deferred child render and its fills")
                else:
                    chk.undecided("S6", key, m.loc(x), f"slice `{norm(x)}` of the live layer list not understood")
    # the forloop dict itself is copied into the copied layer (CopiedDict(...) is shallow: without this the snapshot
    # keeps the dict that the live {% for %} goes on updating)
    if loops:
        fl = [st for st in ast.walk(loops[0]) if isinstance(st, ast.Assign) and isinstance(st.targets[0], ast.Subscript) and isinstance(st.targets[0].slice, ast.Constant) and st.targets[0].slice.value == "forloop"]
        okf = any(isinstance(st.value, ast.Call) and isinstance(st.value.func, ast.Attribute) and st.value.func.attr == "copy" and isinstance(st.value.func.value, ast.Subscript)
                  and isinstance(st.value.func.value.slice, ast.Constant) and st.value.func.value.slice.value == "forloop" and norm(st.targets[0].value) != norm(st.value.func.value.value) for st in fl)
        chk.ob("S6", "util.context:snapshot_context:forloop-dict-copied", m.loc(fl[0]) if fl else m.loc(loops[0]), okf,
               "the copied layer gets its own copy of the `forloop` dict" if okf else
               "the copied layer keeps the live `forloop` dict (the layer copy is shallow): components and fills rendered after the loop has moved on all report the LAST iteration's counter / first / last")
    wl = [x for x in body_walk(f) if isinstance(x, ast.While)]
    if len(wl) != 1:
        chk.undecided("S6", "util.context:snapshot_context:chain-walk", m.loc(f), f"{len(wl)} while loops")
    else:
        lp = wl[0]
        cur = norm(lp.test.left) if isinstance(lp.test, ast.Compare) else None
        copies = [s for s in stmts(lp.body) if isinstance(s, ast.Assign) and isinstance(s.value, ast.Call) and isinstance(s.value.func, ast.Attribute) and s.value.func.attr == "copy" and norm(s.value.func.value) == norm(s.targets[0])]
        adv = [s for s in stmts(lp.body) if isinstance(s, ast.Assign) and norm(s.targets[0]) == cur]
        ok = len(copies) == 1 and len(adv) == 1 and norm(adv[0].value) == norm(copies[0].targets[0]) and adv[0].lineno > copies[0].lineno
        chk.ob("S6", "util.context:snapshot_context:walk-advances-into-copy", m.loc(adv[0]) if adv else m.loc(lp), ok,
               f"`{cur}` advances to `{norm(copies[0].targets[0])}` re-read after it was replaced by its copy" if ok else
               f"the forloop chain walk does not advance into the copy it just stored (`{short(adv[0]) if adv else '?'}`): from the second parent level on the ORIGINAL loop dicts are kept, so a deferred fill reads `forloop.parentloop.parentloop` of a later iteration")
    m2, f2 = proj.func("slots", "_nodelist_to_slot_render_func.render_func")
    chk.analysed(fkey(m2, f2))
    ins = [c for c in calls(f2) if norm(c.func).endswith(".dicts.insert")]
    if ins:
        iv = norm(ins[0].args[0])
        # every search for a component layer among the definitions of the index (the call may be wrapped: `... or 0`)
        d = [c_ for v in defs_closure(f2, iv) for c_ in ast.walk(v) if isinstance(c_, ast.Call) and last_attr(c_.func) in ("get_last_index", "get_index") and "_COMPONENT_CONTEXT_KEY" in norm(c_)]
        ok = len(d) == 1 and last_attr(d[0].func) == "get_last_index" and "_COMPONENT_CONTEXT_KEY in" in norm(d[0])
        chk.ob("S6", "slots:render_func:fill-layer-below-last-component-layer", m2.loc(ins[0]), ok, "the captured-variable layer is positioned with get_last_index(<component layers>)" if ok else
               f"the layer with the fill's captured {{% with %}}/{{% for %}} variables is positioned with `{short(d[0]) if d else '?'}` (first component layer, not the last): inside nested components the enclosing component's data shadows the variables bound between the tag and the fill")


MANIFEST = {
    "text": "Decides the structural obligations of context scoping: the isolation gate covers `only` and ISOLATED and is the reaching definition of the context handed to the component; the isolated copy may only receive one copied forloop layer, the component key and inject-prefixed keys (who-may-write rule, no layer by reference); every statement-form push on a Context stack is popped on every normal path; fill-context selection is exhaustive over the ContextBehavior enum; every context kept for deferred rendering is a snapshot; snapshot_context's copy loops do not reuse each other's variables and walk into their copies. Also: snapshot aliasing (no writable layer shared with the live context), forloop copies walk the parentloop chain (sibling agreement), one source of truth for the mode, the dynamic component forwards its own isolated input context, Context layers pushed in statement form are popped on exceptional paths (shared with C06). Round 4: layer frame of fill variables (data layer always pushed, marker layer captured inclusively, capture loop never cut short, position correction unconditional); the behaviour dispatch is decided on path conditions. Round 5: a capture model of FillNode._extract_fill (every loop over the Context layers with its domain, direction and per-store path conditions) decides ordered single-pass capture, marker-inclusive capture, completeness and loop state from all layers; the isolated copy receives no whole layer / mapping; the dynamic component's target gets a snapshot of the outer context; known findings F41 (outer loop layers over nearer bindings) and F42 (`only` in django mode). Round 7: the render function places the captured layer right under the top layer when the fill is rendered in the context from outside the component (F51); position rules follow local indirection.",
    "note": "Trusted: Django's Context.update/push in `with` pop on exit and ContextDict copies. Not decided: the non-interference statement itself; shadowing order between layers in django mode (three existing deviations observed by a seeding agent are value-level and out of reach).",
    "technique": "static reaching-definition / control-dependence checks, who-may-write rule, stack-effect analysis over the CFG, enum exhaustiveness",
}
