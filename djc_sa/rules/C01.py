"""C01 — each slot renders the fill addressed to it, else its own default (DESIGN.md section 3, C01).

S1 instance-key discipline: the component key is switched to the outer component only for FILLED slots; fills are
   read only from the ComponentContext registered under an id taken from the context.
S2 fill-name provenance: the looked-up name is the tag's name or the default key (the latter only for `default`
   slots); found -> that fill; not found -> a slot function over the tag's own nodelist.
S3 required and not filled -> TemplateSyntaxError before anything is rendered.
S4 is_filled and fills are computed from the same normalised dict; only `None` content is dropped by normalisation;
   explicit fills are registered under the fill's own name, the implicit body under the default key; the per-instance
   context layer pushed for fill content is popped again.
S5 the dynamic component forwards every RenderInput field (and does not re-escape).
"""
from __future__ import annotations

import ast
from typing import List, Optional, Set, Tuple

from ..astq import assignments, calls, kwarg, local_from, local_from_text, params, stmts
from ..callgraph import fkey
from ..cfg import CFG, cond_atoms, flatten_conj, path_conditions
from ..report import Check
from ..source import AnalysisError, Project, ancestors, body_walk, dotted, enclosing_stmt, last_attr, norm, parent, short
from .common import world


def run(chk: Check, proj: Project) -> None:
    chk.explanation = (
        "Ownership of rendered nodes vs the component key in the context (control dependence on the 'filled' predicate), "
        "provenance of the fill name and of the fills dict, the required-slot guard's dominance, agreement of is_filled "
        "with fills, registration keys of explicit and implicit fills, balanced per-fill context layer, and "
        "completeness of the dynamic component's forwarding (derived from the RenderInput dataclass)."
    )
    chk.not_decided = ["in-order composition by component_post_render", "loops and nesting depth", "that fills for unrendered slots are ignored", "equality of the three rendering routes as outputs"]
    chk.trusted_base = ["Django renders NodeList children in order"]
    w = world(proj)
    m, f = proj.func("slots", "SlotNode.render")
    chk.analysed(fkey(m, f))
    s1(chk, proj, w, m, f)
    s2(chk, proj, w, m, f)
    s3(chk, proj, w, m, f)
    s4(chk, proj, w)
    s5(chk, proj, w)
    s6(chk, proj, w)
    from . import C03

    chk.borrow("S7", "fills and deferred children are rendered with the loop state and variable layering of THEIR position: snapshot copy discipline and the position of the captured-variable layer (shared with C03-S6/S9)",
               lambda sub: (C03.s6(sub, proj, w), C03.s9_forloop_copies(sub, proj, w), C03.s12_layer_frame(sub, proj, w)),
               only=lambda o: "outer-loop-values-over-nearer-bindings" not in o.construct)  # name shadowing between scopes OUTSIDE the tag: C03 only (F41)
    s9(chk, proj, w)
    s11(chk, proj, w)
    s12(chk, proj, w)
    s12b_slotref_keys(chk, proj)
    s12c_slotref_live_context(chk, proj)
    from . import generic

    chk.rule("S10", "every function on the render routes that hands its parameters on to the next one (Component.render -> _render -> _render_impl -> _render_with_id, render_to_response -> render, ComponentNode.render -> _render, resolve_fills -> _extract_fill_content ...) hands on EVERY parameter the two signatures share, positional ones in the position of the same name")
    generic.forwarding(chk, "S10", proj, w.cg, ["component", "components.dynamic", "slots", "component_registry", "node", "provide"], floor=6)
    from . import C14 as _C14

    chk.borrow("S14", "a slot looks its fills up under the render id of ITS component: ids come from the OS entropy source at full length - ids drawn from Python's process-global PRNG repeat when user code seeds `random` (a reproducible shuffle in get_context_data), a child created while its parent's template is still rendering then takes the parent's id, overwrites its entry in the context cache, and the parent's remaining slots print the child's fills (shared with C14-S2)",
               lambda sub: _C14.s2(sub, proj, w), only=lambda o: "entropy" in o.construct or "full-length" in o.construct)
    from . import C07 as _C07

    def _slot_state(sub):
        r_ = _C07.reach_set(proj, w)
        _C07.s1c_shared(sub, proj, w, r_)
        _C07.s1a_nodes(sub, proj, w, r_)
        _C07.s1g_global_objects(sub, proj, w, r_)

    chk.borrow("S13", "the content a slot prints is the content of ITS fill: the objects a fill is rendered through (the Template wrapper around the fill's nodelist, the render function's working state) belong to that fill - one module-level wrapper whose `.nodelist` is assigned just before rendering is shared by all threads, and a thread switch between the assignment and the render makes a slot print another render's fill (shared with C07-S1-C / S1-A2 / S1-G)",
               _slot_state, only=lambda o: o.construct.startswith("slots:") or o.construct.startswith("component:ComponentNode"))
    chk.borrow("S15", "the fills a component receives are the fills of THIS render in THIS thread: `self.input` (from which the dynamic component forwards `slots` to its target) is read from a thread-confined stack - with one plain deque per instance, two threads rendering one shared instance pick up each other's fills (shared with C07-S1-I)",
               lambda sub: _C07.s1i_shared_instances(sub, proj, w), only=lambda o: "_metadata_stack" in o.construct or "thread-confined" in o.construct)
    chk.borrow("S8", "slot resolution, the isolation gate and the fill-context choice read the SAME mode (the component's registry settings) (shared with C03-S10)",
               lambda sub: C03.s10_mode_source(sub, proj, w), only=lambda o: "mode-from-registry" in o.construct)


def s12(chk: Check, proj: Project, w) -> None:
    chk.rule("S12", "a slot's own (default) content printed through the fill's `default` variable is resolved against the SLOT's component: in django mode SlotNode.render pushes the parent component's key onto the very Context object the SlotRef holds, so the SlotRef re-establishes the component key it saw at construction around its render")
    sm = proj.mod("slots")
    sr = sm.cls("SlotRef")
    init = next((x for x in sr.body if isinstance(x, ast.FunctionDef) and x.name == "__init__"), None)
    st_ = next((x for x in sr.body if isinstance(x, ast.FunctionDef) and x.name == "__str__"), None)
    sm2, rf = proj.func("slots", "SlotNode.render")
    chk.analysed(f"{sm.name}:SlotRef.__str__", fkey(sm2, rf))
    # is the SlotRef's context the object the override layer is pushed on?  used_ctx may be that same context (django mode)
    refs = [c for c in calls(rf) if last_attr(c.func) == "SlotRef" and len(c.args) >= 2]
    ups = [it.context_expr for w_ in ast.walk(rf) if isinstance(w_, ast.With) for it in w_.items if isinstance(it.context_expr, ast.Call) and isinstance(it.context_expr.func, ast.Attribute) and it.context_expr.func.attr == "update" and it.context_expr.args and isinstance(it.context_expr.args[0], ast.Name) and any(isinstance(st_, ast.Assign) and isinstance(st_.targets[0], ast.Subscript) and norm(st_.targets[0].value) == it.context_expr.args[0].id and norm(st_.targets[0].slice) == "_COMPONENT_CONTEXT_KEY" for st_ in ast.walk(rf))]
    if init is None or st_ is None or not refs or not ups:
        chk.undecided("S12", "slots:SlotRef:renders-under-own-component-key", sm.loc(sr), "SlotRef.__init__ / __str__ / its construction / the override layer not found")
        return
    ref_ctx = norm(refs[0].args[1])
    pushed_on = norm(ups[0].func.value)
    d = [v for _s, v in assignments(rf, pushed_on) if v is not None]
    may_alias = pushed_on == ref_ctx or any(isinstance(v, ast.Call) and any(isinstance(a, ast.Name) and a.id == ref_ctx for a in v.args) for v in d)
    # does __str__ push remembered keys (captured in __init__ from the context) around the render?
    captured = {norm(t).split(".", 1)[1] for x in ast.walk(init) if isinstance(x, ast.Assign) for t in x.targets if isinstance(t, ast.Attribute) and norm(t.value) == "self"
                and any(isinstance(y, ast.Name) and y.id == "_COMPONENT_CONTEXT_KEY" for y in ast.walk(x.value))}
    rend = [c for c in ast.walk(st_) if isinstance(c, ast.Call) and last_attr(c.func) == "render"]
    guarded = bool(rend) and any(isinstance(a, ast.With) and any(isinstance(it.context_expr, ast.Call) and last_attr(it.context_expr.func) in ("update", "push") and any(isinstance(y, ast.Attribute) and y.attr in captured for y in ast.walk(it.context_expr)) for it in a.items) for a in ancestors(rend[0]))
    ok = (not may_alias) or guarded
    chk.ob("S12", "slots:SlotRef:renders-under-own-component-key", sm.loc(st_), ok,
           ("SlotRef.__str__ renders inside `with context.update(<keys captured at construction>)`" if guarded else "the override layer is never pushed on the SlotRef's context") if ok else
           f"SlotNode.render pushes the PARENT component's key on `{pushed_on}`, which can be the very Context the SlotRef was given (`{ref_ctx}`, django mode), and SlotRef.__str__ renders the slot's content on it as it is then: `{{% slot \"a\" %}}[{{% slot \"inner\" %}}..{{% endslot %}}]{{% endslot %}}` filled with `X{{{{ default }}}}` resolves `inner` against the parent's fills (X[inner-default] although `inner` was filled)")


def s11(chk: Check, proj: Project, w) -> None:
    chk.rule("S11", "fills are discovered afresh in every render of a tag (conditional fills can differ between renders of the same node: nothing about the outcome is remembered on the shared NodeList); when the page is stitched together a text piece is kept unless it is EMPTY (whitespace is content)")
    m, f = proj.func("slots", "resolve_fills")
    chk.analysed(fkey(m, f))
    ex = [c for c in calls(f, "_extract_fill_content")]
    nl = params(f)[1] if len(params(f)) > 1 else "nodelist"
    stores = [x for x in ast.walk(f) if (isinstance(x, ast.Attribute) and isinstance(x.ctx, ast.Store) and norm(x.value) == nl) or (isinstance(x, ast.Call) and norm(x.func) == "setattr" and x.args and norm(x.args[0]) == nl)]
    ok = len(ex) == 1 and isinstance(enclosing_stmt(ex[0]), ast.Assign) and enclosing_stmt(ex[0]) in f.body and not stores
    chk.ob("S11", "slots:resolve_fills:discovery-every-render", m.loc(stores[0]) if stores else (m.loc(ex[0]) if ex else m.loc(f)), ok,
           "_extract_fill_content(...) runs unconditionally and nothing is stored on the NodeList" if ok else
           f"`{short(enclosing_stmt(stores[0])) if stores else 'the discovery call is conditional'}`: the outcome of one render's fill discovery is remembered on the tag's NodeList, which every later render of the same node (a loop, a re-used Template) shares - after one render without an active fill the slot shows its default for good and is_filled stays false")
    # two fills are duplicates only if their NAMES are equal (the escaped form used for is_filled maps `col-a` and `col_a` to one key)
    em, ef = proj.func("slots", "_extract_fill_content")
    chk.analysed(fkey(em, ef))
    tests = [c for c in ast.walk(ef) if isinstance(c, ast.Compare) and isinstance(c.ops[0], (ast.In, ast.NotIn)) and "seen" in norm(c.comparators[0])]
    adds = [c for c in calls(ef, "add") if "seen" in norm(c.func.value)]  # type: ignore[union-attr]
    if not tests or not adds:
        chk.undecided("S11", "slots:_extract_fill_content:duplicates-by-raw-name", em.loc(ef), "seen-set test / add not found")
    else:
        keys = [tests[0].left, adds[0].args[0]]
        raw = []
        for k in keys:
            v = k
            if isinstance(k, ast.Name):
                d = [x for _s, x in assignments(ef, k.id) if x is not None]
                v = d[0] if len(d) == 1 else k
            raw.append(isinstance(v, ast.Attribute) and v.attr == "name" and not any(isinstance(y, ast.Call) for y in ast.walk(v)))
        okd = all(raw)
        chk.ob("S11", "slots:_extract_fill_content:duplicates-by-raw-name", em.loc(tests[0]), okd,
               "the duplicate test and the seen-set both use `<fill>.name` as it is" if okd else
               f"the duplicate test compares `{short(keys[0])}` (a transformed name): fills for two DIFFERENT slots whose names differ only in non-word characters (`col-a`, `col_a`) raise a spurious 'Multiple fill tags cannot target the same slot name', while the same fills given through Component.render(slots=...) work")
    pm, pf = proj.func("perfutil.component", "component_post_render")
    tree_fn = None
    for c in calls(pf):
        tg = w.cg.resolve_callee(pm, c, c.func)
        if tg is not None and isinstance(tg[1], ast.FunctionDef) and any(isinstance(x, ast.While) for x in ast.walk(tg[1])):
            tree_fn = tg
    lm, lf = tree_fn if tree_fn is not None else (pm, pf)
    chk.analysed(fkey(lm, lf))
    stripped = [iff for iff in ast.walk(lf) if isinstance(iff, ast.If) and any(isinstance(c, ast.Call) and isinstance(c.func, ast.Attribute) and c.func.attr in ("strip", "isspace") for c in ast.walk(iff.test))]
    chk.ob("S11", "perfutil.component:queue-loop:whitespace-is-content", lm.loc(stripped[0]) if stripped else lm.loc(lf), not stripped,
           "no piece of the output is dropped because it is only whitespace" if not stripped else
           f"`if {short(stripped[0].test)}` drops whitespace-only text between nested components: `{{% component \"a\" / %}} {{% component \"b\" / %}}` renders 'AB' instead of 'A B' (the page is not the in-order composition of its pieces)")


def s9(chk: Check, proj: Project, w) -> None:
    chk.rule("S9", "the 'this is the dynamic component' flag (it switches the required / default / duplicate-fill checks off) comes from a marker on the CLASS, never from the registered name (the dynamic component hands its own registered name to its target); slot names keep every character that is valid in a template variable, so `is_filled.<name>` finds the key")
    r = proj.try_func("component", "Component._render_with_id") or proj.try_func("component", "Component._render_impl")
    m, f = r  # type: ignore[misc]
    cc = [c for c in calls(f, "ComponentContext") if kwarg(c, "is_dynamic_component") is not None]
    if len(cc) != 1:
        chk.undecided("S9", "component:render:is_dynamic_component-source", m.loc(f), f"{len(cc)} ComponentContext(is_dynamic_component=...) calls")
    else:
        v = kwarg(cc[0], "is_dynamic_component")
        t = norm(v)
        by_name = any(isinstance(x, ast.Attribute) and x.attr in ("name", "registered_name") for x in ast.walk(v)) or "DYNAMIC_COMPONENT_NAME" in t
        by_class = "_is_dynamic_component" in t or "isinstance(self, DynamicComponent)" in t
        if not by_name and not by_class:
            chk.undecided("S9", "component:render:is_dynamic_component-source", m.loc(v), f"source `{t}` not recognised")
        else:
            chk.ob("S9", "component:render:is_dynamic_component-source", m.loc(v), by_class and not by_name,
                   f"`{t}`: a class marker" if by_class and not by_name else
                   f"`{t}` decides by the registered name: the target created by the dynamic component carries the same registered name, is taken for the dynamic component itself, and its `required` slot without a fill silently renders the default instead of raising")
    sm = proj.mod("slots")
    ef = sm.func("_escape_slot_name")
    rx = [c for c in calls(ef) if isinstance(c.func, ast.Attribute) and c.func.attr == "sub" and isinstance(c.func.value, ast.Name)]
    if len(rx) != 1:
        chk.undecided("S9", "slots:_escape_slot_name:keeps-identifier-characters", sm.loc(ef), "escape regex not identified")
        return
    from ..regexlang import ALPHABET, Lang
    from .markers import compiled_regex

    pat, fl, node = compiled_regex(proj, "slots", rx[0].func.value.id)
    lang = Lang(pat, fl)
    hit = []
    for ch in sorted(ALPHABET):
        if (ch == "_" or ch.isalnum()) and lang.accepting(lang.step(lang.initial(), ch)):
            hit.append(ch)
    chk.ob("S9", "slots:_escape_slot_name:keeps-identifier-characters", sm.loc(node), not hit,
           "the escape pattern matches no letter, digit or underscore (Unicode included)" if not hit else
           f"the escape pattern replaces {hit[:4]!r}: a slot called 'názov' is stored in is_filled under 'n_zov', so `component_vars.is_filled.názov` is False although the fill was provided")


def s6(chk: Check, proj: Project, w) -> None:
    chk.rule("S6", "the implicit default fill exists iff the tag body has a node that is not whitespace-only text (a quantifier over ALL nodes); what component_post_render returns is safe HTML (mark_safe), so the nested placeholder survives escaping steps")
    m, f = proj.func("slots", "resolve_fills")
    nl = params(f)[1]
    ev = local_from(f, lambda v: any(isinstance(x, ast.Call) and norm(x.func) == "all" for x in ast.walk(v)) or "len(" in norm(v))
    d = assignments(f, ev) if ev else []
    ok = False
    if d and d[0][1] is not None:
        v = d[0][1]
        alls = [x for x in ast.walk(v) if isinstance(x, ast.Call) and norm(x.func) == "all" and x.args and isinstance(x.args[0], ast.GeneratorExp)]
        ok = bool(alls) and norm(alls[0].args[0].generators[0].iter) == nl and "isinstance(" in norm(alls[0].args[0].elt) and "TextNode" in norm(alls[0].args[0].elt) and ".strip()" in norm(alls[0].args[0].elt)
    chk.ob("S6", "slots:resolve_fills:body-empty-iff-all-nodes-blank", m.loc(d[0][0]) if d else m.loc(f), ok if d else None,
           "the body counts as empty iff ALL nodes are whitespace-only TextNodes" if ok else
           "the 'body is empty' test does not quantify over all nodes of the body: a body of whitespace plus template comments (several blank TextNodes) is taken as an implicit default fill, so the default slot prints blanks, is_filled.default is true and a required default slot no longer raises")
    pm, pf = proj.func("perfutil.component", "component_post_render")
    rets = [r for r in stmts(pf) if isinstance(r, ast.Return) and r.value is not None]
    bad = [r for r in rets if not (isinstance(r.value, ast.Call) and last_attr(r.value.func) == "mark_safe")]
    chk.ob("S6", "perfutil.component:component_post_render:returns-safe-html", pm.loc(bad[0]) if bad else pm.loc(pf), not bad and len(rets) >= 2,
           "both the nested placeholder and the final document are returned as mark_safe(...)" if not bad else
           f"`{short(bad[0])}` returns a plain str: a placeholder that passes an escaping step (a slot function's result under escape_slots_content, format_html, an autoescaped variable) is HTML-escaped and never substituted, so the nested component's output is missing")


def s1(chk: Check, proj: Project, w, m, f) -> None:
    chk.rule("S1", "the component key of the context is overridden with the OUTER component's only where the rendered nodes are a fill (control-dependent on `is_filled`); fills are read from component_context_cache[<id from the context>]")
    stores = [s for s in stmts(f) if isinstance(s, ast.Assign) and isinstance(s.targets[0], ast.Subscript) and norm(s.targets[0].slice) == "_COMPONENT_CONTEXT_KEY"]
    chk.floor("S1-stores", len(stores), 1)
    for s in stores:
        atoms = cond_atoms(s)
        filled = any(pol and t.endswith(".is_filled") for t, pol in atoms)
        outer = "outer_context" in norm(s.value)
        chk.ob("S1", f"slots:SlotNode.render:{short(s, 70)}", m.loc(s), filled or not outer,
               "the switch to the outer component's key happens only for filled slots" if filled else
               f"`{short(s)}` switches the component key to the OUTER component also when the slot is NOT filled: the slot's own default content (and slots nested in it) is resolved against another instance's fills")
    # the dict that receives the override is what is pushed around the slot call
    # (C05-S1 checks the push itself)
    # reads of .fills
    reads = [n for n in body_walk(f) if isinstance(n, ast.Attribute) and n.attr == "fills" and isinstance(n.ctx, ast.Load)]
    chk.floor("S1-fills-reads", len(reads), 2)
    for r in reads:
        base = norm(r.value)
        a = assignments(f, base)
        ok = False
        why = ""
        if len(a) == 1 and isinstance(a[0][1], ast.Subscript) and norm(a[0][1].value) == "component_context_cache":
            idv = norm(a[0][1].slice)
            ida = assignments(f, idv)
            ok = len(ida) == 1 and ida[0][1] is not None and "_COMPONENT_CONTEXT_KEY" in norm(ida[0][1]) and "context" in norm(ida[0][1])
            why = f"component_context_cache[{idv}], {idv} = {norm(ida[0][1]) if ida and ida[0][1] is not None else '?'}"
        chk.ob("S1", f"slots:SlotNode.render:{base}.fills", m.loc(r), ok, f"fills come from {why}" if ok else f"`{base}.fills` is not read from the ComponentContext registered under the id found in the context")


def _slot_roles(f):
    """Rename-proof names of the locals of SlotNode.render that the rules talk about."""
    name_param = params(f)[2] if len(params(f)) > 2 else "name"
    is_default = local_from_text(f, "SLOT_DEFAULT_KEYWORD")
    is_required = local_from_text(f, "SLOT_REQUIRED_KEYWORD")
    slot_name = local_from(f, lambda v: isinstance(v, ast.Name) and v.id == name_param) or name_param
    # the fills lookup: <FILLS>[<FN>] assigned to the variable that becomes SlotFill(slot=...)
    fills = fn = None
    for c in calls(f, "SlotFill"):
        fl = kwarg(c, "is_filled")
        sl = kwarg(c, "slot")
        if isinstance(fl, ast.Constant) and fl.value is True and isinstance(sl, ast.Name):
            d = assignments(f, sl.id)
            if len(d) == 1 and isinstance(d[0][1], ast.Subscript) and isinstance(d[0][1].value, ast.Name) and isinstance(d[0][1].slice, ast.Name):
                fills, fn = d[0][1].value.id, d[0][1].slice.id
    return {"name_param": name_param, "is_default": is_default, "is_required": is_required, "slot_name": slot_name, "fills": fills, "fill_name": fn}


def s2(chk: Check, proj: Project, w, m, f) -> None:
    chk.rule("S2", "the looked-up fill name is the tag's name, or DEFAULT_SLOT_KEY only under the `default` flag; `name in fills` -> that fill, else a slot function over the tag's own nodelist")
    R = _slot_roles(f)
    if not (R["fills"] and R["fill_name"] and R["is_default"]):
        chk.undecided("S2", "slots:SlotNode.render:roles", m.loc(f), f"could not identify the fills lookup / default flag variables ({R})")
        return
    FN, FILLS, ISD, SN, NP = R["fill_name"], R["fills"], R["is_default"], R["slot_name"], R["name_param"]
    a = assignments(f, FN)
    names = {norm(v) for _s, v in a if v is not None}
    slot_name_def = {norm(v) for _s, v in assignments(f, SN) if v is not None} if SN != NP else {NP}
    ok = names <= {"DEFAULT_SLOT_KEY", SN, NP} and slot_name_def <= {NP}
    chk.ob("S2", "slots:SlotNode.render:fill_name-provenance", m.loc(a[0][0]) if a else m.loc(f), ok and bool(a), f"the fill name is one of {sorted(names)}" if ok else f"the fill name can be {sorted(names)}: the fill is looked up under a name that is neither the slot's name nor the default key")
    for s, v in a:
        if v is not None and norm(v) == "DEFAULT_SLOT_KEY":
            atoms = cond_atoms(s)
            dflt = any(pol and t == ISD for t, pol in atoms)
            chk.ob("S2", "slots:SlotNode.render:default-key-only-for-default-slot", m.loc(s), dflt, "the default key is used only for a slot flagged `default`" if dflt else f"`{short(s)}` addresses the implicit body to a slot that is NOT flagged default (conditions {atoms[:2]})")
    isd = assignments(f, ISD)
    okd = len(isd) == 1 and isd[0][1] is not None and "SLOT_DEFAULT_KEYWORD" in norm(isd[0][1]) and "self.flags" in norm(isd[0][1])
    chk.ob("S2", "slots:SlotNode.render:is_default-from-flag", m.loc(isd[0][0]) if isd else m.loc(f), okd, "the default flag variable is the tag's `default` flag")
    sf = [c for c in calls(f, "SlotFill")]
    chk.floor("S2-slotfill", len(sf), 2)
    member = f"{FN} in {FILLS}"
    for c in sf:
        filled = kwarg(c, "is_filled")
        slot = kwarg(c, "slot")
        atoms = cond_atoms(enclosing_stmt(c))
        if isinstance(filled, ast.Constant) and filled.value is True:
            ok = any(pol and t == member for t, pol in atoms)
            chk.ob("S2", "slots:SlotNode.render:filled-branch", m.loc(c), ok, f"filled: the slot function is {FILLS}[{FN}] under `{member}`" if ok else "the 'filled' SlotFill is not built under the membership test of the same name in the same fills dict")
        else:
            ok = any((not pol) and t == member for t, pol in atoms) and slot is not None and "nodelist=self.nodelist" in norm(slot)
            chk.ob("S2", "slots:SlotNode.render:default-branch", m.loc(c), ok, "not filled: the slot function renders the tag's own nodelist" if ok else "the 'not filled' SlotFill does not render self.nodelist")


def s3(chk: Check, proj: Project, w, m, f) -> None:
    chk.rule("S3", "`required and not filled` raises TemplateSyntaxError, and that test dominates the slot call")
    cfg = CFG(f)
    dom = cfg.dominators()
    ISR = _slot_roles(f)["is_required"]
    if ISR is None:
        chk.undecided("S3", "slots:SlotNode.render:required-flag", m.loc(f), "variable holding the `required` flag not found")
        return
    guards = [n for n in cfg.nodes if n.kind == "test" and n.ast is not None and ISR in {x.id for x in ast.walk(n.ast) if isinstance(x, ast.Name)} and "is_filled" in norm(n.ast)]
    call = [c for c in calls(f) if isinstance(c.func, ast.Attribute) and c.func.attr == "slot" and len(c.args) >= 2]
    ok = False
    if guards and call:
        owner = guards[0].meta.get("owner")
        atoms = {(norm(e), pol) for e, pol in flatten_conj([(guards[0].ast, True)])}
        has = (ISR, True) in atoms and any(t.endswith(".is_filled") and not pol for t, pol in atoms)
        raises = isinstance(owner, ast.If) and any(isinstance(s, ast.Raise) and "TemplateSyntaxError" in norm(s) for s in owner.body) and isinstance(owner.body[-1], ast.Raise)
        ok = has and raises and all(cfg.dominates(guards[0], cn, dom) for c in call for cn in cfg.node_containing(c))
    chk.ob("S3", "slots:SlotNode.render:required-guard", m.loc(guards[0].ast) if guards else m.loc(f), ok, "a required slot without a fill raises TemplateSyntaxError before the slot is rendered" if ok else "the required-slot check is missing, does not raise TemplateSyntaxError, or does not dominate the slot call")
    isr = assignments(f, ISR)
    okr = len(isr) == 1 and isr[0][1] is not None and "SLOT_REQUIRED_KEYWORD" in norm(isr[0][1])
    chk.ob("S3", "slots:SlotNode.render:is_required-from-flag", m.loc(isr[0][0]) if isr else m.loc(f), okr, "is_required is the tag's `required` flag")


def s4(chk: Check, proj: Project, w) -> None:
    chk.rule("S4", "SlotIsFilled(...) and ComponentContext(fills=...) receive the same single-assigned result of _normalize_slot_fills; normalisation drops only None; fills are registered under their own name / the default key; the per-fill context layer is popped")
    r = proj.try_func("component", "Component._render_with_id") or proj.try_func("component", "Component._render_impl")
    m, f = r  # type: ignore[misc]
    chk.analysed(fkey(m, f))
    sif = calls(f, "SlotIsFilled")
    cc = calls(f, "ComponentContext")
    if not sif or not cc:
        raise AnalysisError("render entry: SlotIsFilled / ComponentContext construction vanished")
    a = norm(sif[0].args[0]) if sif[0].args else "?"
    b = norm(kwarg(cc[0], "fills") or ast.Constant(value=None))
    d = assignments(f, a)
    ok = a == b and len(d) == 1 and isinstance(d[0][1], ast.Call) and last_attr(d[0][1].func) == "_normalize_slot_fills" and "slots" in norm(d[0][1].args[0])
    chk.ob("S4", "component:render:is_filled-and-fills-same-dict", m.loc(sif[0]), ok, f"both are `{a}` = _normalize_slot_fills(slots ...)" if ok else f"is_filled is computed from `{a}` but the component's fills are `{b}`: `component_vars.is_filled` disagrees with what the slots render")
    m2, f2 = proj.func("component", "Component._normalize_slot_fills")
    chk.analysed(fkey(m2, f2))
    loop = next((x for x in body_walk(f2) if isinstance(x, ast.For) and ".items()" in norm(x.iter)), None)
    if loop is None:
        raise AnalysisError("_normalize_slot_fills: loop vanished")
    cvar = loop.target.elts[1].id if isinstance(loop.target, ast.Tuple) else "content"  # type: ignore[union-attr]
    skips = [s for s in loop.body if isinstance(s, ast.If) and s.body and isinstance(s.body[-1], ast.Continue)]
    ok = len(skips) == 1 and norm(skips[0].test) == f"{cvar} is None"
    chk.ob("S4", "component:_normalize_slot_fills:drops-only-none", m2.loc(skips[0]) if skips else m2.loc(loop), ok, "only `None` content is dropped" if ok else
           f"normalisation drops content when `{short(skips[0].test) if skips else '?'}`: an empty-string fill passed from Python is treated as not provided (default rendered, is_filled False) unlike an empty {{% fill %}}")
    st = [s for s in loop.body if isinstance(s, ast.Assign) and isinstance(s.targets[0], ast.Subscript)]
    kvar = loop.target.elts[0].id if isinstance(loop.target, ast.Tuple) else "?"  # type: ignore[union-attr]
    okk = len(st) == 1 and norm(st[0].targets[0].slice) == kvar
    chk.ob("S4", "component:_normalize_slot_fills:same-name", m2.loc(st[0]) if st else m2.loc(loop), okk, "each fill is stored under the name it was given")
    # resolve_fills registration keys
    m3, f3 = proj.func("slots", "resolve_fills")
    chk.analysed(fkey(m3, f3))
    retv = next((norm(r.value) for r in stmts(f3) if isinstance(r, ast.Return) and isinstance(r.value, ast.Name)), "slots")
    regs = [s for s in stmts(f3) if isinstance(s, ast.Assign) and isinstance(s.targets[0], ast.Subscript) and norm(s.targets[0].value) == retv]
    for s in regs:
        k = norm(s.targets[0].slice)
        c = s.value if isinstance(s.value, ast.Call) else None
        nl = norm(kwarg(c, "nodelist")) if c is not None and kwarg(c, "nodelist") is not None else "?"
        if k == "DEFAULT_SLOT_KEY":
            atoms = cond_atoms(s)
            mf = local_from(f3, lambda v: isinstance(v, ast.Call) and last_attr(v.func) == "_extract_fill_content") or "?"
            ok = nl == params(f3)[1] and any(pol and f"{mf} is False" in t for t, pol in atoms)
            chk.ob("S4", "slots:resolve_fills:implicit-body-under-default-key", m3.loc(s), ok, "the implicit body (whole nodelist) is registered under the default key only when no {% fill %} was found")
        else:
            ok = k.endswith(".name") and nl.startswith(k[: -len(".name")]) and nl.endswith(".nodelist")
            chk.ob("S4", "slots:resolve_fills:explicit-fill-under-own-name", m3.loc(s), ok, f"explicit fill registered as slots[{k}] with its own nodelist" if ok else f"`{short(s)}`: a fill is registered under a key / nodelist that is not its own")
    chk.floor("S4-registrations", len(regs), 2)
    # per-fill context layer balanced (normal path): dicts.insert ... dicts.pop with the same index on every path to return
    m4, f4 = proj.func("slots", "_nodelist_to_slot_render_func.render_func")
    chk.analysed(fkey(m4, f4))
    ins = [c for c in calls(f4) if norm(c.func).endswith(".dicts.insert")]
    pops = [c for c in calls(f4) if norm(c.func).endswith(".dicts.pop")]
    ok = False
    if len(ins) == 1:
        cfg = CFG(f4)
        pn = {n for p in pops for n in cfg.node_containing(p)}
        start = [s for n in cfg.node_containing(ins[0]) for s, lab in n.succ if lab not in ("x", "p")]
        seen = set()
        todo = list(start)
        bypass = False
        while todo:
            n = todo.pop()
            if n.id in seen or n in pn:
                continue
            seen.add(n.id)
            if n is cfg.exit:
                bypass = True
                break
            todo.extend(s for s, lab in n.succ if lab not in ("x", "p"))
        ok = bool(pops) and not bypass and all(norm(p.args[0]) == norm(ins[0].args[0]) for p in pops if p.args) and all(p.args for p in pops)
    chk.ob("S4", "slots:render_func:fill-layer-popped", m4.loc(ins[0]) if ins else m4.loc(f4), ok if ins else None,
           "the layer inserted for the fill's captured variables is popped at the same index on every normal path" if ok else
           "the context layer inserted for a fill is not removed on every normal path to the return: variables captured for this fill leak into later slots of the same component instance")


def s5(chk: Check, proj: Project, w) -> None:
    chk.rule("S5", "DynamicComponent.on_render_before forwards every RenderInput field to the inner render and passes escape_slots_content=False")
    m, f = proj.func("components.dynamic", "DynamicComponent.on_render_before")
    chk.analysed(fkey(m, f))
    cm = proj.mod("component")
    ri = cm.cls("RenderInput")
    fields = [s.target.id for s in ri.body if isinstance(s, ast.AnnAssign) and isinstance(s.target, ast.Name)]
    if len(fields) < 5:
        raise AnalysisError("RenderInput fields not found")
    rc = [c for c in calls(f, "render") if isinstance(c.func, ast.Attribute) and len(c.keywords) >= 3]
    if len(rc) != 1:
        chk.undecided("S5", "components.dynamic:on_render_before:render-call", m.loc(f), f"{len(rc)} inner render calls")
        return
    c = rc[0]
    for fld in fields:
        v = kwarg(c, fld)
        if fld in ("args", "kwargs"):
            a = assignments(f, norm(v)) if isinstance(v, ast.Name) else []
            ok = v is not None and len(a) == 1 and a[0][1] is not None and norm(a[0][1]) == f"context['{fld}']"
            why = f"{fld} = context['{fld}'] (what get_context_data resolved)"
        elif fld == "context":
            # the context of the tag, as a SNAPSHOT taken in get_context_data (the live one is stale by now)
            ok = False
            why = "context = snapshot of the input context taken in get_context_data"
            if isinstance(v, ast.Subscript) and isinstance(v.slice, ast.Constant) and norm(v.value) == params(f)[1]:
                gm, gf = proj.func("components.dynamic", "DynamicComponent.get_context_data")
                for d in [x for x in ast.walk(gf) if isinstance(x, ast.Dict)]:
                    for k, val in zip(d.keys, d.values):
                        if isinstance(k, ast.Constant) and k.value == v.slice.value and norm(val) == "snapshot_context(self.input.context)":
                            ok = True
            elif v is not None and norm(v) == "self.input.context":
                ok = True  # forwarded, but live: reported by C05-S6 / C03-S5 (not a forwarding gap)
                why = "context = self.input.context (forwarded; liveness is judged by C05-S6)"
        else:
            ok = v is not None and norm(v) == f"self.input.{fld}"
            why = f"{fld} = self.input.{fld}"
        chk.ob("S5", f"components.dynamic:on_render_before:forwards-{fld}", m.loc(c), ok, why if ok else f"the inner render does not receive `{fld}` from the dynamic component's own input (got `{short(v) if v is not None else 'nothing'}`): rendering through `is=` differs from the plain component tag")
    esc = kwarg(c, "escape_slots_content")
    chk.ob("S5", "components.dynamic:on_render_before:no-double-escape", m.loc(c), isinstance(esc, ast.Constant) and esc.value is False, "slots were already normalised: escape_slots_content=False")
    recv = c.func.value.id if isinstance(c.func, ast.Attribute) and isinstance(c.func.value, ast.Name) else None
    inst = [v for _s, v in assignments(f, recv) if isinstance(v, ast.Call)] if recv else []
    oc = kwarg(inst[0], "outer_context") if inst else None
    if isinstance(oc, ast.Subscript) and isinstance(oc.slice, ast.Constant) and norm(oc.value) == params(f)[1]:
        gm, gf = proj.func("components.dynamic", "DynamicComponent.get_context_data")
        for d in [x for x in ast.walk(gf) if isinstance(x, ast.Dict)]:
            for k, val in zip(d.keys, d.values):
                if isinstance(k, ast.Constant) and k.value == oc.slice.value and any(isinstance(x, ast.Call) and last_attr(x.func) == "snapshot_context" and x.args and norm(x.args[0]) == "self.outer_context" for x in ast.walk(val)):
                    oc = ast.parse("self.outer_context", mode="eval").body  # a snapshot of it (liveness is judged by C03-S10)
    oki = bool(inst) and norm(oc or ast.Constant(value=0)) == "self.outer_context" and norm(kwarg(inst[0], "registry") or ast.Constant(value=0)) == "self.registry" and norm(kwarg(inst[0], "registered_name") or ast.Constant(value=0)) == "self.registered_name"
    chk.ob("S5", "components.dynamic:on_render_before:instance-inherits-identity", m.loc(inst[0]) if inst else m.loc(f), oki, "the inner instance gets the dynamic component's registered name, outer context and registry")


def s12b_slotref_keys(chk: Check, proj: Project, rule: str = "S12") -> None:
    """Every key SlotNode.render overrides for the PARENT component (on the Context the SlotRef may share) is re-established
    by the SlotRef: captured keys >= pushed keys."""
    sm = proj.mod("slots")
    sr = sm.cls("SlotRef")
    init = next((x for x in sr.body if isinstance(x, ast.FunctionDef) and x.name == "__init__"), None)
    sm2, rf = proj.func("slots", "SlotNode.render")
    ups = [it.context_expr for w_ in ast.walk(rf) if isinstance(w_, ast.With) for it in w_.items if isinstance(it.context_expr, ast.Call) and isinstance(it.context_expr.func, ast.Attribute) and it.context_expr.func.attr == "update" and it.context_expr.args and isinstance(it.context_expr.args[0], ast.Name)]
    pushed = set()
    comp_key = "_COMPONENT_CONTEXT_KEY"
    for u in ups:
        dn = u.args[0].id
        stores = [(x, t) for x in ast.walk(rf) if isinstance(x, ast.Assign) for t in x.targets if isinstance(t, ast.Subscript) and isinstance(t.value, ast.Name) and t.value.id == dn]
        # the parent-key override = the block that stores the component key; its sibling stores are overridden with it
        blocks = [getattr(x, "parent", None) for x, t in stores if norm(t.slice) == comp_key]
        for x, t in stores:
            if any(getattr(x, "parent", None) is b for b in blocks) and (isinstance(t.slice, ast.Constant) or (isinstance(t.slice, ast.Name) and t.slice.id.isupper())):
                pushed.add(norm(t.slice))
    if init is None or comp_key not in pushed:
        chk.undecided(rule, "slots:SlotRef:re-establishes-every-overridden-key", sm.loc(sr), f"SlotRef.__init__ / the parent-key override of SlotNode.render not found (pushed: {sorted(pushed)})")
        return
    cap = None
    for x in ast.walk(init):
        if isinstance(x, ast.Assign) and any(isinstance(t, ast.Attribute) and norm(t.value) == "self" for t in x.targets) and any(isinstance(y, ast.Name) and y.id == comp_key for y in ast.walk(x.value)):
            cap = x
    captured = set()
    if cap is not None:
        for y in ast.walk(cap.value):
            if isinstance(y, ast.Name) and y.id.isupper():
                captured.add(y.id)
            if isinstance(y, ast.Constant) and isinstance(y.value, str):
                captured.add(repr(y.value))
    missing = sorted(k for k in pushed if k not in captured)
    chk.ob(rule, "slots:SlotRef:re-establishes-every-overridden-key", sm.loc(cap) if cap is not None else sm.loc(init), cap is not None and not missing,
           f"the SlotRef remembers {sorted(pushed)} - every key SlotNode.render overrides for the parent component" if cap is not None and not missing else
           f"SlotNode.render overrides {sorted(pushed)} with the PARENT component's values on the Context the SlotRef shares (django mode), the SlotRef re-establishes only {sorted(captured & pushed) or 'none of them'}: the slot's original content printed through `{{{{ default }}}}` reads `component_vars.is_filled` of the OUTER component - the inner component's output depends on fills it never received")


def s12c_slotref_live_context(chk: Check, proj: Project, rule: str = "S12") -> None:
    """The SlotRef renders on the slot's LIVE Context (the object it was given), not on a copy."""
    sm = proj.mod("slots")
    sr = sm.cls("SlotRef")
    init = next((x for x in sr.body if isinstance(x, ast.FunctionDef) and x.name == "__init__"), None)
    st_ = next((x for x in sr.body if isinstance(x, ast.FunctionDef) and x.name == "__str__"), None)
    if init is None or st_ is None:
        chk.undecided(rule, "slots:SlotRef:renders-on-the-live-context", sm.loc(sr), "SlotRef.__init__ / __str__ not found")
        return
    from ..astq import params as _params

    cp = _params(init)[-1]
    # the attribute __str__ renders with
    rend = [c for c in ast.walk(st_) if isinstance(c, ast.Call) and last_attr(c.func) == "render" and c.args]
    attrs = {y.attr for c in rend for y in ast.walk(c) if isinstance(y, ast.Attribute) and norm(y.value) == "self"} | {y.attr for w_ in ast.walk(st_) if isinstance(w_, ast.With) for it in w_.items for y in ast.walk(it.context_expr) if isinstance(y, ast.Attribute) and norm(y.value) == "self"}
    sts = [x for x in ast.walk(init) if isinstance(x, ast.Assign) and any(isinstance(t, ast.Attribute) and norm(t.value) == "self" and t.attr in attrs for t in x.targets) and any(isinstance(y, ast.Name) and y.id == cp for y in ast.walk(x.value))]
    if not sts:
        chk.undecided(rule, "slots:SlotRef:renders-on-the-live-context", sm.loc(init), f"no attribute of SlotRef used by __str__ is assigned from `{cp}`")
        return
    live = [x for x in sts if isinstance(x.value, ast.Name) and x.value.id == cp]
    chk.ob(rule, "slots:SlotRef:renders-on-the-live-context", sm.loc(sts[0]), bool(live),
           f"`{short(live[0])}`: the SlotRef keeps the Context object itself" if live else
           f"`{short(sts[0])}` keeps a COPY of the slot's Context taken when the slot started: in django mode the fill is rendered on the live Context, so whatever the fill establishes around `{{{{ default }}}}` - a `{{% provide %}}` inside the fill, a `{{% with %}}` - is invisible to the default content; a component in it injects the outer provider (or the default) instead of the nearest enclosing one")


MANIFEST = {
    "text": "Decides the structural conditions of slot/fill resolution: the switch of the component key to the outer instance is control-dependent on the slot being filled; fills are read from the ComponentContext of the id found in the context; the fill name's provenance and the default-flag dependence; found/else branches; the required guard dominates rendering; is_filled and fills are the same normalised dict and only None is dropped; registration keys of explicit/implicit fills; the per-fill context layer is popped on every normal path; the dynamic component forwards every RenderInput field. Also: existence of the implicit default fill and safe-HTML return of the deferred renderer; snapshot copy discipline and the position of the captured-variable layer (shared with C03); one source of truth for the context mode. Round 4: the dynamic-component flag comes from a class marker, slot-name escaping keeps Unicode word characters (regex language), the fill-variable layer frame (shared with C03-S12). Round 5: fills are discovered afresh in every render (nothing remembered on the shared NodeList), whitespace-only text between nested components is kept, the dynamic component's outer context is a snapshot (shared with C03-S10). Round 7: duplicate fills are judged by the raw name; a slot's default content printed from inside its fill is rendered under the slot's own component key (F49).",
    "note": "Not decided: in-order composition, loops, nesting depth, unrendered fills, equality of the three rendering routes as outputs. Trusted: Django renders NodeList children in order.",
    "technique": "static control-dependence / provenance (def-use) checks, dominance, dataclass-derived forwarding table",
}
