"""C18 — template caching is transparent and a bounded LRU (DESIGN.md section 3, C18).

S1 recency: on every hit path of get/set the node is unlinked and re-linked at the front, unconditionally.
S2 list primitives: abstract interpretation of `_remove` / `_add_to_front` over all canonical heaps with <= 3 nodes
   between the sentinels gives the list minus x / [x] + list with consistent forward and backward links.
S3 bound and victim: a new key is inserted only after the capacity test with eviction of `tail.prev` (dict entry and
   links removed together); maxsize <= 0 stores nothing; clear resets dict and both sentinels.
S4 key completeness and identity in cached_template.
S5 the configured cache size is respected (None-check accessor; passed to the LRUCache constructor).
"""
from __future__ import annotations

import ast
import re
import itertools
from typing import Any, Dict, List, Optional, Set, Tuple

from ..astq import assignments, calls, kwarg, params, stmts
from ..callgraph import fkey
from ..cfg import CFG, cond_atoms
from ..report import Check
from ..source import AnalysisError, Project, ancestors, body_walk, dotted, enclosing_stmt, last_attr, norm, short
from .C17 import s5_accessors


def run(chk: Check, proj: Project) -> None:
    chk.explanation = (
        "Typestate of LRU nodes (linked / detached) across the cache's methods by dominance, exact shape semantics of the "
        "two linked-list primitives by interpreting their ASTs over all small canonical heaps, domination of insertion "
        "by the capacity test, completeness of the template cache key, and that the configured size reaches the cache."
    )
    chk.not_decided = ["LRU order over long histories as an observable", "transparency of rendered output across cache sizes", "thread-safety (C07)"]
    chk.trusted_base = ["Python dict semantics"]
    m = proj.mod("util.cache")
    cls = m.cls("LRUCache")
    s1(chk, proj, m, cls)
    s2(chk, proj, m, cls)
    s3(chk, proj, m, cls)
    s4(chk, proj)
    s5_instance_state(chk, proj, m, cls)
    from . import C07
    from .common import world

    w_ = world(proj)
    chk.borrow("S6", "a cached Template is transparent only if rendering it does not depend on earlier renders: Node objects of the library store nothing on themselves at render time (a memo on a Node lives as long as the template stays cached - e.g. the component class looked up once survives a re-registration of the name) (shared with C07-S1-A2)",
               lambda sub: (C07.s1a_nodes(sub, proj, w_, C07.reach_set(proj, w_)), C07.s1a_parsed_values(sub, proj, w_)), only=lambda o: "Node" in o.construct or "node" in o.construct or "no-shared-write" in o.construct or ":template." in o.construct)
    chk.borrow("S8", "a cached Template renders the same on every render, also after a render that FAILED: objects that hang off its nodes and initialise themselves lazily on the first render (the compiled form of a tag's arguments) mark themselves ready only once the work is done - a flag set first survives an exception in the work, and every later render of the cached object fails with an internal error where a fresh compilation reports the real one (shared with C07-S1-A1)",
               lambda sub: C07.s1a_publication(sub, proj, w_, C07.reach_set(proj, w_)), only=lambda o: "tag_parser" in o.construct or "template" in o.construct.lower() or "node" in o.construct.lower())
    s5_accessors(chk, proj, ["TEMPLATE_CACHE_SIZE"], rule="S5")
    s7_values_are_opaque(chk, proj)
    s10_public_mutators_locked(chk, proj, m, cls, w_)
    s11_one_cache(chk, proj)
    from . import C01 as _C01

    chk.borrow("S9", "a cached Template renders like a fresh compilation on EVERY render: which fills a `{% component %}` body provides is discovered per render (a body with `{% if c %}{% fill %}..{% endif %}` provides a fill in one render and none in the next) - a 'no fills here' memo on the cached node list makes the second render fail or print the default (shared with C01-S11)",
               lambda sub: _C01.s11(sub, proj, w_), only=lambda o: "discovery-every-render" in o.construct)
    cm, cf = proj.func("cache", "get_template_cache")
    c = calls(cf, "LRUCache")
    ok = bool(c) and norm(kwarg(c[0], "maxsize") or (c[0].args[0] if c[0].args else ast.Constant(value=None))) == "app_settings.TEMPLATE_CACHE_SIZE"
    chk.ob("S5", "cache:get_template_cache:size-from-settings", cm.loc(cf), ok, "LRUCache(maxsize=app_settings.TEMPLATE_CACHE_SIZE)")


def _method(m, cls: ast.ClassDef, *names: str) -> ast.FunctionDef:
    for n in names:
        for st in cls.body:
            if isinstance(st, ast.FunctionDef) and st.name == n:
                return st
    raise AnalysisError(f"LRUCache method vanished: {names}")


def s1(chk: Check, proj: Project, m, cls) -> None:
    chk.rule("S1", "hit paths of get and set move the node to the front: _remove(node) then _add_to_front(node) dominate the end of the hit branch")
    for public, impl in (("get", "_get"), ("set", "_set")):
        f = _method(m, cls, impl, public) if any(isinstance(s, ast.FunctionDef) and s.name == impl for s in cls.body) else _method(m, cls, public)
        chk.analysed(fkey(m, f))
        # the statements that run on a HIT: those whose path condition contains `key in self.cache` (positively) - whatever
        # the spelling (`if key in self.cache: ...` or the guard form `if key not in self.cache: return ...` + rest)
        def on_hit(st: ast.AST) -> bool:
            at = cond_atoms(st)
            return any((t == "key in self.cache" and pol) or (t == "key not in self.cache" and not pol) for t, pol in at)

        hit_stmts = [st for st in stmts(f) if on_hit(st) and not isinstance(st, (ast.If,))]
        if not hit_stmts:
            chk.undecided("S1", f"util.cache:LRUCache.{public}:hit-branch", m.loc(f), "no statement is conditional on `key in self.cache`")
            continue
        hit = hit_stmts[0]
        node_var = next((norm(s.targets[0]) for s in hit_stmts if isinstance(s, ast.Assign) and norm(s.value) == "self.cache[key]"), None)
        # same nesting level as the lookup: the statements that follow it in its own block
        blk = next((b_ for a_ in ancestors(hit_stmts[0]) for b_ in (getattr(a_, "body", None), getattr(a_, "orelse", None)) if isinstance(b_, list) and hit_stmts[0] in b_), [])
        look = next((s for s in blk if isinstance(s, ast.Assign) and norm(s.value) == "self.cache[key]"), None)
        body = blk[blk.index(look):] if look is not None else []
        # cut at the end of the hit path (in the guard spelling the block continues to the end of the function, which is fine:
        # it IS the hit path); in the `if/else` spelling the block is the if-body
        rem = [i for i, s in enumerate(body) if isinstance(s, ast.Expr) and isinstance(s.value, ast.Call) and norm(s.value.func) == "self._remove" and s.value.args and norm(s.value.args[0]) == node_var]
        add = [i for i, s in enumerate(body) if isinstance(s, ast.Expr) and isinstance(s.value, ast.Call) and norm(s.value.func) == "self._add_to_front" and s.value.args and norm(s.value.args[0]) == node_var]
        # nothing may leave the hit path before the move (an early `return` for "nothing to update" skips the refresh)
        early = [x for i, s in enumerate(body) if add and i < add[0] for x in ast.walk(s) if isinstance(x, (ast.Return, ast.Raise, ast.Break, ast.Continue))]
        ok = node_var is not None and len(rem) == 1 and len(add) == 1 and rem[0] < add[0] and not early
        chk.ob("S1", f"util.cache:LRUCache.{public}:move-to-front", m.loc(early[0]) if early else m.loc(hit), ok,
               f"on a hit `{node_var}` is removed and re-added at the front unconditionally" if ok else
               f"on a hit of {public}() the node is not unconditionally `_remove`d and `_add_to_front`ed (directly on the hit path): a hit on some entries does not refresh them and the wrong entry is evicted next")
        if public == "get":
            r = [s for s in body if isinstance(s, ast.Return)]
            okr = bool(r) and norm(r[-1].value) == f"{node_var}.value"
            chk.ob("S1", "util.cache:LRUCache.get:returns-stored-value", m.loc(r[-1]) if r else m.loc(hit), okr, "the hit returns the stored value object itself")
        else:
            upd = [s for s in body if isinstance(s, ast.Assign) and norm(s.targets[0]) == f"{node_var}.value" and norm(s.value) == params(f)[2]]
            chk.ob("S1", "util.cache:LRUCache.set:updates-value", m.loc(hit), bool(upd), "set() on an existing key replaces the value")
    # public wrappers delegate (lock is C07)
    for public, impl in (("get", "_get"), ("set", "_set"), ("clear", "_clear")):
        if any(isinstance(s, ast.FunctionDef) and s.name == impl for s in cls.body):
            pf = _method(m, cls, public)
            ok = any(norm(c.func) == f"self.{impl}" and [norm(a) for a in c.args] == params(pf)[1:] for c in calls(pf))
            chk.ob("S1", f"util.cache:LRUCache.{public}:delegates", m.loc(pf), ok, f"{public}() delegates to {impl}() with the same arguments")


# ---------------------------------------------------------------------------------------------
class _Heap:
    def __init__(self, n: int):
        self.attr: Dict[Tuple[str, str], Optional[str]] = {}
        names = ["H"] + [f"n{i}" for i in range(n)] + ["T"]
        for a, b in zip(names, names[1:]):
            self.attr[(a, "next")] = b
            self.attr[(b, "prev")] = a
        self.attr[("H", "prev")] = None
        self.attr[("T", "next")] = None

    def forward(self) -> List[str]:
        out, cur, seen = [], "H", set()
        while cur is not None and cur not in seen:
            seen.add(cur)
            out.append(cur)
            cur = self.attr.get((cur, "next"))
        return out

    def backward(self) -> List[str]:
        out, cur, seen = [], "T", set()
        while cur is not None and cur not in seen:
            seen.add(cur)
            out.append(cur)
            cur = self.attr.get((cur, "prev"))
        return out


class _Interp:
    """Interpreter for the statement forms used by the two list primitives (attribute chains, `is not None`,
    truthiness, if/else)."""

    def __init__(self, heap: _Heap, env: Dict[str, Any]):
        self.h, self.env = heap, env

    def ev(self, e: ast.AST) -> Any:
        if isinstance(e, ast.Name):
            if e.id not in self.env:
                raise AnalysisError(f"list primitive reads unknown name {e.id}")
            return self.env[e.id]
        if isinstance(e, ast.Constant):
            return e.value
        if isinstance(e, ast.Attribute):
            base = self.ev(e.value)
            if base == "SELF":
                return {"head": "H", "tail": "T"}.get(e.attr, ("SELF." + e.attr))
            if base is None:
                raise AnalysisError("None dereference in list primitive")
            if e.attr in ("prev", "next"):
                return self.h.attr.get((base, e.attr))
            raise AnalysisError(f"unknown attribute {e.attr}")
        if isinstance(e, ast.Compare) and len(e.ops) == 1:
            l, r = self.ev(e.left), self.ev(e.comparators[0])
            if isinstance(e.ops[0], ast.IsNot):
                return l is not r if (l is None or r is None) else l != r
            if isinstance(e.ops[0], ast.Is):
                return l is r if (l is None or r is None) else l == r
        if isinstance(e, ast.UnaryOp) and isinstance(e.op, ast.Not):
            return not self.truth(self.ev(e.operand))
        if isinstance(e, ast.BoolOp):
            vals = [self.truth(self.ev(v)) for v in e.values]
            return all(vals) if isinstance(e.op, ast.And) else any(vals)
        raise AnalysisError(f"unsupported expression in list primitive: {norm(e)}")

    @staticmethod
    def truth(v: Any) -> bool:
        return v is not None and v is not False

    def run(self, body: List[ast.stmt]) -> None:
        for st in body:
            if isinstance(st, ast.Expr) and isinstance(st.value, ast.Constant):
                continue
            if isinstance(st, (ast.Assign, ast.AnnAssign)):
                val = self.ev(st.value)
                tg = st.targets[0] if isinstance(st, ast.Assign) else st.target
                if isinstance(tg, ast.Name):
                    self.env[tg.id] = val
                elif isinstance(tg, ast.Attribute) and tg.attr in ("prev", "next"):
                    base = self.ev(tg.value)
                    if base is None:
                        raise AnalysisError("store through None in list primitive")
                    self.h.attr[(base, tg.attr)] = val
                else:
                    raise AnalysisError(f"unsupported store {norm(tg)}")
            elif isinstance(st, ast.If):
                self.run(st.body if self.truth(self.ev(st.test)) else st.orelse)
            elif isinstance(st, ast.Pass):
                pass
            elif isinstance(st, ast.Return) and st.value is None:
                return
            else:
                raise AnalysisError(f"unsupported statement in list primitive: {norm(st)[:50]}")


def s2(chk: Check, proj: Project, m, cls) -> None:
    chk.rule("S2", "abstract interpretation of _remove(x) / _add_to_front(x) over every list with 0..3 nodes between the sentinels: result is list - x / [x] + list, forward and backward links agree")
    rem, add = _method(m, cls, "_remove"), _method(m, cls, "_add_to_front")
    chk.analysed(fkey(m, rem), fkey(m, add))
    cases = 0
    bad = None
    for n in range(0, 4):
        for i in range(n):
            h = _Heap(n)
            x = f"n{i}"
            _Interp(h, {"self": "SELF", params(rem)[1]: x}).run(rem.body)
            cases += 1
            want = ["H"] + [f"n{j}" for j in range(n) if j != i] + ["T"]
            if h.forward() != want or h.backward() != list(reversed(want)):
                bad = bad or ("_remove", n, x, h.forward(), h.backward(), want)
        h = _Heap(n)
        x = "new"
        h.attr[(x, "prev")] = None
        h.attr[(x, "next")] = None
        _Interp(h, {"self": "SELF", params(add)[1]: x}).run(add.body)
        cases += 1
        want = ["H", "new"] + [f"n{j}" for j in range(n)] + ["T"]
        if h.forward() != want or h.backward() != list(reversed(want)):
            bad = bad or ("_add_to_front", n, x, h.forward(), h.backward(), want)
        # remove then add (move to front) of each node
        for i in range(n):
            h = _Heap(n)
            x = f"n{i}"
            _Interp(h, {"self": "SELF", params(rem)[1]: x}).run(rem.body)
            _Interp(h, {"self": "SELF", params(add)[1]: x}).run(add.body)
            cases += 1
            want = ["H", x] + [f"n{j}" for j in range(n) if j != i] + ["T"]
            if h.forward() != want or h.backward() != list(reversed(want)):
                bad = bad or ("move-to-front", n, x, h.forward(), h.backward(), want)
    chk.paths += cases
    chk.extra["heaps_interpreted"] = cases
    if bad:
        op, n, x, fw, bw, want = bad
        chk.violated("S2", f"util.cache:LRUCache.{op}:shape", m.loc(rem if op == "_remove" else add), f"{op}({x}) on a list of {n} nodes yields forward {fw} / backward {bw}, expected {want}: the recency list is corrupted", detail={"forward": fw, "backward": bw, "expected": want})
    else:
        chk.holds("S2", "util.cache:LRUCache:list-primitives", m.loc(rem), f"{cases} canonical heap cases: remove / add-to-front / move-to-front keep forward and backward links consistent")


def s3(chk: Check, proj: Project, m, cls) -> None:
    chk.rule("S3", "a new key is inserted only after the capacity test; the victim is tail.prev and is removed from list and dict together; maxsize <= 0 stores nothing; clear resets everything")
    f = _method(m, cls, "_set", "set")
    chk.analysed(fkey(m, f))
    cfg = CFG(f)
    dom = cfg.dominators()
    ins = [s for s in stmts(f) if isinstance(s, ast.Assign) and norm(s.targets[0]) == "self.cache[key]"]
    cap = [n for n in cfg.nodes if n.kind == "test" and n.ast is not None and "len(self.cache) >= self.maxsize" in norm(n.ast)]
    ok = len(ins) == 1 and bool(cap) and all(cfg.dominates(cap[0], n, dom) for n in cfg.nodes_of(ins[0]))
    chk.ob("S3", "util.cache:LRUCache.set:capacity-test-dominates-insert", m.loc(ins[0]) if ins else m.loc(f), ok, "`self.cache[key] = new_node` is dominated by `len(self.cache) >= self.maxsize`" if ok else "a new key can be inserted without the capacity test: the cache exceeds its bound")
    if cap:
        miss = any((not pol) and t == "key in self.cache" for t, pol in cond_atoms(cap[0].meta.get("owner")))
        chk.ob("S3", "util.cache:LRUCache.set:evicts-only-for-new-keys", m.loc(cap[0].meta.get("owner")), miss,
               "the capacity test (and eviction) is on the miss path only" if miss else
               "the eviction runs before / regardless of the `key in self.cache` test: overwriting a key that is already cached in a full cache evicts the least recently used entry although no room is needed")
        owner = cap[0].meta.get("owner")
        body = owner.body if isinstance(owner, ast.If) else []
        vic = [s for s in body if isinstance(s, ast.Assign) and norm(s.value) == "self.tail.prev"]
        v = norm(vic[0].targets[0]) if vic else None
        rm = any(isinstance(s, ast.Expr) and isinstance(s.value, ast.Call) and norm(s.value) == f"self._remove({v})" for s in body)
        dl = any(isinstance(s, ast.Delete) and norm(s.targets[0]) == f"self.cache[{v}.key]" for s in body)
        chk.ob("S3", "util.cache:LRUCache.set:evicts-tail-prev", m.loc(owner) if owner is not None else m.loc(f), bool(vic) and rm and dl, "victim = self.tail.prev, unlinked and deleted from the dict" if vic and rm and dl else "the eviction does not take `self.tail.prev` and remove it from both the list and the dict")
        guards_ = [st for st in body if isinstance(st, ast.If) and any(isinstance(x, ast.Raise) for x in st.body) and v is not None and v in norm(st.test)]
        for gd in guards_:
            okg = norm(gd.test) == f"{v} is None"
            chk.ob("S3", "util.cache:LRUCache.set:victim-refused-only-if-missing", m.loc(gd), okg,
                   f"the eviction gives up only when `{v} is None`" if okg else
                   f"`if {short(gd.test)}: raise` refuses a victim because of its KEY: a real entry whose key equals that value (the empty string) is taken for a sentinel when it is the least recently used one - set() raises and the new value is not stored (maxsize=1: set('', x); set('a', y))")
        unb = "self.maxsize is not None" in norm(cap[0].ast)
        chk.ob("S3", "util.cache:LRUCache.set:unbounded-when-none", m.loc(owner) if owner is not None else m.loc(f), unb, "maxsize None means unbounded")
    zero = [s for s in f.body if isinstance(s, ast.If) and "self.maxsize <= 0" in norm(s.test) and s.body and isinstance(s.body[-1], ast.Return)]
    okz = bool(zero) and all(zero[0].lineno < s.lineno for s in ins)
    chk.ob("S3", "util.cache:LRUCache.set:zero-size-stores-nothing", m.loc(zero[0]) if zero else m.loc(f), okz, "maxsize <= 0 returns before anything is stored")
    # new node goes to the front
    newn = [s for s in stmts(f) if isinstance(s, ast.Assign) and isinstance(s.value, ast.Call) and "CacheNode" in norm(s.value.func)]
    okn = bool(newn) and bool(ins) and norm(ins[0].value) == norm(newn[0].targets[0]) and any(norm(c) == f"self._add_to_front({norm(newn[0].targets[0])})" for c in calls(f))
    chk.ob("S3", "util.cache:LRUCache.set:new-node-linked", m.loc(newn[0]) if newn else m.loc(f), okn, "the new node is stored in the dict and linked at the front")
    if ins and isinstance(ins[0].value, ast.Name):
        nv = ins[0].value.id
        kp, vp = params(f)[1], params(f)[2]
        defs = assignments(f, nv)
        badk = []
        for st_, v_ in defs:
            fresh = isinstance(v_, ast.Call) and "CacheNode" in norm(v_.func) and v_.args and norm(v_.args[0]) == kp
            rekeyed = any(isinstance(x, ast.Assign) and norm(x.targets[0]) == f"{nv}.key" and norm(x.value) == kp for x in stmts(f))
            if not (fresh or rekeyed):
                badk.append(st_)
        chk.ob("S3", "util.cache:LRUCache.set:stored-node-carries-its-key", m.loc(badk[0]) if badk else m.loc(ins[0]), not badk if defs else None,
               f"the node stored under `self.cache[{kp}]` is CacheNode({kp}, ...) on every path: eviction later deletes exactly that dict entry" if not badk else
               f"`{short(badk[0])}` stores a node under `{kp}` whose `.key` is another key (the evicted entry's): when that node is evicted in turn, `del self.cache[<stale key>]` raises KeyError or deletes a live entry while the real victim stays forever - reached after more than 2*maxsize distinct keys (the 257th template)")
    c = _method(m, cls, "_clear", "clear")
    txt = {norm(s) for s in stmts(c)}
    okc = {"self.cache.clear()", "self.head.next = self.tail", "self.tail.prev = self.head"} <= txt
    chk.ob("S3", "util.cache:LRUCache.clear:resets", m.loc(c), okc, "clear() empties the dict and re-links the sentinels")
    h = _method(m, cls, "has")
    chk.ob("S3", "util.cache:LRUCache.has", m.loc(h), any(norm(s) == "return key in self.cache" for s in stmts(h)), "has() is membership in the dict")


def s5_instance_state(chk: Check, proj: Project, m, cls) -> None:
    chk.rule("S5", "every LRUCache instance owns its table and its list: the dict and both sentinels are created in __init__ (a mutable class attribute would be shared by all caches: foreign keys, wrong size, clear() wiping the others)")
    init = _method(m, cls, "__init__")
    chk.analysed(fkey(m, init))
    own = {t.attr for st in stmts(init) if isinstance(st, (ast.Assign, ast.AnnAssign)) for t in ([st.target] if isinstance(st, ast.AnnAssign) else st.targets) if isinstance(t, ast.Attribute) and norm(t.value) == "self"}
    used = {x.attr for fn in cls.body if isinstance(fn, ast.FunctionDef) for x in ast.walk(fn) if isinstance(x, ast.Attribute) and norm(x.value) == "self" and not isinstance(getattr(x, "ctx", None), ast.Store) and x.attr in ("cache", "head", "tail", "maxsize", "_lock")}
    shared = [st for st in cls.body if isinstance(st, (ast.Assign, ast.AnnAssign)) and getattr(st, "value", None) is not None and isinstance(st.value, (ast.Dict, ast.List, ast.Set, ast.Call))]
    missing = sorted(used - own)
    ok = not missing and not shared
    chk.ob("S5", "util.cache:LRUCache:per-instance-state", m.loc(shared[0]) if shared else m.loc(init), ok,
           f"__init__ creates {sorted(own & used)} for every instance; the class body holds no mutable default" if ok else
           f"{'`' + short(shared[0]) + '` in the class body' if shared else 'self.' + missing[0] + ' is never assigned in __init__'}: the key -> node table is ONE object shared by every LRUCache in the process - a fresh cache reports another cache's keys, the size test counts foreign entries and clear() empties them all")


def s4(chk: Check, proj: Project) -> None:
    chk.rule("S4", "cached_template: the key contains the template string and the module-qualified template / engine classes; get and set use the same key; the hit returns the stored object")
    m, f = proj.func("template", "cached_template")
    chk.analysed(fkey(m, f))
    g, s_ = calls(f, "get"), calls(f, "set")
    g = [c for c in g if "cache" in norm(c.func)]
    s_ = [c for c in s_ if "cache" in norm(c.func)]
    if len(g) != 1 or len(s_) != 1:
        chk.undecided("S4", "template:cached_template:shape", m.loc(f), f"{len(g)} get / {len(s_)} set calls on the cache")
        return
    kvar = norm(g[0].args[0])
    chk.ob("S4", "template:cached_template:same-key", m.loc(s_[0]), norm(s_[0].args[0]) == kvar and len(assignments(f, kvar)) == 1, f"get and set use the single-assigned `{kvar}`")
    kdef = assignments(f, kvar)[0][1] if assignments(f, kvar) else None
    parts = [norm(e) for e in kdef.elts] if isinstance(kdef, ast.Tuple) else []
    ps = params(f)

    def resolves(expr_txt: str) -> str:
        a = assignments(f, expr_txt)
        return " | ".join(norm(v) for _s, v in a if v is not None) if a else expr_txt

    srcs = [resolves(p) for p in parts]
    has_str = ps[0] in parts
    # the class and the engine are identified by the OBJECT (an import path is shared by factory-made classes; the class of an
    # engine says nothing about its builtins / libraries / loaders)
    cls_part = [(p_, s_) for p_, s_ in zip(parts, srcs) if "template_cls" in s_]
    eng_part = [(p_, s_) for p_, s_ in zip(parts, srcs) if "engine" in s_]

    def _is_object(src: str, name: str) -> bool:
        alts = [a.strip() for a in src.split(" | ")]
        return all(a == name or a == f"{name} or Template" for a in alts)

    cls_ok = bool(cls_part) and all(_is_object(s_, "template_cls") for _p, s_ in cls_part)
    eng_ok = bool(eng_part) and all(_is_object(s_, "engine") for _p, s_ in eng_part)
    bare = any(".__name__" in s_ or ".__qualname__" in s_ for _p, s_ in cls_part)
    chk.ob("S4", "template:cached_template:key-has-source", m.loc(assignments(f, kvar)[0][0]) if kdef is not None else m.loc(f), has_str, "the key contains the template string" if has_str else "the key does not contain the template string")
    chk.ob("S4", "template:cached_template:key-has-qualified-class", m.loc(assignments(f, kvar)[0][0]) if kdef is not None else m.loc(f), cls_ok,
           "the key identifies the Template class by the class object itself" if cls_ok else
           (f"the Template class enters the key as `{[s_ for _p, s_ in cls_part]}`: two different classes with the same bare name share entries, a caller gets an instance of the wrong class" if bare or not cls_part else
            f"the Template class enters the key as `{[s_ for _p, s_ in cls_part]}`, a derived name: two classes made by one factory function have the same module and qualname, so cached_template('t', Tb) returns an instance of Ta"))
    chk.ob("S4", "template:cached_template:key-has-engine-class", m.loc(f), eng_ok,
           "the key identifies the engine by the engine object itself" if eng_ok else
           f"the engine enters the key as `{[s_ for _p, s_ in eng_part]}`: two Engine instances of one class configured with different builtins / libraries / loaders share an entry, the second caller gets the template compiled for the first engine (output differs from compiling afresh)")
    # each optional key part is guarded by the presence of the very object it is derived from
    for part in parts:
        for st_, v_ in assignments(f, part):
            if isinstance(v_, ast.IfExp):
                tn = {x.id for x in ast.walk(v_.test) if isinstance(x, ast.Name)} & set(ps)
                taken = v_.body if not (isinstance(v_.body, ast.Constant) and v_.body.value is None) else v_.orelse
                bn = {x.id for x in ast.walk(taken) if isinstance(x, ast.Name)} & set(ps)
                okg = not tn or not bn or bool(tn & bn)
                chk.ob("S4", f"template:cached_template:key-part-{part}-guard", m.loc(st_), okg,
                       f"`{part}` is derived from `{'/'.join(sorted(bn))}` whenever that is given" if okg else
                       f"`{short(st_)}`: the part of the key derived from `{'/'.join(sorted(bn))}` is present only when `{'/'.join(sorted(tn))}` is given - with `{'/'.join(sorted(bn))}` but no `{'/'.join(sorted(tn))}` it drops out of the key and templates compiled for different `{'/'.join(sorted(bn))}` values share one entry")
    # hit returns the stored object
    retn = next((norm(r.value) for r in stmts(f) if isinstance(r, ast.Return) and isinstance(r.value, ast.Name)), "template")
    hitv = assignments(f, retn)
    got = norm(enclosing_stmt(g[0]).targets[0]) if isinstance(enclosing_stmt(g[0]), ast.Assign) else (norm(enclosing_stmt(g[0]).target) if isinstance(enclosing_stmt(g[0]), ast.AnnAssign) else None)
    ok = any(v is not None and norm(v) == got for _s, v in hitv) and any(isinstance(v, ast.Call) and norm(v.func) == "template_cls" for _s, v in hitv)
    chk.ob("S4", "template:cached_template:hit-returns-stored", m.loc(g[0]), ok, f"a hit returns the object the cache returned (`{got}`), a miss compiles with template_cls(...)")
    # ... and nothing else: the returned variable has exactly these two definitions (no copy / wrapper made on the way out)
    others = [st for st, v in hitv if not (v is not None and (norm(v) == got or (isinstance(v, ast.Call) and norm(v.func) == "template_cls")))]
    chk.ob("S4", "template:cached_template:returns-the-cached-object-itself", m.loc(others[0]) if others else m.loc(g[0]), not others,
           f"`{retn}` is either the cached object or the freshly compiled one that was just stored" if not others else
           f"`{short(others[0])}` replaces the object on its way out: a repeated key no longer returns the IDENTICAL Template while it is cached (callers compare with `is`, and anything stored on the first object - the nesting flag, a test marker - is not on the second)")
    # every input that is part of the key also reaches the compilation (otherwise two keys give the same template compiled for
    # the wrong input - output differs from compiling afresh at every cache size)
    ctor = [v for _s, v in hitv if isinstance(v, ast.Call) and norm(v.func) == "template_cls"]
    if ctor:
        passed = {x.id for a_ in list(ctor[0].args) + [k.value for k in ctor[0].keywords] for x in ast.walk(a_) if isinstance(x, ast.Name)}
        keyed = set()
        todo_ = [kdef] if kdef is not None else []
        seen_ = set()
        while todo_:
            e_ = todo_.pop()
            for x in ast.walk(e_):
                if isinstance(x, ast.Name) and x.id not in seen_:
                    seen_.add(x.id)
                    if x.id in ps:
                        keyed.add(x.id)
                    for _s2, v2 in assignments(f, x.id):
                        if v2 is not None:
                            todo_.append(v2)
        lost = sorted(keyed - passed - {"template_cls"})
        chk.ob("S4", "template:cached_template:keyed-inputs-reach-the-compilation", m.loc(ctor[0]), not lost,
               f"every keyed input ({', '.join(sorted(keyed))}) is handed to template_cls(...)" if not lost else
               f"`{short(ctor[0])}` does not receive `{', '.join(lost)}` although the key distinguishes it: cached_template(src, {lost[0]}=E) is compiled as if {lost[0]} had not been given (e.g. with the default engine - its builtins, string_if_invalid), so the output differs from compiling afresh")
    # the decision hit / miss is the cache's answer alone: the variable is not overwritten (e.g. reset to None because some
    # attribute of the cached object differs from an argument that is NOT part of the key) before it is tested
    redef = [st for st, v in assignments(f, got)] if got else []
    # a reset to None that can only happen when an attribute of the cached object differs from a parameter that IS part of
    # the key is dead code (the object was compiled from exactly that parameter): not a second definition
    def _keyed_roots() -> Set[str]:
        out: Set[str] = set()
        kd = assignments(f, kvar)[0][1] if assignments(f, kvar) else None
        todo = [kd] if kd is not None else []
        seen_n: Set[str] = set()
        while todo:
            e = todo.pop()
            for x in ast.walk(e):
                if isinstance(x, ast.Name) and x.id not in seen_n:
                    seen_n.add(x.id)
                    if x.id in ps:
                        out.add(x.id)
                    for _s2, v2 in assignments(f, x.id):
                        if v2 is not None:
                            todo.append(v2)
        return out

    kr = _keyed_roots()
    live_redef = [redef[0]] if redef else []
    for st in redef[1:]:
        dead = isinstance(getattr(st, "value", None), ast.Constant) and st.value.value is None
        if dead:
            for t, pol in cond_atoms(st):
                mm_ = re.match(rf"^{re.escape(got)}\.(\w+) != (\w+)$", t)
                if pol and mm_ and mm_.group(2) in kr and mm_.group(1) == mm_.group(2):
                    continue
                if pol and (t == f"{got} is not None" or re.match(r"^\w+ is not None$", t)):
                    continue
                dead = False
            dead = dead and any(pol and re.match(rf"^{re.escape(got)}\.(\w+) != (\w+)$", t) for t, pol in cond_atoms(st))
        if not dead:
            live_redef.append(st)
    redef = live_redef
    chk.ob("S4", "template:cached_template:hit-is-the-caches-answer", m.loc(redef[1]) if len(redef) > 1 else m.loc(g[0]), len(redef) == 1,
           f"`{got}` has a single definition, the cache lookup" if len(redef) == 1 else
           f"`{got}` is reassigned after the lookup (`{short(redef[1])}`): a repeated key that was never evicted is recompiled and the entry overwritten, so callers alternate between different Template objects")
    # every place that compiles a Template here passes the same arguments (a duplicated fast path must not forget one)
    ctors_all = [c for c in calls(f) if norm(c.func) == "template_cls"]
    sigs = {(tuple(norm(a) for a in c.args), tuple(sorted((k.arg or "**", norm(k.value)) for k in c.keywords))) for c in ctors_all}
    chk.ob("S4", "template:cached_template:constructor-calls-agree", m.loc(ctors_all[-1]) if ctors_all else m.loc(f), len(sigs) == 1,
           f"{len(ctors_all)} template_cls(...) call(s) with identical arguments" if len(sigs) == 1 else
           f"the template_cls(...) calls differ in their arguments ({sorted(sigs)}): with the cache disabled (size 0) the template is compiled without its origin, so relative {{% extends './x.html' %}} fails there while sizes >= 1 render correctly - the output depends on the configured cache size")
    # key completeness: every input of the memoised computation (the arguments of the constructor call on a miss) is an
    # input of the key - otherwise a hit hands out a value computed for other inputs
    ctor = [v for _s, v in hitv if isinstance(v, ast.Call) and norm(v.func) == "template_cls"]
    if ctor and kdef is not None:
        def roots(e: ast.AST, depth: int = 0) -> Set[str]:
            out: Set[str] = set()
            for x in ast.walk(e):
                if isinstance(x, ast.Name) and isinstance(x.ctx, ast.Load):
                    if x.id in ps:
                        out.add(x.id)
                    elif depth < 4:
                        for _s2, v2 in assignments(f, x.id):
                            if v2 is not None and v2 is not e:
                                out |= roots(v2, depth + 1)
            return out

        used = set()
        for a in list(ctor[0].args) + [k.value for k in ctor[0].keywords]:
            used |= roots(a)
        used |= roots(ctor[0].func)
        keyed = roots(kdef)
        missing = sorted(used - keyed)
        chk.ob("S4", "template:cached_template:key-covers-every-input", m.loc(assignments(f, kvar)[0][0]), not missing,
               f"every input of the compilation {sorted(used)} is an input of the key" if not missing else
               f"the Template is compiled from {sorted(used)} but the key is computed from {sorted(keyed)} only: `{missing}` decide how relative {{% extends './x' %}} / {{% include %}} paths are resolved (and what error messages say), so a caller with the same source but another name gets the Template compiled for the first caller - rendering differs from compiling afresh")
    stv = norm(s_[0].args[1]) if len(s_[0].args) > 1 else None
    at = cond_atoms(enclosing_stmt(s_[0]))
    okm = stv == retn and any(pol and t == f"{got} is None" for t, pol in at)
    chk.ob("S4", "template:cached_template:store-on-miss", m.loc(s_[0]), okm, "the compiled template is stored on a miss")


def s7_values_are_opaque(chk: Check, proj: Project) -> None:
    chk.rule("S7", "the cache is transparent for EVERY value: the stored value is opaque to the LRU - no branch of set / get / has depends on the value (None, falsy values and objects with a custom __eq__ / __bool__ are stored, found and aged like any other); a store that is skipped 'because None looks like a miss' leaves the previous value in place, so get() returns something that was overwritten")
    m = proj.mod("util.cache")
    cls = m.cls("LRUCache")
    from ..astq import params as _params

    n = 0
    for fn in [x for x in cls.body if isinstance(x, ast.FunctionDef) and x.name in ("set", "_set", "get", "_get", "has", "_has")]:
        ps = _params(fn)
        vals = {p for p in ps[2:]}  # (self, key, value...)
        # locals that hold a stored value: `<x> = <node>.value`
        for st in ast.walk(fn):
            if isinstance(st, ast.Assign) and isinstance(st.value, ast.Attribute) and st.value.attr == "value":
                vals |= {t.id for t in st.targets if isinstance(t, ast.Name)}
        tests = [x.test for x in ast.walk(fn) if isinstance(x, (ast.If, ast.IfExp, ast.While))] + [x for x in ast.walk(fn) if isinstance(x, ast.Compare) and isinstance(getattr(x, "parent", None), ast.Return)]
        n += 1
        chk.analysed(f"{m.name}:LRUCache.{fn.name}")
        bad = [t for t in tests if any((isinstance(x, ast.Name) and x.id in vals) or (isinstance(x, ast.Attribute) and x.attr == "value") or (isinstance(x, ast.Call) and isinstance(x.func, ast.Attribute) and x.func.attr in ("get", "_get") and norm(x.func.value) == "self") for x in ast.walk(t))]
        chk.ob("S7", f"util.cache:LRUCache.{fn.name}:no-branch-on-the-value", m.loc(bad[0]) if bad else m.loc(fn), not bad,
               "no test mentions the stored value" if not bad else
               f"`{short(bad[0])}` makes {fn.name}() behave differently for some values: set('a', v); set('a', None); get('a') returns v (the overwritten value) instead of None, has() stays False for a stored None - and a membership test routed through get() also refreshes recency, so the wrong entry is evicted next")
    chk.floor("S7", n, 3)


def s10_public_mutators_locked(chk: Check, proj: Project, m, cls, w) -> None:
    chk.rule("S10", "the LRU stays a dictionary plus a recency list that agree, under EVERY history of public calls from any thread: every public method that changes the dict or the list (set, get's move-to-front, clear) runs under the cache's lock - `clear()` is not 'atomic because dict.clear() is': it also re-links the sentinels, and run in the middle of another thread's eviction it makes that set() raise KeyError")
    from . import C07 as _C07

    locks = _C07._lock_attrs(cls)
    if not locks:
        chk.violated("S10", "util.cache:LRUCache:has-a-lock", m.loc(cls), "LRUCache owns no lock any more")
        return
    n = 0
    for st in cls.body:
        if not isinstance(st, ast.FunctionDef) or st.name.startswith("_"):
            continue
        muts = _C07._mutations(w, m, cls, st)
        if muts < 1:
            continue
        n += 1
        body = [s_ for s_ in st.body if not (isinstance(s_, ast.Expr) and isinstance(s_.value, ast.Constant))]
        sites = [x for x in ast.walk(st) if (isinstance(x, (ast.Assign, ast.AugAssign, ast.Delete)) and any(isinstance(t, (ast.Attribute, ast.Subscript)) and "self" in norm(t) for t in (x.targets if isinstance(x, (ast.Assign, ast.Delete)) else [x.target]))) or (isinstance(x, ast.Call) and isinstance(x.func, ast.Attribute) and norm(x.func.value).startswith("self") and (x.func.attr.startswith("_") or x.func.attr in ("clear", "pop", "update", "setdefault", "popitem")))]
        unlocked = [x for x in sites if not _C07._under_lock(x, locks)]
        chk.ob("S10", f"util.cache:LRUCache.{st.name}:mutates-under-the-lock", m.loc(unlocked[0]) if unlocked else m.loc(st), not unlocked and bool(sites),
               f"every state change of {st.name}() stands inside `with self.{sorted(locks)[0]}`" if not unlocked and sites else
               f"`{short(unlocked[0]) if unlocked else st.name}` in the public method {st.name}() changes the cache outside `with self.{sorted(locks)[0]}`: run while another thread's set() is between choosing the victim and deleting it, the dict and the recency list stop agreeing and that set() raises KeyError")
    chk.floor("S10", n, 2)


def s11_one_cache(chk: Check, proj: Project) -> None:
    chk.rule("S11", "there is ONE template cache per process: get_template_cache returns the module-level LRU on every path and constructs an LRUCache in exactly one place - per-thread (or per-anything) caches multiply the bound by the number of threads, give a repeated key a different Template object in another thread, and make clear() local to the caller")
    cm, cf = proj.func("cache", "get_template_cache")
    chk.analysed(fkey(cm, cf))
    gl = {n for x in ast.walk(cf) if isinstance(x, ast.Global) for n in x.names}
    rets = [r for r in ast.walk(cf) if isinstance(r, ast.Return) and r.value is not None]
    bad = [r for r in rets if not (isinstance(r.value, ast.Name) and r.value.id in gl)]
    ctor = calls(cf, "LRUCache")
    ok = bool(rets) and not bad and len(ctor) == 1
    chk.ob("S11", "cache:get_template_cache:one-process-wide-cache", cm.loc(bad[0]) if bad else (cm.loc(ctor[1]) if len(ctor) > 1 else cm.loc(cf)), ok,
           "every path returns the module-level cache, constructed in one place" if ok else
           f"`{short(bad[0]) if bad else short(ctor[-1])}`: get_template_cache hands out a cache other than the one module-level LRU - the size bound no longer holds for the process (each thread keeps up to template_cache_size templates of its own), the same key yields different Template objects in different threads, and clear() does not reach them")


MANIFEST = {
    "text": "Decides the LRU's structure: hit paths unconditionally move the node to the front; the two linked-list primitives are interpreted from their ASTs over all canonical heaps up to 3 nodes (remove, add-to-front, move-to-front; forward and backward links); insertion is dominated by the capacity test with eviction of tail.prev from list and dict; size 0 stores nothing; the template cache key contains source and module-qualified classes; the configured size reaches the cache. Also: eviction only for new keys, no early exit in the hit branch before the move-to-front, and the hit/miss decision is the cache's answer alone (single definition). Round 4 / triage: the key covers every input of the compilation (key completeness), all constructor calls agree, hit-path detection on path conditions. Round 5: the node stored under a key carries that key (no stale key on a recycled node); each optional key part is guarded by the object it is derived from; class and engine enter the key as objects (F45). Round 6: a hit returns the cached object itself (no copy on the way out); every keyed input reaches the compilation; the eviction refuses a victim only if it is missing. Round 7: per-instance table and sentinels; no render-time memo on Nodes of cached Templates (shared with C07-S1-A2).",
    "note": "Trusted: Python dict semantics. Not decided: LRU order over long histories and transparency of rendered output as observables; thread-safety is C07.",
    "technique": "static typestate/dominance checks plus abstract interpretation of the list primitives' ASTs over small canonical heaps",
}
