"""Writer languages of the library's in-band records (marker comment, placeholders, render-id template) derived
from the source by abstract string evaluation, and their reader regexes. Shared by C04, C14, C19."""
from __future__ import annotations

import ast
import re
from typing import Dict, List, Optional, Tuple

from ..absstr import AbsStr, Evaluator, alphabet_of, concat, length_of, lit, simplify, union
from ..cfg import flatten_conj, path_conditions
from ..astq import calls
from ..regexlang import ASCII_ALNUM, HEX_LOWER, Lang, Seg, show
from ..source import AnalysisError, Module, Project, body_walk, dotted, last_attr, norm
from .common import world


def compiled_regex(proj: Project, mod: str, name: str) -> Tuple[object, int, ast.AST]:
    """(pattern, flags, node) of a module-level `NAME = re.compile(<constant>, <flags>)`."""
    m = proj.mod(mod)
    v = m.global_value(name)
    if not (isinstance(v, ast.Call) and dotted(v.func) == "re.compile" and v.args):
        raise AnalysisError(f"anchor vanished: {mod}.{name} is not a re.compile(...) global")
    ok, pat = proj.try_fold(m, v.args[0])
    if not ok or not isinstance(pat, (str, bytes)):
        raise AnalysisError(f"{mod}.{name}: pattern is not a foldable constant")
    flags = 0
    if len(v.args) > 1:
        for n in ast.walk(v.args[1]):
            if isinstance(n, ast.Attribute) and dotted(n) and dotted(n).startswith("re."):
                flags |= int(getattr(re, n.attr))
    return pat, flags, v


def class_hash_lang(proj: Project, ev: Evaluator) -> Tuple[AbsStr, str]:
    """Abstract value of `Component._class_hash`: RHS of every store to an attribute named `_class_hash`."""
    out: AbsStr = []
    where = ""
    for m in proj.modules.values():
        for q, f in m.funcs():
            for n in body_walk(f):
                if isinstance(n, ast.Assign) and any(isinstance(t, ast.Attribute) and t.attr == "_class_hash" for t in n.targets):
                    out = union(out, ev.eval(m, f, n.value))
                    where = m.loc(n)
    if not out:
        raise AnalysisError("anchor vanished: no store to `_class_hash`")
    return [simplify(a) for a in out], where


def marker_writer(proj: Project, ev: Evaluator, hash_lang: AbsStr) -> Tuple[AbsStr, AbsStr, str]:
    """(whole marker, data part) emitted by the function that formats COMPONENT_DEPS_COMMENT."""
    dm = proj.mod("dependencies")
    for q, f in dm.funcs():
        for c in calls(f, "format"):
            if isinstance(c.func, ast.Attribute) and norm(c.func.value) == "COMPONENT_DEPS_COMMENT":
                env = {}
                # any `<x>._class_hash` read in the function is the class hash
                for n in ast.walk(f):
                    if isinstance(n, ast.Attribute) and n.attr == "_class_hash":
                        env[norm(n)] = hash_lang
                whole = ev.eval(dm, f, c, env)
                data_expr = next((k.value for k in c.keywords if k.arg == "data"), None)
                data = ev.eval(dm, f, data_expr, env)
                return [simplify(a) for a in whole], [simplify(a) for a in data], dm.loc(c)
    raise AnalysisError("anchor vanished: no COMPONENT_DEPS_COMMENT.format(...) writer")


def root_attr_shapes(proj: Project, ev: Evaluator) -> Tuple[List[Tuple[str, AbsStr]], str]:
    """Attribute names that set_component_attrs_for_js_and_css appends to the root-attribute list, in order."""
    m, f = proj.func("dependencies", "set_component_attrs_for_js_and_css")
    shapes: List[Tuple[str, AbsStr]] = []
    sh = calls(f, "set_html_attributes")
    lst = norm(next((k.value for c in sh for k in c.keywords if k.arg == "root_attributes"), ast.Name(id="all_root_attributes", ctx=ast.Load())))
    for n in body_walk(f):
        if isinstance(n, ast.Call) and isinstance(n.func, ast.Attribute) and n.func.attr == "append" and norm(n.func.value) == lst and n.args:
            # `if <name>:` guards: inside, <name> is a non-empty string
            env = {}
            for test, pol in flatten_conj(path_conditions(n)):
                if pol and isinstance(test, ast.Name):
                    full = ev.eval(m, f, test)
                    env[test.id] = [a for a in full if length_of(a)[1] != 0] or full
            v = ev.eval(m, f, n.args[0], env)
            shapes.append((norm(n.args[0]), [simplify(a) for a in v]))
    if len(shapes) < 1:
        raise AnalysisError("anchor vanished: no all_root_attributes.append(...) in set_component_attrs_for_js_and_css")
    return shapes, m.loc(f)


def render_placeholder_writer(proj: Project, ev: Evaluator) -> Tuple[AbsStr, str]:
    """The `<template djc-render-id="...">` placeholder emitted for a nested component."""
    m, f = proj.func("perfutil.component", "component_post_render")
    for n in body_walk(f):
        if isinstance(n, ast.Return) and n.value is not None:
            for j in ast.walk(n.value):
                if isinstance(j, ast.JoinedStr) and any(isinstance(v, ast.Constant) and "djc-render-id" in str(v.value) for v in j.values):
                    return [simplify(a) for a in ev.eval(m, f, j)], m.loc(n)
    raise AnalysisError("anchor vanished: nested-component placeholder writer not found in component_post_render")
