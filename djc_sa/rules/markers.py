"""Writer languages of the library's in-band records (marker comment, placeholders, render-id template) derived
from the source by abstract string evaluation, and their reader regexes. Shared by C04, C14, C19."""
from __future__ import annotations

import ast
import re
from typing import Dict, List, Optional, Tuple

from ..absstr import AbsStr, Evaluator, alphabet_of, concat, length_of, lit, simplify, union
from ..cfg import flatten_conj, path_conditions
from ..astq import calls
from ..regexlang import ASCII_ALNUM, HEX_LOWER, Lang, Seg, show
from ..source import AnalysisError, Module, Project, body_walk, dotted, last_attr, norm
from .common import world


def compiled_regex(proj: Project, mod: str, name: str) -> Tuple[object, int, ast.AST]:
    """(pattern, flags, node) of a module-level `NAME = re.compile(<constant>, <flags>)`."""
    m = proj.mod(mod)
    v = m.global_value(name)
    if not (isinstance(v, ast.Call) and dotted(v.func) == "re.compile" and v.args):
        raise AnalysisError(f"anchor vanished: {mod}.{name} is not a re.compile(...) global")
    ok, pat = proj.try_fold(m, v.args[0])
    if not ok or not isinstance(pat, (str, bytes)):
        raise AnalysisError(f"{mod}.{name}: pattern is not a foldable constant")
    flags = 0
    if len(v.args) > 1:
        for n in ast.walk(v.args[1]):
            if isinstance(n, ast.Attribute) and dotted(n) and dotted(n).startswith("re."):
                flags |= int(getattr(re, n.attr))
    return pat, flags, v


def class_hash_lang(proj: Project, ev: Evaluator) -> Tuple[AbsStr, str]:
    """Abstract value of `Component._class_hash`: RHS of every store to an attribute named `_class_hash`."""
    out: AbsStr = []
    where = ""
    for m in proj.modules.values():
        for q, f in m.funcs():
            for n in body_walk(f):
                if isinstance(n, ast.Assign) and any(isinstance(t, ast.Attribute) and t.attr == "_class_hash" for t in n.targets):
                    out = union(out, ev.eval(m, f, n.value))
                    where = m.loc(n)
    if not out:
        raise AnalysisError("anchor vanished: no store to `_class_hash`")
    return [simplify(a) for a in out], where


def marker_writer(proj: Project, ev: Evaluator, hash_lang: AbsStr) -> Tuple[AbsStr, AbsStr, str]:
    """(whole marker, data part) emitted by the function that formats COMPONENT_DEPS_COMMENT."""
    dm = proj.mod("dependencies")
    for q, f in dm.funcs():
        for c in calls(f, "format"):
            if isinstance(c.func, ast.Attribute) and norm(c.func.value) == "COMPONENT_DEPS_COMMENT":
                env = {}
                # any `<x>._class_hash` read in the function is the class hash
                for n in ast.walk(f):
                    if isinstance(n, ast.Attribute) and n.attr == "_class_hash":
                        env[norm(n)] = hash_lang
                whole = ev.eval(dm, f, c, env)
                data_expr = next((k.value for k in c.keywords if k.arg == "data"), None)
                data = ev.eval(dm, f, data_expr, env)
                return [simplify(a) for a in whole], [simplify(a) for a in data], dm.loc(c)
    raise AnalysisError("anchor vanished: no COMPONENT_DEPS_COMMENT.format(...) writer")


class ListElem:
    """One element a list may hold: `expr`, the path condition under which it was added, and the conditions of later
    re-assignments of the list that would have dropped it."""

    def __init__(self, expr: ast.expr, cond: Tuple[Tuple[ast.expr, bool], ...], kills: Optional[List[Tuple[Tuple[ast.expr, bool], ...]]] = None, opaque: bool = False):
        self.expr, self.cond, self.kills, self.opaque = expr, cond, list(kills or []), opaque


def list_flow(f: ast.FunctionDef, upto: Optional[ast.AST] = None) -> Dict[str, Optional[List[ListElem]]]:
    """Flow-sensitive contents of the local list variables of `f` (None = not understood), up to statement `upto`.
    Understands `v = []`, list displays with `*other`, `[...] if c else [...]`, `.append(e)`, `.extend([...])`,
    `v += [...]`, aliases `v = other` / `list(other)`, under if/else (conditions are kept per element)."""
    state: Dict[str, Optional[List[ListElem]]] = {}
    done = [False]

    def ev(value: ast.expr, cond: Tuple[Tuple[ast.expr, bool], ...]) -> Optional[List[ListElem]]:
        if isinstance(value, (ast.List, ast.Tuple)):
            out: List[ListElem] = []
            for e in value.elts:
                if isinstance(e, ast.Starred):
                    if isinstance(e.value, ast.Name) and state.get(e.value.id) is not None:
                        out += [ListElem(x.expr, x.cond + cond, x.kills, x.opaque) for x in state[e.value.id]]  # type: ignore[union-attr]
                    else:
                        out.append(ListElem(e.value, cond, opaque=True))
                else:
                    out.append(ListElem(e, cond))
            return out
        if isinstance(value, ast.IfExp):
            a, b = ev(value.body, cond + ((value.test, True),)), ev(value.orelse, cond + ((value.test, False),))
            return None if a is None or b is None else a + b
        if isinstance(value, ast.Name) and value.id in state:
            src = state[value.id]
            return None if src is None else [ListElem(x.expr, x.cond + cond, x.kills, x.opaque) for x in src]
        if isinstance(value, ast.Call) and isinstance(value.func, ast.Name) and value.func.id == "list" and len(value.args) <= 1:
            return ev(value.args[0], cond) if value.args else []
        if isinstance(value, ast.BinOp) and isinstance(value.op, ast.Add):
            a, b = ev(value.left, cond), ev(value.right, cond)
            return None if a is None or b is None else a + b
        if isinstance(value, ast.BoolOp) and isinstance(value.op, ast.Or) and len(value.values) == 2:
            a, b = ev(value.values[0], cond + ((value.values[0], True),)), ev(value.values[1], cond + ((value.values[0], False),))
            return None if a is None or b is None else a + b
        if isinstance(value, ast.Name):
            return [ListElem(value, cond, opaque=True)]
        return None

    def assign(name: str, value: ast.expr, cond: Tuple[Tuple[ast.expr, bool], ...]) -> None:
        new = ev(value, cond)
        old = state.get(name)
        if new is None:
            state[name] = None
            return
        if cond and old:
            # conditional re-assignment: the old elements survive only where the condition is false
            keep = [x for x in old if not any(x is y for y in new)]
            for x in keep:
                if not any(id(x.expr) == id(y.expr) for y in new):
                    x.kills.append(cond)
            state[name] = [x for x in keep if not any(id(x.expr) == id(y.expr) for y in new)] + new
        else:
            state[name] = new

    def walk(block: List[ast.stmt], cond: Tuple[Tuple[ast.expr, bool], ...]) -> None:
        for st in block:
            if done[0]:
                return
            if upto is not None and st is upto:
                done[0] = True
                return
            if isinstance(st, ast.Assign) and len(st.targets) == 1 and isinstance(st.targets[0], ast.Name):
                looks = isinstance(st.value, (ast.List, ast.IfExp)) or st.targets[0].id in state or (isinstance(st.value, ast.Name) and st.value.id in state)
                if looks:
                    assign(st.targets[0].id, st.value, cond)
            elif isinstance(st, ast.AnnAssign) and isinstance(st.target, ast.Name) and st.value is not None:
                if isinstance(st.value, (ast.List, ast.IfExp)) or st.target.id in state:
                    assign(st.target.id, st.value, cond)
            elif isinstance(st, ast.AugAssign) and isinstance(st.target, ast.Name) and st.target.id in state and isinstance(st.op, ast.Add):
                add = ev(st.value, cond)
                cur = state[st.target.id]
                state[st.target.id] = None if add is None or cur is None else cur + add
            elif isinstance(st, ast.Expr) and isinstance(st.value, ast.Call) and isinstance(st.value.func, ast.Attribute) and isinstance(st.value.func.value, ast.Name) and st.value.func.value.id in state:
                nm, meth = st.value.func.value.id, st.value.func.attr
                cur = state[nm]
                if cur is None:
                    continue
                if meth == "append" and len(st.value.args) == 1:
                    cur.append(ListElem(st.value.args[0], cond))
                elif meth == "extend" and len(st.value.args) == 1:
                    add = ev(st.value.args[0], cond)
                    state[nm] = None if add is None else cur + add
                elif meth in ("insert",) and len(st.value.args) == 2:
                    cur.append(ListElem(st.value.args[1], cond))
                else:
                    state[nm] = None
            elif isinstance(st, ast.If):
                walk(st.body, cond + ((st.test, True),))
                walk(st.orelse, cond + ((st.test, False),))
            elif isinstance(st, (ast.With, ast.Try)):
                walk(st.body, cond)
                if upto is not None and any(x is upto for x in ast.walk(st)):
                    done[0] = True
            elif isinstance(st, (ast.For, ast.While)):
                for x in ast.walk(st):
                    if isinstance(x, ast.Name) and isinstance(x.ctx, (ast.Store, ast.Del)) and x.id in state:
                        state[x.id] = None
                    if isinstance(x, ast.Call) and isinstance(x.func, ast.Attribute) and isinstance(x.func.value, ast.Name) and x.func.value.id in state and x.func.attr in ("append", "extend", "insert", "remove", "pop", "clear"):
                        state[x.func.value.id] = None
            if upto is not None and any(x is upto for x in ast.walk(st)):
                done[0] = True
                return

    walk(f.body, ())
    return state


def root_attr_elems(proj: Project) -> Tuple[Module, ast.FunctionDef, ast.Call, Optional[List[ListElem]]]:
    m, f = proj.func("dependencies", "set_component_attrs_for_js_and_css")
    sh = calls(f, "set_html_attributes")
    if not sh:
        raise AnalysisError("anchor vanished: set_html_attributes(...) call in set_component_attrs_for_js_and_css")
    arg = next((k.value for k in sh[0].keywords if k.arg == "root_attributes"), None)
    if arg is None or not isinstance(arg, ast.Name):
        raise AnalysisError("set_html_attributes(root_attributes=<name>) not found")
    from ..source import enclosing_stmt

    st = list_flow(f, upto=enclosing_stmt(sh[0]))
    return m, f, sh[0], st.get(arg.id)


def root_attr_shapes(proj: Project, ev: Evaluator) -> Tuple[List[Tuple[str, AbsStr]], str]:
    """Attribute names that set_component_attrs_for_js_and_css appends to the root-attribute list, in order."""
    m, f = proj.func("dependencies", "set_component_attrs_for_js_and_css")
    shapes: List[Tuple[str, AbsStr]] = []
    _m, _f, _call, elems = root_attr_elems(proj)
    for el in elems or []:
        if el.opaque:
            continue
        # `if <name>:` guards: inside, <name> is a non-empty string
        env = {}
        for test, pol in flatten_conj(list(el.cond)):
            if pol and isinstance(test, ast.Name):
                full = ev.eval(m, f, test)
                env[test.id] = [a for a in full if length_of(a)[1] != 0] or full
        v = ev.eval(m, f, el.expr, env)
        shapes.append((norm(el.expr), [simplify(a) for a in v]))
    if len(shapes) < 1:
        raise AnalysisError("anchor vanished: no all_root_attributes.append(...) in set_component_attrs_for_js_and_css")
    return shapes, m.loc(f)


def render_placeholder_writer(proj: Project, ev: Evaluator) -> Tuple[AbsStr, str]:
    """The `<template djc-render-id="...">` placeholder emitted for a nested component."""
    m, f = proj.func("perfutil.component", "component_post_render")
    for n in body_walk(f):
        if isinstance(n, ast.Return) and n.value is not None:
            for j in ast.walk(n.value):
                if isinstance(j, ast.JoinedStr) and any(isinstance(v, ast.Constant) and "djc-render-id" in str(v.value) for v in j.values):
                    return [simplify(a) for a in ev.eval(m, f, j)], m.loc(n)
    raise AnalysisError("anchor vanished: nested-component placeholder writer not found in component_post_render")
