"""C19 — every script URL a render emits is served with that component's code (DESIGN.md section 3, C19).

S1 cache before emit: the cachers dominate the normal exit of the render entry; the vars-cachers store before they
   return the hash; presence is re-checked against the cache backend on every call (no side memo).
S2 key agreement: writer, presence test and reader build the cache key with the same function and argument roles.
S3 URL <-> view <-> pattern agreement; what goes into the URL cannot contain the pattern separators.
S4 status discipline of the view: 405 before any lookup, 404 for unknown class / missing script, nothing that can
   raise on request data before those exits; content-type table = accepted script kinds.
S5 emission guard = caching guard (same predicate on Component.js / Component.css).
"""
from __future__ import annotations

import ast
import re
from typing import Dict, List, Set

from ..absstr import Evaluator, alphabet_of
from ..astq import assignments, calls, kwarg, local_from, names_in, params, stmts
from ..callgraph import fkey
from ..cfg import flatten_conj, path_conditions, cond_atoms
from ..report import Check
from ..source import AnalysisError, Project, ancestors, body_walk, dotted, enclosing_stmt, last_attr, norm, short
from .common import world
from .markers import class_hash_lang


def run(chk: Check, proj: Project) -> None:
    chk.explanation = (
        "Ordering (cache before emit), key agreement between the three users of the script cache, agreement of URL "
        "kwargs / view parameters / URL patterns / alphabets, status discipline of the view, and agreement of the "
        "emission and caching predicates."
    )
    chk.not_decided = ["that the served bytes equal the component's code over histories with evictions", "behaviour of the cache backend"]
    chk.trusted_base = ["django.urls.reverse / path converters", "the configured cache backend stores what is set until evicted"]
    w = world(proj)
    s1(chk, proj, w)
    s2(chk, proj, w)
    s3(chk, proj, w)
    s4(chk, proj, w)
    s5(chk, proj, w)
    s9_stored_text(chk, proj)
    s6(chk, proj, w)
    s7_own_backend(chk, proj)
    s8_key_fields(chk, proj)
    s11_kind_flow(chk, proj, w)
    s12_served_iff_announced(chk, proj, w)
    chk.borrow("S17", "a render that runs while ANOTHER thread is loading the class's js_file / css_file sees either 'not resolved yet' (and resolves) or the loaded text: the `resolved` flag is stored last - with the flag first, the second thread reads Component.js as None, caches nothing, and by the time the dependencies are collected the text is there, so the URL is announced and answers 404 (shared with C16-S4)",
               lambda sub: __import__("djc_sa.rules.C16", fromlist=["x"]).s4(sub, proj, proj.mod("component_media")), only=lambda o: "resolved-is-last" in o.construct)
    from . import C06 as _C06

    chk.borrow("S15", "a script that could not be stored is not announced: an error of the cache backend while caching a script reaches the render (which then emits nothing) - a handler that logs and carries on lets the render announce a URL whose script was never stored, and the endpoint answers 404 for it (shared with C06-S3)",
               lambda sub: _C06.s3_handlers(sub, proj, w), only=lambda o: o.construct.startswith("dependencies:") or o.construct.startswith("cache:"))
    from . import generic

    chk.rule("S14", "twin-kind argument agreement on the way from the render to the marker and the cachers: an argument that names one script kind is bound to the parameter of the same kind (js_input_hash -> js_input_hash, never css_input_hash) (generic template, shared with C04-S20)")
    generic.kind_named_args(chk, "S14", proj, w.cg, ["component", "dependencies"], floor=8)
    s13_status_survives_middleware(chk, proj, w)
    s16_inlined_means_cached(chk, proj)


def s8_key_fields(chk: Check, proj: Project, rule: str = "S8") -> None:
    chk.rule(rule, "the script cache key is built from its fields UNCHANGED (class hash, kind, input hash): no slicing, casing or other lossy transformation of a field, so different classes / kinds / inputs never share an entry")
    m, f = proj.func("dependencies", "_gen_cache_key")
    chk.analysed(fkey(m, f))
    ps = params(f)
    bad = []
    # parameters may not be reassigned, and every formatted value that mentions a parameter must be the bare parameter
    for st in stmts(f):
        for t, v in [(t, getattr(st, "value", None)) for t in (st.targets if isinstance(st, ast.Assign) else [st.target] if isinstance(st, (ast.AugAssign, ast.AnnAssign)) else [])]:
            if isinstance(t, ast.Name) and t.id in ps:
                bad.append(st)
    n = 0
    for j in [x for x in ast.walk(f) if isinstance(x, ast.JoinedStr)]:
        for fv in [v for v in j.values if isinstance(v, ast.FormattedValue)]:
            if any(isinstance(x, ast.Name) and x.id in ps for x in ast.walk(fv.value)):
                n += 1
                if not (isinstance(fv.value, ast.Name) and fv.conversion == -1 and fv.format_spec is None):
                    bad.append(fv.value)
    chk.ob(rule, "dependencies:_gen_cache_key:fields-unchanged", m.loc(bad[0]) if bad else m.loc(f), not bad and n >= 3,
           "every field enters the key as the bare parameter" if not bad and n >= 3 else
           f"`{short(bad[0]) if bad else 'key shape not recognised'}` changes a field before it enters the cache key: two component classes whose hashes agree after that transformation (e.g. long names that share a prefix, once the md5 suffix is cut off) share one entry - the second class is taken for cached, its script is never stored and the URL serves the first class's code")


def _django_cache_param_keys() -> Dict[str, Set[str]]:
    """Which keys Django's BaseCache.__init__ reads from `params` and which from params['OPTIONS'] - taken from the
    installed Django source (parsed, not imported)."""
    import importlib.util

    spec = importlib.util.find_spec("django.core.cache.backends.base")
    if spec is None or not spec.origin:
        raise AnalysisError("django.core.cache.backends.base not found")
    tree = ast.parse(open(spec.origin).read())
    init = next((f for c in ast.walk(tree) if isinstance(c, ast.ClassDef) and c.name == "BaseCache" for f in c.body if isinstance(f, ast.FunctionDef) and f.name == "__init__"), None)
    if init is None:
        raise AnalysisError("BaseCache.__init__ not found in the installed Django")
    out: Dict[str, Set[str]] = {"params": set(), "options": set(), "int": set()}
    for c in ast.walk(init):
        if isinstance(c, ast.Call) and isinstance(c.func, ast.Attribute) and c.func.attr == "get" and isinstance(c.func.value, ast.Name) and c.args and isinstance(c.args[0], ast.Constant):
            if c.func.value.id in out:
                out[c.func.value.id].add(str(c.args[0].value))
    # keys whose value goes through int(...) inside try/except (a non-int silently becomes the default)
    for t in [x for x in ast.walk(init) if isinstance(x, ast.Try)]:
        for c in ast.walk(t):
            if isinstance(c, ast.Call) and norm(c.func) == "int" and c.args and isinstance(c.args[0], ast.Name):
                v = c.args[0].id
                for a in ast.walk(init):
                    if isinstance(a, ast.Assign) and isinstance(a.targets[0], ast.Name) and a.targets[0].id == v:
                        for g in ast.walk(a.value):
                            if isinstance(g, ast.Call) and isinstance(g.func, ast.Attribute) and g.func.attr == "get" and g.args and isinstance(g.args[0], ast.Constant):
                                out["int"].add(str(g.args[0].value))
    return out


def s7_own_backend(chk: Check, proj: Project) -> None:
    chk.rule("S7", "the library's own fallback cache backend is configured with keys Django actually reads (entry limit and cull frequency live under OPTIONS) and with values Django can use (a non-integer limit silently becomes 300 entries, so scripts cached earlier in the same render are evicted before they are collected or fetched)")
    m, f = proj.func("cache", "get_component_media_cache")
    chk.analysed(fkey(m, f))
    keys = _django_cache_param_keys()
    if "MAX_ENTRIES" not in keys["options"] or "OPTIONS" not in keys["params"]:
        raise AnalysisError(f"unexpected shape of Django's BaseCache.__init__: {keys}")
    cs = [c for c in calls(f) if last_attr(c.func) == "LocMemCache" and len(c.args) >= 2 and isinstance(c.args[1], ast.Dict)]
    if len(cs) != 1:
        chk.undecided("S7", "cache:get_component_media_cache:own-backend-params", m.loc(f), f"{len(cs)} LocMemCache(...) constructions with a literal params dict")
        return
    nm0 = cs[0].args[0]
    chk.ob("S7", "cache:get_component_media_cache:one-store-however-often-created", m.loc(nm0), isinstance(nm0, ast.Constant) and isinstance(nm0.value, str),
           "the LocMemCache name is a constant: Django keeps one storage per name, so the unsynchronised check-then-create of the lazy singleton always ends on the same store" if isinstance(nm0, ast.Constant) else
           f"the LocMemCache is created under a per-call name `{short(nm0)}`: two threads that both find the global unset create two DIFFERENT stores, the later assignment wins, and the scripts the first thread already cached are not found when its dependencies are collected ('Could not find JS for component')")
    d = cs[0].args[1]
    top = {str(k.value): v for k, v in zip(d.keys, d.values) if isinstance(k, ast.Constant)}
    ignored = sorted(k for k in top if k not in keys["params"])
    chk.ob("S7", "cache:get_component_media_cache:keys-are-read-by-django", m.loc(cs[0]), not ignored,
           f"every top-level key {sorted(top)} is one that BaseCache.__init__ reads from params" if not ignored else
           f"top-level key(s) {ignored} are never read by Django's BaseCache (it looks for them under params['OPTIONS']): the intended 'no max size' is ignored and the media cache holds 300 entries - a page with more than ~150 components with JS and CSS loses scripts during its own render")
    opts = top.get("OPTIONS")
    eff = {}
    if isinstance(opts, ast.Dict):
        eff = {str(k.value): v for k, v in zip(opts.keys, opts.values) if isinstance(k, ast.Constant)}
    ign_opts = sorted(k for k in eff if k not in keys["options"])
    chk.ob("S7", "cache:get_component_media_cache:option-keys-are-read-by-django", m.loc(opts) if opts is not None else m.loc(cs[0]), not ign_opts,
           f"every OPTIONS key {sorted(eff)} is one that BaseCache.__init__ reads from OPTIONS" if not ign_opts else
           f"OPTIONS key(s) {ign_opts} are never read by Django's BaseCache (it reads them from the top level of params): the setting is silently ignored")
    # no expiry: Django reads `timeout` / `TIMEOUT` from the TOP level; anything but None there (or nothing: default 300 s) lets a
    # script expire between the render that found it present (has_key, nothing re-stored) and the browser's GET
    tmo = top.get("TIMEOUT", top.get("timeout"))
    okt = isinstance(tmo, ast.Constant) and tmo.value is None
    chk.ob("S7", "cache:get_component_media_cache:no-expiry", m.loc(tmo) if tmo is not None and hasattr(tmo, "lineno") else m.loc(cs[0]), okt,
           "TIMEOUT None at the top level of params: entries never expire" if okt else
           f"the timeout Django will use is {'`' + norm(tmo) + '`' if tmo is not None else 'its default of 300 s (no top-level TIMEOUT key)'}: a script cached at t0 is still 'present' for a render at t0+299 s (nothing is re-stored), the page announces its URL, and the GET at t0+300 s answers 404")
    lim = eff.get("MAX_ENTRIES", top.get("max_entries"))
    okl = lim is not None and not (isinstance(lim, ast.Constant) and not isinstance(lim.value, int))
    if okl and isinstance(lim, ast.Constant):
        okl = lim.value >= 100000
    chk.ob("S7", "cache:get_component_media_cache:entry-limit-effective", m.loc(lim) if lim is not None and hasattr(lim, "lineno") else m.loc(cs[0]), okl,
           f"the entry limit Django will use is `{norm(lim)}`" if okl else
           f"the entry limit Django will use is its default of 300 (configured: `{norm(lim) if lim is not None else 'nothing under OPTIONS'}`; int(None) falls back to the default): scripts of a large page are culled between being cached and being collected / fetched")


def _twin_dump(f, amap) -> str:
    """ast.dump of `f` with the kind (js/css) abstracted in strings and attributes and the function's own local names
    (parameters, assigned names) alpha-renamed in order of first occurrence, so that twins compare equal up to the kind
    and up to the spelling of locals."""
    import copy

    c = copy.deepcopy(f)
    local = {a.arg for a in c.args.args + c.args.kwonlyargs + c.args.posonlyargs}
    local |= {n.id for n in ast.walk(c) if isinstance(n, ast.Name) and isinstance(n.ctx, ast.Store)}
    order: Dict[str, str] = {}

    def ren(name: str) -> str:
        if name in local:
            return order.setdefault(name, f"_L{len(order)}")
        return name

    c.name = "F"
    for n in ast.walk(c):
        if isinstance(n, ast.Constant) and isinstance(n.value, str):
            v = n.value
            for a, b in amap:
                v = v.replace(a, b)
            n.value = v
        elif isinstance(n, ast.Attribute):
            for a, b in amap:
                if n.attr == a:
                    n.attr = b
        elif isinstance(n, ast.arg):
            n.arg = ren(n.arg)
        elif isinstance(n, ast.keyword):
            pass
    # names in source order (ast.walk is breadth-first; use a deterministic pre-order instead)
    def pre(n):
        if isinstance(n, ast.Name):
            n.id = ren(n.id)
        for ch in ast.iter_child_nodes(n):
            pre(ch)

    pre(c)
    for n in ast.walk(c):
        if isinstance(n, ast.FunctionDef) and n.body and isinstance(n.body[0], ast.Expr) and isinstance(n.body[0].value, ast.Constant):
            n.body = n.body[1:] or [ast.Pass()]
    return ast.dump(c)


def s6(chk: Check, proj: Project, w) -> None:
    chk.rule("S6", "the js / css twin functions are identical up to the kind; more specific URL routes come first; the class hash is computed from the full import path")
    dm = proj.mod("dependencies")
    for a, b in (("cache_component_js", "cache_component_css"), ("cache_component_js_vars", "cache_component_css_vars")):
        fa, fb = dm.func(a), dm.func(b)
        da = _twin_dump(fa, [("js", "K"), ("JS", "K")])
        db = _twin_dump(fb, [("css", "K"), ("CSS", "K")])
        ok = da == db
        where = dm.loc(fa)
        if not ok:
            # locate the first differing statement
            for sa, sb in zip(ast.walk(fa), ast.walk(fb)):
                if type(sa) is not type(sb) or (isinstance(sa, ast.Constant) and isinstance(sb, ast.Constant) and isinstance(sa.value, str) and sa.value.replace("js", "K") != str(sb.value).replace("css", "K")):
                    where = dm.loc(sa) if hasattr(sa, "lineno") else where
                    break
        chk.ob("S6", f"dependencies:{a}~{b}:twins-agree", where, ok, f"{a} and {b} are the same code up to js <-> css" if ok else
               f"{a} and {b} differ beyond the js/css kind (e.g. one of them tests or stores the OTHER kind): after a partial eviction the script of one kind is not re-cached although its URL is announced")
    # route order
    up = dm.global_value("urlpatterns")
    routes = []
    for c in ast.walk(up) if up is not None else []:
        if isinstance(c, ast.Call) and last_attr(c.func) == "path" and c.args:
            okr, route = proj.try_fold(dm, c.args[0])
            if okr:
                routes.append((route, c))
    counts = [len(re.findall(r"<", r_)) for r_, _c in routes]
    ok = counts == sorted(counts, reverse=True) and len(routes) >= 2
    chk.ob("S6", "dependencies:urlpatterns:specific-routes-first", dm.loc(routes[0][1]) if routes else dm.loc(dm.tree), ok,
           "routes with more converters precede routes with fewer (a `str` converter also matches dots)" if ok else
           "a route with fewer converters precedes a more specific one: `<str:comp_cls_hash>` also matches dots, so `/cache/<hash>.<input_hash>.js` is captured by the two-part route as an unknown class hash and the announced URL answers 404")
    # no memo in front of the cache backend: every function that asks the backend is undecorated
    MEMO = ("lru_cache", "cache", "cached_property", "memoize")
    nb = 0
    for q, fn in sorted(dm.defs.items()):
        if not isinstance(fn, ast.FunctionDef):
            continue
        asks = any(last_attr(c.func) == "get_component_media_cache" for c in calls(fn)) or any(last_attr(c.func) in ("get_script_content", "_is_script_in_cache") for c in calls(fn))
        if not asks:
            continue
        nb += 1
        memo = [d for d in fn.decorator_list if (dotted(d.func if isinstance(d, ast.Call) else d) or "").split(".")[-1] in MEMO]
        chk.ob("S6", f"dependencies:{q}:no-memo-before-backend", dm.loc(memo[0]) if memo else dm.loc(fn), not memo,
               "reads the cache backend on every call" if not memo else
               f"`@{short(memo[0])}` remembers answers of the cache backend - including misses (None) - and is never invalidated: a script that was missing once (evicted, or requested before the first render) stays 404 after it has been re-cached and its URL re-emitted")
    if nb < 4:
        raise AnalysisError(f"C19-S6: only {nb} backend-reading functions found")
    mm, hf = proj.func("util.misc", "hash_comp_cls")
    md = [c for c in calls(hf, "md5")]
    ok = False
    why = "md5() call not found"
    if md and md[0].args:
        a0 = md[0].args[0]
        base = a0.func.value if isinstance(a0, ast.Call) and isinstance(a0.func, ast.Attribute) and a0.func.attr == "encode" else a0
        if isinstance(base, ast.Name):
            d = assignments(hf, base.id)
            ok = len(d) == 1 and isinstance(d[0][1], ast.Call) and last_attr(d[0][1].func) == "get_import_path" and norm(d[0][1].args[0]) == params(hf)[0]
            why = f"md5 input `{base.id}` = `{norm(d[0][1]) if d and d[0][1] is not None else '?'}`"
        elif isinstance(base, ast.Call) and last_attr(base.func) == "get_import_path":
            ok = True
        else:
            why = f"md5 input is `{short(base)}`"
    chk.ob("S6", "util.misc:hash_comp_cls:hash-of-full-import-path", mm.loc(md[0]) if md else mm.loc(hf), ok,
           "the hash is md5 of the unmodified import path of the class" if ok else
           f"the class hash is not computed from the full, unmodified import path ({why}): classes whose names differ only in characters that are dropped/normalised share a hash, so one component's URL serves another component's code")
    cm, cf = proj.func("component", "Component.__init_subclass__")
    st = [x for x in stmts(cf) if isinstance(x, ast.Assign) and norm(x.targets[0]).endswith("._class_hash")]
    ok = len(st) == 1 and st[0] in cf.body and norm(st[0].value) == f"hash_comp_cls({params(cf)[0]})"
    chk.ob("S6", "component:__init_subclass__:own-hash-for-every-class", cm.loc(st[0]) if st else cm.loc(cf), ok,
           "every class gets its own hash, unconditionally" if ok else
           "the class hash is not assigned unconditionally for every subclass (e.g. skipped when an inherited `_class_hash` exists): a subclass shares its parent's hash, so their scripts collide and register() treats two different classes as the same one")


def s1(chk: Check, proj: Project, w) -> None:
    chk.rule("S1", "scripts are cached before the render returns; vars-cachers cache before returning the hash; presence is asked of the cache backend on every call")
    r = proj.try_func("component", "Component._render_with_id") or proj.try_func("component", "Component._render_impl")
    m, f = r  # type: ignore[misc]
    chk.analysed(fkey(m, f))
    cfg = w.pair.cfgs.get(f)
    dom = cfg.dominators()
    for fn in ("cache_component_js", "cache_component_css"):
        cs = calls(f, fn)
        ok = bool(cs) and any(cfg.dominates(n, cfg.exit, dom) for c in cs for n in cfg.node_containing(c))
        chk.ob("S1", f"component:render:{fn}-dominates-exit", m.loc(cs[0]) if cs else m.loc(f), ok, f"{fn}() is executed on every normal path of the render entry" if ok else f"{fn}() does not dominate the normal exit: a render can emit a script URL that was never (re)cached")
        # ... and precedes the hand-over to component_post_render (which emits)
        post = calls(f, "component_post_render")
        ok2 = bool(cs) and bool(post) and all(any(cfg.dominates(n, pn, dom) for c in cs for n in cfg.node_containing(c)) for p in post for pn in cfg.node_containing(p))
        chk.ob("S1", f"component:render:{fn}-before-emission", m.loc(cs[0]) if cs else m.loc(f), ok2, f"{fn}() precedes component_post_render" if ok2 else f"{fn}() does not precede the emission step")
    dm = proj.mod("dependencies")
    for fn in ("cache_component_js_vars", "cache_component_css_vars"):
        f2 = dm.func(fn)
        chk.analysed(fkey(dm, f2))
        cfg2 = w.pair.cfgs.get(f2)
        dom2 = cfg2.dominators()
        rets = [n for n in cfg2.nodes if n.kind == "return" and isinstance(n.ast, ast.Return) and n.ast.value is not None and not (isinstance(n.ast.value, ast.Constant) and n.ast.value.value is None)]
        guard = [n for n in cfg2.nodes if n.kind == "test" and n.ast is not None and "_is_script_in_cache" in norm(n.ast)]
        stores = calls(f2, "_cache_script")
        ok = bool(rets) and bool(guard) and bool(stores) and all(any(cfg2.dominates(g, r_, dom2) for g in guard) for r_ in rets)
        # the store is in the negative branch of the presence test
        if ok:
            at = cond_atoms(enclosing_stmt(stores[0]))
            ok = any("_is_script_in_cache" in t and ((t.startswith("not ") and pol) or (not t.startswith("not ") and not pol)) for t, pol in at)
        chk.ob("S1", f"dependencies:{fn}:cache-before-return", dm.loc(f2), ok, "the hash is returned only after `if not in cache: store`" if ok else "a hash can be returned without the presence test / store having run")
    # presence test asks the backend every time
    f3 = dm.func("_is_script_in_cache")
    chk.analysed(fkey(dm, f3))
    cfg3 = w.pair.cfgs.get(f3)
    dom3 = cfg3.dominators()
    cv = local_from(f3, lambda v: isinstance(v, ast.Call) and last_attr(v.func) == "get_component_media_cache") or "cache"
    q = [n for n in cfg3.nodes if n.ast is not None and any(isinstance(c, ast.Call) and isinstance(c.func, ast.Attribute) and c.func.attr in ("has_key", "get", "__contains__", "has") and norm(c.func.value) in (cv, "get_component_media_cache()") for c in ast.walk(n.ast))]
    rets3 = [n for n in cfg3.nodes if n.kind == "return"]
    ok = bool(q) and all(any(cfg3.dominates(x, r_, dom3) or x is r_ for x in q) for r_ in rets3)
    chk.ob("S1", "dependencies:_is_script_in_cache:asks-backend-every-time", dm.loc(f3), ok, "every return of _is_script_in_cache is dominated by a query of the cache backend" if ok else "_is_script_in_cache can answer without asking the cache backend (side memo): after an eviction / cache clear the script is never re-cached and its URL answers 404")
    globs = [n for n in body_walk(f3) if isinstance(n, ast.Name) and isinstance(n.ctx, ast.Load) and (r2 := proj.resolve(dm, n.id)) and r2[0] == "global" and n.id not in ("comp_hash_mapping",) and not n.id.isupper()]
    chk.ob("S1", "dependencies:_is_script_in_cache:no-module-state", dm.loc(f3), not globs, "uses no module-level state" if not globs else f"consults module-level `{globs[0].id}`")


def s2(chk: Check, proj: Project, w) -> None:
    chk.rule("S2", "_cache_script, _is_script_in_cache and get_script_content build the key with the same function and the same argument roles")
    dm = proj.mod("dependencies")
    sigs = {}
    for fn in ("_cache_script", "_is_script_in_cache", "get_script_content"):
        f = dm.func(fn)
        chk.analysed(fkey(dm, f))
        cs = calls(f, "_gen_cache_key")
        if len(cs) != 1:
            chk.violated("S2", f"dependencies:{fn}:key", dm.loc(f), f"{fn} builds its cache key with {len(cs)} calls to _gen_cache_key (expected exactly one)")
            continue
        c = cs[0]
        ps = params(f)
        roles = []
        for a in c.args:
            t = norm(a)
            if t.endswith("._class_hash") and t.split(".")[0] in ps:
                roles.append("class_hash")
            elif t in ps:
                roles.append("param:" + t)
            else:
                roles.append("other:" + t)
        sigs[fn] = (roles, c)
    if len(sigs) == 3:
        ref = sigs["_cache_script"][0]
        for fn, (roles, c) in sigs.items():
            ok = roles == ref and roles == ["class_hash", "param:script_type", "param:input_hash"]
            chk.ob("S2", f"dependencies:{fn}:key", dm.loc(c), ok, f"key = _gen_cache_key(class_hash, script_type, input_hash)" if ok else f"{fn} builds the key from {roles}, the writer from {ref}: what is stored is never found")
    f = dm.func("_gen_cache_key")
    rets = [n for n in body_walk(f) if isinstance(n, ast.Return)]
    used = set().union(*[names_in(r) for r in rets]) if rets else set()
    ok = set(params(f)) <= used
    chk.ob("S2", "dependencies:_gen_cache_key:uses-all-parts", dm.loc(f), ok, "the key depends on class hash, script type and input hash" if ok else f"the key ignores {sorted(set(params(f)) - used)}")


def s3(chk: Check, proj: Project, w) -> None:
    chk.rule("S3", "reverse() kwargs, view parameters and URL pattern converters name the same set; class hash / input hash alphabets exclude the separators '.' and '/'")
    dm = proj.mod("dependencies")
    f = dm.func("get_script_url")
    rv = calls(f, "reverse")
    if not rv:
        chk.violated("S3", "dependencies:get_script_url:built-by-reverse", dm.loc(f), "get_script_url no longer builds the URL with django.urls.reverse(<endpoint name>): a hand-formatted path ignores where the project mounted django_components.urls (path('ui/', include(...))), so every announced script URL answers 404 there")
        return
    kw = kwarg(rv[0], "kwargs")
    keys: Set[str] = set()
    for n in ast.walk(kw) if kw is not None else []:
        if isinstance(n, ast.Dict):
            keys |= {k.value for k in n.keys if isinstance(k, ast.Constant)}
    view = dm.func("cached_script_view")
    vps = set(params(view)[1:])
    ok, pats = proj.try_fold(dm, None)
    up = dm.global_value("urlpatterns")
    routes = []
    for c in ast.walk(up) if up is not None else []:
        if isinstance(c, ast.Call) and last_attr(c.func) == "path" and c.args:
            okr, route = proj.try_fold(dm, c.args[0])
            if okr:
                routes.append((route, c))
    conv = set()
    for route, c in routes:
        conv |= set(re.findall(r"<(?:\w+:)?(\w+)>", route))
    okk = keys == vps == conv and bool(keys)
    chk.ob("S3", "dependencies:url-kwargs-view-params-converters", dm.loc(rv[0]), okk, f"reverse kwargs = view params = converters = {sorted(keys)}" if okk else f"reverse kwargs {sorted(keys)}, view params {sorted(vps)}, converters {sorted(conv)} differ: emitted URLs do not resolve to the view")
    for route, c in routes:
        v = c.args[1] if len(c.args) > 1 else None
        chk.ob("S3", f"dependencies:urlpattern:{route}", dm.loc(c), norm(v) == "cached_script_view" if v is not None else False, "route is served by cached_script_view")
    # same endpoint name on both sides
    names = {norm(kwarg(c, "name")) for _r, c in routes if kwarg(c, "name") is not None}
    chk.ob("S3", "dependencies:endpoint-name", dm.loc(rv[0]), names == {norm(rv[0].args[0])} if rv[0].args else False, f"reverse() uses the patterns' name {sorted(names)}")
    ev = Evaluator(proj, w.cg)
    hl, hloc = class_hash_lang(proj, ev)
    a = alphabet_of(hl)
    chk.ob("S3", "misc:class-hash-excludes-url-separators", hloc, not ({".", "/", "?", "#", "%"} & a), "class hash cannot contain '.', '/', '?', '#', '%'" if not ({".", "/"} & a) else "class hash can contain URL pattern separators: the emitted URL resolves to other kwargs or to nothing")
    for fn in ("cache_component_js_vars", "cache_component_css_vars"):
        f2 = dm.func(fn)
        rets = [n.value for n in body_walk(f2) if isinstance(n, ast.Return) and n.value is not None and not isinstance(n.value, ast.Constant)]
        al = set()
        for r in rets:
            al |= alphabet_of(ev.eval(dm, f2, r))
        chk.ob("S3", f"dependencies:{fn}:hash-alphabet", dm.loc(f2), bool(rets) and not ({".", "/"} & al) and len(al) <= 16, f"input hash alphabet is hex ({len(al)} chars)")


def s4(chk: Check, proj: Project, w) -> None:
    chk.rule("S4", "view: the method test comes first and returns 405; unknown class and missing script return 404; calls that can raise on request data come only after those exits; content types = accepted kinds")
    dm = proj.mod("dependencies")
    f = dm.func("cached_script_view")
    chk.analysed(fkey(dm, f))
    first = next((s for s in f.body if not (isinstance(s, ast.Expr) and isinstance(s.value, ast.Constant))), None)
    ok = isinstance(first, ast.If) and "req.method" in norm(first.test) and "GET" in norm(first.test) and any(isinstance(r, ast.Return) and r.value is not None and "NotAllowed" in norm(r.value) for r in first.body)
    chk.ob("S4", "dependencies:cached_script_view:405-first", dm.loc(first) if first is not None else dm.loc(f), ok, "the first statement returns 405 for non-GET" if ok else "the method test is not the first statement / does not return HttpResponseNotAllowed")
    nf = [s for s in stmts(f) if isinstance(s, ast.Return) and s.value is not None and "NotFound" in norm(s.value)]
    conds = [cond_atoms(s) for s in nf]
    has_cls = any(any("comp_cls" in t and ("is None" in t or " not in " in t) and pol for t, pol in c) for c in conds)
    sv = local_from(f, lambda v: isinstance(v, ast.Call) and last_attr(v.func) == "get_script_content") or "script"
    has_script = any(any(f"{sv} is None" in t and pol for t, pol in c) for c in conds)
    chk.ob("S4", "dependencies:cached_script_view:404-unknown-class", dm.loc(nf[0]) if nf else dm.loc(f), has_cls, "unknown class hash -> 404" if has_cls else "no 404 exit for an unknown class hash")
    chk.ob("S4", "dependencies:cached_script_view:404-missing-script", dm.loc(nf[-1]) if nf else dm.loc(f), has_script, "missing script -> 404" if has_script else "no 404 exit for a missing script")
    # raising callees only after the lookups succeeded
    for c in calls(f):
        tg = w.cg.resolve_callee(dm, c, c.func)
        if tg is None or not isinstance(tg[1], ast.FunctionDef):
            continue
        raises = [r for r in ast.walk(tg[1]) if isinstance(r, ast.Raise)]
        if not raises:
            continue
        at = cond_atoms(enclosing_stmt(c))
        ok = any(f"{sv} is None" in t and not pol for t, pol in at)
        # the callee raises on a condition over ITS parameter; "a script was found" says nothing about that parameter
        # (cache keys are built by joining the fields with ':' and a field taken from the URL may contain ':'), so the
        # request value bound to it needs its own 404 exit: a membership test in the same table
        gp = params(tg[1])
        for r in raises:
            for t, pol in cond_atoms(r):
                mm_ = re.match(r"^(\w+) (not in|in) (\w+)$", t)
                if not mm_ or mm_.group(1) not in gp:
                    continue
                i = gp.index(mm_.group(1))
                actual = norm(c.args[i]) if i < len(c.args) else None
                if actual is None or actual not in params(f):
                    continue
                tbl = mm_.group(3)
                guarded = any(((tt == f"{actual} not in {tbl}" and not pl) or (tt == f"{actual} in {tbl}" and pl)) for tt, pl in at)
                chk.ob("S4", f"dependencies:cached_script_view:{actual}-validated-before-{tg[1].name}", dm.loc(c), guarded,
                       f"`{actual}` is tested against {tbl} (404 exit) before {tg[1].name}() is called" if guarded else
                       f"{tg[1].name}() raises when `{actual} {mm_.group(2)} {tbl}`, and no 404 exit tests the request's `{actual}` against {tbl} first: the crafted kind `js:<input_hash>` (the URL converter accepts ':') builds exactly the key of the variables script, the lookup hits, and the view answers 500")
        chk.ob("S4", f"dependencies:cached_script_view:{tg[1].name}-after-404-exits", dm.loc(c), ok,
               f"{tg[1].name}() (which can raise {norm(raises[0].exc.func) if isinstance(raises[0].exc, ast.Call) else '?'}) runs only after both lookups succeeded" if ok else
               f"{tg[1].name}() can raise on the request's script kind and is called before the 404 exits: an unknown kind for a known component answers 500")
    # builtins that VALIDATE their argument raise on crafted request values just like in-package callees do
    RAISING = {"int": "ValueError", "float": "ValueError", "bytes.fromhex": "ValueError", "bytearray.fromhex": "ValueError", "uuid.UUID": "ValueError", "UUID": "ValueError", "base64.b64decode": "binascii.Error", "json.loads": "JSONDecodeError"}
    vps = set(params(f)[1:])
    for c in calls(f):
        nm_ = dotted(c.func) or norm(c.func)
        if nm_ in RAISING and any(isinstance(x, ast.Name) and x.id in vps for a_ in c.args for x in ast.walk(a_)):
            in_try = any(isinstance(a_, ast.Try) and any(c is y for st_ in a_.body for y in ast.walk(st_)) and a_.handlers for a_ in ancestors(c))
            chk.ob("S4", f"dependencies:cached_script_view:{short(c, 40)}-cannot-raise-on-request-data", dm.loc(c), in_try,
                   f"`{short(c, 40)}` is inside a try with a handler" if in_try else
                   f"`{short(c, 40)}` parses a value taken from the URL and raises {RAISING[nm_]} when it is malformed: `GET /components/cache/<hash>.zzzzzz.js` answers 500 instead of 404")
    # table agreement
    okc, table = proj.try_fold(dm, dm.global_value("_CONTENT_TYPES"))
    kinds = set(table) if okc and isinstance(table, dict) else set()
    cs = dm.func("_cache_script")
    accepted = set()
    for n in body_walk(cs):
        if isinstance(n, ast.Compare) and norm(n.left) == "script_type" and isinstance(n.ops[0], (ast.In, ast.NotIn)):
            okf, v = proj.try_fold(dm, n.comparators[0])
            if okf:
                accepted = set(v)
    chk.ob("S4", "dependencies:_CONTENT_TYPES-vs-_cache_script", dm.loc(cs), kinds == accepted and bool(kinds), f"content types {sorted(kinds)} = kinds accepted by _cache_script {sorted(accepted)}")
    # the body the view returns is what the client receives: the library's own middleware must leave it alone
    mw = dm.cls("ComponentDependencyMiddleware")
    pr = next((x for x in mw.body if isinstance(x, ast.FunctionDef) and any(last_attr(c.func) == "render_dependencies" for c in calls(x))), None)
    if pr is None or not (okc and isinstance(table, dict)):
        chk.undecided("S4", "dependencies:ComponentDependencyMiddleware:leaves-script-responses-alone", dm.loc(mw), "middleware method calling render_dependencies / content type table not found")
    else:
        chk.analysed(f"{dm.name}:ComponentDependencyMiddleware.{pr.name}")
        rc_ = next(c for c in calls(pr) if last_attr(c.func) == "render_dependencies")
        pref = []
        for e, pol in flatten_conj(path_conditions(enclosing_stmt(rc_))):
            if pol and isinstance(e, ast.Call) and isinstance(e.func, ast.Attribute) and e.func.attr == "startswith" and "Content-Type" in norm(e.func.value) and e.args:
                okp, pv = proj.try_fold(dm, e.args[0])
                if okp:
                    pref.append(pv if isinstance(pv, tuple) else (pv,))
        if not pref:
            chk.undecided("S4", "dependencies:ComponentDependencyMiddleware:leaves-script-responses-alone", dm.loc(rc_), "no Content-Type prefix test guards render_dependencies")
        else:
            hit = sorted(ct for ct in table.values() if all(any(ct.startswith(p_) for p_ in alt) for alt in pref))
            chk.ob("S4", "dependencies:ComponentDependencyMiddleware:leaves-script-responses-alone", dm.loc(rc_), not hit,
                   f"render_dependencies runs only for Content-Type prefixes {pref}; the view's own {sorted(table.values())} never match" if not hit else
                   f"the middleware post-processes responses whose Content-Type starts with {pref}, which includes the script view's own {hit}: a component script containing `</body>` / `<head>` text gets the dependency manager's <script> tags spliced into the JS / CSS that is served")


def s5(chk: Check, proj: Project, w, rule: str = "S5") -> None:
    chk.rule(rule, "every decision to emit or to cache a component script tests Component.js / .css with the same predicate (is_nonempty_str)")
    dm = proj.mod("dependencies")
    n = 0
    for fn in ("_prepare_tags_and_urls", "cache_component_js", "cache_component_css", "cache_component_js_vars", "cache_component_css_vars"):
        f = dm.func(fn)
        chk.analysed(fkey(dm, f))
        for st in stmts(f):
            if isinstance(st, ast.If):
                t = st.test
                attrs = {norm(x) for x in ast.walk(t) if isinstance(x, ast.Attribute) and x.attr in ("js", "css") and isinstance(x.value, ast.Name)}
                for a in sorted(attrs):
                    n += 1
                    ok = f"is_nonempty_str({a})" in norm(t)
                    chk.ob(rule, f"dependencies:{fn}:{short(t, 60)}", dm.loc(st), ok, f"decision on `{a}` uses is_nonempty_str" if ok else f"`{short(t)}` decides on `{a}` by plain truthiness while the other side uses is_nonempty_str: a whitespace-only script is announced but never cached (404), or cached but never announced")
    chk.floor(rule, n, 8)
    # a test that names a kind asks about THAT kind's attribute
    pf2 = dm.func("_prepare_tags_and_urls")
    for st in [x for x in ast.walk(pf2) if isinstance(x, ast.If)]:
        kinds_ = {c_.comparators[0].value for c_ in ast.walk(st.test) if isinstance(c_, ast.Compare) and isinstance(c_.ops[0], ast.Eq) and isinstance(c_.comparators[0], ast.Constant) and c_.comparators[0].value in ("js", "css") and "type" in norm(c_.left)}
        attrs_ = {x.attr for x in ast.walk(st.test) if isinstance(x, ast.Attribute) and x.attr in ("js", "css") and isinstance(x.value, ast.Name)}
        if len(kinds_) == 1 and attrs_:
            ok = attrs_ == kinds_
            chk.ob(rule, f"dependencies:_prepare_tags_and_urls:{short(st.test, 60)}:kind-matches-attribute", dm.loc(st), ok,
                   f"the `{next(iter(kinds_))}` branch tests `.{next(iter(kinds_))}`" if ok else
                   f"`if {short(st.test)}` decides about the `{next(iter(kinds_))}` script by looking at `.{next(iter(attrs_))}`: in fragment mode a CSS-only component's stylesheet URL is never declared to the loader, and a JS-only component gets a bogus .css URL")
    # every OTHER use of the predicate in this module asks the same thing: the class's script as attribute lookup sees it
    # (inheritance-aware), never the class's own media record
    for mm, q, fn in proj.all_funcs():
        if mm is not dm:
            continue
        for c in calls(fn, "is_nonempty_str"):
            if not c.args:
                continue
            src_txt = norm(c.args[0])
            own_only = "_component_media" in src_txt or "__dict__" in src_txt or "vars(" in src_txt
            if own_only:
                chk.violated(rule, f"dependencies:{q}:{short(c, 60)}", dm.loc(c),
                             f"`{short(c)}` in {q} asks the class's OWN media record, while caching and URL emission ask `comp_cls.js` / `.css` (which a subclass inherits): for a component that inherits its script the URL is announced and the script cached, but this test says 'none' - a GET of the announced URL answers 404")


def s9_stored_text(chk: Check, proj: Project) -> None:
    chk.rule("S9", "what the endpoint serves is what the class declares: the value written to the script cache is the script parameter itself, at most `.strip()`ped at its ends - no transformation that rewrites the inside of the text")
    dm = proj.mod("dependencies")
    f = dm.func("_cache_script")
    chk.analysed(fkey(dm, f))
    sp = params(f)[1]
    sets = [c for c in calls(f) if isinstance(c.func, ast.Attribute) and c.func.attr == "set" and len(c.args) >= 2]
    chk.floor("S9", len(sets), 1)
    for c in sets:
        v = c.args[1]
        if isinstance(v, ast.Name) and v.id != sp:
            d = [x for _s, x in assignments(f, v.id) if x is not None]
            v = d[0] if len(d) == 1 else v
        ok = norm(v) in (sp, f"{sp}.strip()")
        chk.ob("S9", "dependencies:_cache_script:stored-text-is-the-script", dm.loc(c), ok,
               f"cache.set(key, {norm(v)})" if ok else
               f"`{short(c)}` stores a transformed text (`{norm(v)}`): the body served under the announced URL is no longer exactly the component's JS / CSS (whitespace inside a JS template literal or a CSS `content:` string is rewritten)")


def s11_kind_flow(chk: Check, proj: Project, w, rule: str = "S11") -> None:
    chk.rule(rule, "kind flow: every place that demands one script kind (Media(js=..) / Media(css=..), a callee's ScriptType argument, a wire key or keyword that names a kind, a value chosen under a test of the CSS / JS placeholder constant) receives only values of that kind (abstract interpretation of the dependency module with the kind lattice {js, css}; sources are ScriptType arguments, render_js / render_css and callee summaries), and no kind-carrying result of a helper is dropped")
    from ..kindflow import KindFlow

    dm = proj.mod("dependencies")
    kf = KindFlow(proj, w.cg, dm)
    n = 0
    for q, fn in sorted(dm.defs.items()):
        if not isinstance(fn, ast.FunctionDef) or isinstance(getattr(fn, "parent", None), (ast.FunctionDef, ast.ClassDef)):
            continue
        sk = kf.sinks(fn)
        if sk:
            chk.analysed(fkey(dm, fn))
        seen = set()
        for s_ in sk:
            n += 1
            key = f"dependencies:{s_.key}"
            if key in seen:
                key += f"#{sum(1 for k in seen if k.startswith(key)) + 1}"
            seen.add(key)
            chk.ob(rule, key, dm.loc(s_.node), s_.ok,
                   f"`{short(s_.expr, 70)}` carries {sorted(s_.got) or 'no kind'}; the sink takes {s_.want}" if s_.ok else
                   f"`{short(s_.expr, 90)}` can carry {sorted(t_ for t_ in s_.got if t_ in ('js', 'css') and t_ != s_.want)} values but is handed to {s_.what}, which takes {s_.want}: a script URL / tag of the other kind is announced as {s_.want} (e.g. a `.js` URL in a <link rel=stylesheet>, served as text/javascript), and the {s_.want} it displaced is not announced at all",
                   detail={"want": s_.want, "got": sorted(s_.got)})
        for nm_, k in kf.unpacked_unused(fn):
            chk.violated(rule, f"dependencies:{q}:{nm_.id}:result-used", dm.loc(nm_), f"`{nm_.id}` receives the {sorted(k)} part of a helper's result and is never read: those scripts are collected but never announced / inserted")
    chk.paths += kf.n_eval
    chk.floor(rule, n, 12)


def s16_inlined_means_cached(chk: Check, proj: Project) -> None:
    chk.rule("S16", "what a document render inlines and marks as LOADED under a script URL is what the endpoint would serve for that URL: the text get_script_tag wraps comes from the cache lookup alone, and a missing entry ends the render with an error - a fallback that takes the text from the class when the entry is gone lets the render succeed and announce `/components/cache/<hash>.js` as loaded while the endpoint (which reads only the cache) answers 404 for it")
    dm = proj.mod("dependencies")
    f = dm.func("get_script_tag")
    chk.analysed(fkey(dm, f))
    cv = local_from(f, lambda v: isinstance(v, ast.Call) and last_attr(v.func) == "get_script_content")
    if cv is None:
        chk.undecided("S16", "dependencies:get_script_tag:text-from-the-cache-only", dm.loc(f), "the local holding the cache lookup's result was not found")
        return
    refill = []
    for st, v in assignments(f, cv):
        if v is None or (isinstance(v, ast.Call) and last_attr(v.func) == "get_script_content"):
            continue
        at = flatten_conj(path_conditions(st))
        missing = any(pol and isinstance(e, ast.Compare) and norm(e.left) == cv and isinstance(e.ops[0], ast.Is) and isinstance(e.comparators[0], ast.Constant) and e.comparators[0].value is None for e, pol in at) or any((not pol) and norm(e) == cv for e, pol in at)
        uses_old = any(isinstance(x, ast.Name) and x.id == cv for x in ast.walk(v))
        if missing or not uses_old:
            refill.append(st)
    raises_on_missing = any(any(pol and f"{cv} is None" == norm(e) for e, pol in flatten_conj(path_conditions(r))) for r in ast.walk(f) if isinstance(r, ast.Raise))
    ok = not refill and raises_on_missing
    chk.ob("S16", "dependencies:get_script_tag:text-from-the-cache-only", dm.loc(refill[0]) if refill else dm.loc(f), ok,
           f"`{cv}` is the cache entry (wrapped), and a missing entry raises" if ok else
           (f"`{short(refill[0])}` fills `{cv}` from somewhere else when the cache has no entry: after an eviction between the component render and the post-processing (render_dependencies=False + middleware, or a cache clear) the document is rendered, the script URL is listed under loadedJsUrls / loadedCssUrls, and a GET of that URL answers 404" if refill else "a missing cache entry does not raise"))


def _response_ctor_status(proj: Project, dm, e: ast.AST):
    """HTTP status class a `return X(...)` produces, for the response constructors the view uses."""
    nm_ = last_attr(e.func) if isinstance(e, ast.Call) else None
    table = {"HttpResponseNotFound": 404, "HttpResponseNotAllowed": 405, "HttpResponse": 200, "HttpResponseBadRequest": 400, "HttpResponseForbidden": 403, "HttpResponseGone": 410}
    if nm_ in table:
        st = table[nm_]
        sk = kwarg(e, "status") if isinstance(e, ast.Call) else None
        if sk is not None:
            ok, v = proj.try_fold(dm, sk)
            st = v if ok else None
        return st
    return None


def s12_served_iff_announced(chk: Check, proj: Project, w, rule: str = "S12") -> None:
    chk.rule(rule, "the endpoint refuses (404) only for the reasons emission knows about: the class hash is not in comp_hash_mapping, the kind is not a served kind, or the script is not in the cache - every other test on a 404 exit (a predicate over the class, the registry, settings ...) withholds a script whose URL the render announced, unless the same predicate also guards the caching / emission side")
    dm = proj.mod("dependencies")
    f = dm.func("cached_script_view")
    chk.analysed(fkey(dm, f))
    vps = params(f)
    # locals with a reviewed provenance: the mapping lookup and the cache lookup
    prov: Dict[str, str] = {}
    for st in stmts(f):
        if isinstance(st, ast.Assign) and len(st.targets) == 1 and isinstance(st.targets[0], ast.Name) and isinstance(st.value, ast.Call):
            c = st.value
            if isinstance(c.func, ast.Attribute) and c.func.attr == "get" and norm(c.func.value) == "comp_hash_mapping":
                prov[st.targets[0].id] = "mapping"
            elif last_attr(c.func) == "get_script_content":
                prov[st.targets[0].id] = "cache"
    if set(prov.values()) != {"mapping", "cache"}:
        raise AnalysisError(f"C19-{rule}: the view's two lookups were not found ({prov})")
    # predicates the emission side applies to a class (so the view may apply them too)
    emit_preds: Set[str] = set()
    for fn in ("_prepare_tags_and_urls", "cache_component_js", "cache_component_css"):
        for c in calls(dm.func(fn)):
            if isinstance(c.func, ast.Name):
                emit_preds.add(c.func.id)
    nf = [s for s in stmts(f) if isinstance(s, ast.Return) and isinstance(s.value, ast.Call) and (_response_ctor_status(proj, dm, s.value) or 0) >= 400 and _response_ctor_status(proj, dm, s.value) != 405]
    chk.floor(rule, len(nf), 2)
    for r in nf:
        def atom_ok(e: ast.AST) -> bool:
            if isinstance(e, ast.UnaryOp) and isinstance(e.op, ast.Not):
                return atom_ok(e.operand)
            if isinstance(e, ast.BoolOp):
                return all(atom_ok(v) for v in e.values)
            t = norm(e)
            if "req.method" in t or "request.method" in t:
                return True
            if isinstance(e, ast.Compare) and len(e.ops) == 1:
                l, rr = e.left, e.comparators[0]
                if isinstance(e.ops[0], (ast.Is, ast.IsNot)) and isinstance(l, ast.Name) and l.id in prov and isinstance(rr, ast.Constant) and rr.value is None:
                    return True
                if isinstance(e.ops[0], (ast.In, ast.NotIn)) and isinstance(l, ast.Name) and l.id in vps and isinstance(rr, ast.Name) and rr.id in ("_CONTENT_TYPES", "comp_hash_mapping"):
                    return True
            if isinstance(e, ast.Name) and e.id in prov:
                return True
            if isinstance(e, ast.Call) and isinstance(e.func, ast.Name) and e.func.id in emit_preds:
                return True
            return False

        extra = [(norm(e), pol) for e, pol in flatten_conj(path_conditions(r)) if not atom_ok(e)]
        # only conditions that can SELECT this exit matter: negated earlier guards (pol False of an exiting if) are the
        # complement of reviewed exits; keep those whose atom is not one of the reviewed forms
        chk.ob(rule, f"dependencies:cached_script_view:{short(r, 40)}:only-known-reasons", dm.loc(r), not extra,
               "this refusal depends only on the hash lookup, the kind table and the cache lookup" if not extra else
               f"this {_response_ctor_status(proj, dm, r.value)} exit is also selected by `{'` / `'.join(('' if p_ else 'not ') + t_ for t_, p_ in extra)}` - a condition neither the caching nor the URL-emitting side tests: a component that is rendered (so its script is cached and its URL announced) but fails this test, e.g. one rendered through its class without being registered, gets 404 for the URL the page just told the browser to load")


def s13_status_survives_middleware(chk: Check, proj: Project, w, rule: str = "S13") -> None:
    chk.rule(rule, "the status the view chose is the status the client sees: the library's own middleware returns the response object it was given (its content may be rewritten in place) - a newly constructed response must be given the original's status_code")
    dm = proj.mod("dependencies")
    mw = dm.cls("ComponentDependencyMiddleware")
    n = 0
    for fn in [x for x in mw.body if isinstance(x, (ast.FunctionDef, ast.AsyncFunctionDef))]:
        ps = params(fn)
        if len(ps) < 2 or fn.name == "__init__":
            continue
        # which parameter / local is "the response": parameters named in a return, or locals assigned from get_response
        resp_names = {p_ for p_ in ps[1:] if any(isinstance(r, ast.Return) and r.value is not None and p_ in names_in(r.value) for r in ast.walk(fn))}
        for st in ast.walk(fn):
            if isinstance(st, ast.Assign) and len(st.targets) == 1 and isinstance(st.targets[0], ast.Name) and any(isinstance(c, ast.Call) and ("get_response" in norm(c.func) or last_attr(c.func) in {m_.name for m_ in mw.body if isinstance(m_, (ast.FunctionDef, ast.AsyncFunctionDef))}) for c in ast.walk(st.value)):
                resp_names.add(st.targets[0].id)
        chk.analysed(f"{dm.name}:ComponentDependencyMiddleware.{fn.name}")
        for r in [x for x in ast.walk(fn) if isinstance(x, ast.Return) and x.value is not None]:
            v = r.value
            if isinstance(v, ast.Await):
                v = v.value
            n += 1
            if isinstance(v, ast.Name) and v.id in resp_names:
                chk.holds(rule, f"dependencies:ComponentDependencyMiddleware.{fn.name}:{short(r, 40)}", dm.loc(r), "returns the response object it received")
                continue
            if isinstance(v, ast.Call) and (last_attr(v.func) in {m_.name for m_ in mw.body if isinstance(m_, (ast.FunctionDef, ast.AsyncFunctionDef))} or "get_response" in norm(v.func)):
                chk.holds(rule, f"dependencies:ComponentDependencyMiddleware.{fn.name}:{short(r, 40)}", dm.loc(r), "returns what the wrapped step returned")
                continue
            if isinstance(v, (ast.Name, ast.Call)):
                # a fresh response: how was it built, and is its status copied from the original?
                defs_ = [x for _s, x in assignments(fn, v.id) if x is not None] if isinstance(v, ast.Name) else [v]
                vid = v.id if isinstance(v, ast.Name) else "<returned expression>"
                fresh = [d for d in defs_ if isinstance(d, ast.Call) and (last_attr(d.func) or "").endswith("Response")]
                if fresh:
                    copied = any(isinstance(s_, ast.Assign) and norm(s_.targets[0]) == f"{vid}.status_code" and any(norm(s_.value) == f"{rn}.status_code" for rn in resp_names) for s_ in ast.walk(fn)) or \
                        any(kwarg(d, "status") is not None and any(norm(kwarg(d, "status")) == f"{rn}.status_code" for rn in resp_names) for d in fresh)
                    chk.ob(rule, f"dependencies:ComponentDependencyMiddleware.{fn.name}:{short(r, 40)}", dm.loc(fresh[0]), copied,
                           "the rebuilt response takes the original's status_code" if copied else
                           f"`{short(fresh[0])}` builds a NEW response (status 200) in place of the one the view returned and never copies `status_code`: the script endpoint's 404 (unknown class / kind / missing script) and 405 (non-GET) - empty text/html responses, so they take this path - reach the client as 200")
                    continue
            chk.undecided(rule, f"dependencies:ComponentDependencyMiddleware.{fn.name}:{short(r, 40)}", dm.loc(r), f"cannot tell whether `{short(v)}` is the response that was passed in")
    chk.floor(rule, n, 2)


MANIFEST = {
    "text": "Decides the structural chain that makes an emitted script URL resolvable: cachers dominate the render's exit and precede emission; presence is re-asked of the backend each time; writer / presence test / reader agree on the cache key; URL kwargs, view parameters and URL patterns agree and the class hash cannot contain the separators; the view's 405/404 exits precede anything that can raise on request data; emission and caching use the same predicate. Also: js/css twin functions agree up to the kind, more specific routes first, the class hash is md5 of the unmodified import path and assigned for every class, no memo in front of the cache backend, and the own backend's entry limit is effective. Round 4 / triage: a request value bound to a raising callee's parameter has its own 404 exit, the URL is built by reverse(), cache-key fields are unchanged. Round 5: the library's middleware leaves the script view's own content types alone (prefix test evaluated against the content-type table). Round 6: the cached text is the script (at most stripped at its ends); every is_nonempty_str decision asks the inheritance-aware attribute, never the class's own media record. Round 7: builtins that validate a request value cannot raise out of the view; a test that names a kind looks at that kind's attribute. Round 8: kind flow - an abstract interpretation of the dependency module over the lattice {js, css} (sources: ScriptType arguments, render_js / render_css, callee summaries; sinks: Media(js=/css=), ScriptType-keyed helpers, wire keys, placeholder replacements) shows every announced URL / tag is announced under its own kind and none is dropped; the view's 404 exits depend only on facts the emitting side also depends on (hash lookup, kind table, cache lookup, emission predicates); the library's middleware hands back the response object it received or copies its status.",
    "note": "Trusted: django.urls.reverse and path converters; the cache backend keeps what is set until evicted. Not decided: that served bytes equal the component's code over histories with evictions.",
    "technique": "dominator-based ordering, sibling/table agreement, alphabet domain, js/css kind-flow abstract interpretation",
}
