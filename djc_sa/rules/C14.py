"""C14 — root elements, and only they, carry the instance's render id (DESIGN.md section 3, C14).

S1 single source of identity: one gen_id() per render; the same value reaches Component.id (metadata stack, LIFO),
   the ComponentContext, the context key, the registries, the deferred renderer, the root-attribute step and the marker.
S2 the id's alphabet/length is what the reader patterns expect; the generator draws from an unseedable source.
S3 attribute hand-over: child_component_attrs is filled from the HTML step's result and consumed per child (no bulk ops).
S4 iterative composition: only the root runs the queue loop, and a component's own template always carries the key.
"""
from __future__ import annotations

import ast
import re
from typing import List, Optional, Set, Tuple

from ..absstr import Evaluator, simplify
from ..astq import assignments, calls, kwarg, params, stmts
from ..callgraph import fkey
from ..cfg import always_exits, cond_atoms
from ..regexlang import included, segs_regex, ASCII_WORD, Lang, Seg, show
from ..report import Check
from ..source import AnalysisError, Module, Project, ancestors, assign_targets, body_walk, dotted, enclosing_func, enclosing_stmt, last_attr, norm, parent, qual_of, short
from .common import world
from .markers import compiled_regex, render_placeholder_writer, root_attr_shapes


def traces_to_gen_id(w, m: Module, f, e: Optional[ast.AST], depth: int = 0, seen: Optional[Set] = None) -> Tuple[bool, str]:
    """Does expression `e` (a plain variable) always hold the result of THE gen_id() call of this render?"""
    seen = seen or set()
    if e is None or depth > 8:
        return False, "too deep"
    if not isinstance(e, ast.Name):
        return False, f"`{short(e)}` is not a plain variable"
    k = (id(f), e.id)
    if k in seen:
        return True, "cycle"
    seen.add(k)
    asg = assignments(f, e.id)
    if asg:
        if len(asg) != 1:
            return False, f"`{e.id}` is assigned {len(asg)} times in {f.name}"
        v = asg[0][1]
        if isinstance(v, ast.Call) and last_attr(v.func) == "gen_id":
            return True, f"gen_id() in {f.name}"
        if isinstance(v, ast.Name):
            return traces_to_gen_id(w, m, f, v, depth + 1, seen)
        return False, f"`{e.id}` = `{short(v)}` in {f.name}"
    if e.id in params(f):
        fk = fkey(m, f)
        sites = [x for x in w.cg.callers(fk) if isinstance(x[1], ast.Call)]
        if not sites:
            return False, f"parameter `{e.id}` of {f.name} has no in-package caller"
        ps = params(f)
        for ck, site, _k in sites:
            cm, cf = w.cg.funcs[ck]
            off = 1 if isinstance(site.func, ast.Attribute) and ps[:1] in (["self"], ["cls"]) else 0
            idx = ps.index(e.id) - off
            arg = site.args[idx] if 0 <= idx < len(site.args) else kwarg(site, e.id)
            ok, why = traces_to_gen_id(w, cm, cf, arg, depth + 1, seen)
            if not ok:
                return False, f"caller {cf.name}: {why}"
        return True, "through parameters"
    outer = enclosing_func(f)
    if outer is not None:
        return traces_to_gen_id(w, m, outer, e, depth + 1, seen)
    return False, f"`{e.id}` unbound"


def run(chk: Check, proj: Project) -> None:
    chk.explanation = (
        "Identity flow of the render id from its single generation site to every place that uses it (def-use through "
        "parameters and closures), LIFO discipline of the metadata stack behind Component.id, id alphabet vs reader "
        "patterns, entropy source of the generator, per-child hand-over of root attributes, and the control dependence "
        "that keeps composition iterative."
    )
    chk.not_decided = ["which elements the external HTML parser treats as roots", "'no other element carries the id' (behaviour of djc_core_html_parser)"]
    chk.trusted_base = ["djc_core_html_parser.set_html_attributes sets root_attributes on exactly the top-level elements"]
    w = world(proj)
    s1(chk, proj, w)
    s2(chk, proj, w)
    s3(chk, proj, w)
    s4(chk, proj, w)
    s5(chk, proj, w)
    s6(chk, proj, w)
    s7(chk, proj, w)
    from . import C06 as _C06
    from . import C07 as _C07

    chk.borrow("S9", "Component.id reports the render running IN THIS THREAD: the metadata stack behind it is thread-confined (as_view() shares one instance between request threads) - with a plain per-instance deque a second thread's render of the same instance pushes on top, and Component.id reports that render's id while the root elements carry this render's (shared with C07-S1-I)",
               lambda sub: _C07.s1i_shared_instances(sub, proj, w), only=lambda o: "_metadata_stack" in o.construct or "thread-confined" in o.construct)

    chk.borrow("S8", "Component.id reports the render that is RUNNING: the metadata entry pushed for a render is popped also when the render's body raises (try / finally around the yield) - otherwise a failed inner render of the same instance (a tree component that renders itself for its children and skips a failing child) leaves its entry on top, and the surviving outer render reports the failed render's id while its root elements carry its own (shared with C06-S2a)",
               lambda sub: _C06.s2a_generators(sub, proj, w), only=lambda o: "_with_metadata" in o.construct)


def s7(chk: Check, proj: Project, w) -> None:
    from . import C01

    chk.borrow("S7", "a nested instance's placeholder survives every escaping step on its way to the page (it is safe HTML), otherwise the instance and its marked root elements never appear (shared with C01-S6)",
               lambda sub: C01.s6(sub, proj, w), only=lambda o: "returns-safe-html" in o.construct)
    chk.rule("S7b", "Component.id equals the marker during the WHOLE deferred render of the instance: the template is rendered (and the template_rendered signal sent) inside `with <component>._with_metadata(<this render's metadata>)`, not only the hook before it")
    m, f = proj.func("component", "Component._gen_component_renderer.renderer")
    chk.analysed(fkey(m, f))
    rend = [c for c in calls(f) if isinstance(c.func, ast.Attribute) and c.func.attr == "render" and norm(c.func.value) == "template"]
    sig = [c for c in calls(f) if isinstance(c.func, ast.Attribute) and c.func.attr == "send"]
    if not rend:
        chk.undecided("S7b", "component:renderer:template-rendered-under-metadata", m.loc(f), "template.render(...) not found in the deferred renderer")
        return
    for c in rend + sig:
        under = [a for a in ancestors(c) if isinstance(a, ast.With) and any(isinstance(it.context_expr, ast.Call) and last_attr(it.context_expr.func) == "_with_metadata" for it in a.items)]
        what = "template.render" if c in rend else "template_rendered.send"
        chk.ob("S7b", f"component:renderer:{what}-under-metadata", m.loc(c), bool(under),
               f"{what}(...) runs inside `with ..._with_metadata(metadata)`" if under else
               f"`{short(enclosing_stmt(c))}` runs OUTSIDE the `_with_metadata` block: while the template renders, Component.id / .input (read by a callable in the context, a signal receiver, a slot function closing over the component) raise 'outside of rendering execution' or - for a re-entrant instance - report an outer render's id, which is not the id on the marker")


def s6(chk: Check, proj: Project, w) -> None:
    chk.rule("S6", "the parent relation and the attribute hand-over have no gaps: the isolated copy forwards the component key whenever the context has it (no other condition); the root-attribute step returns the HTML parser's result on every path; the attributes of the child being processed are looked up afresh in every queue iteration")
    cm, cf = proj.func("context", "make_isolated_context_copy")
    chk.analysed(fkey(cm, cf))
    st = [x for x in stmts(cf) if isinstance(x, ast.Assign) and isinstance(x.targets[0], ast.Subscript) and norm(x.targets[0].slice) == "_COMPONENT_CONTEXT_KEY"]
    if len(st) != 1:
        chk.undecided("S6", "context:make_isolated_context_copy:component-key-forwarded", cm.loc(cf), f"{len(st)} stores of the component key")
    else:
        atoms = cond_atoms(st[0])
        extra = [(t, pol) for t, pol in atoms if not (pol and t.startswith("_COMPONENT_CONTEXT_KEY in "))]
        ok = not extra
        chk.ob("S6", "context:make_isolated_context_copy:component-key-forwarded", cm.loc(st[0]), ok,
               "the component key is copied whenever the source context has it" if ok else
               f"the component key is forwarded only if additionally `{'not ' if not extra[0][1] else ''}{extra[0][0]}`: an isolated / `only` component rendered under that condition (e.g. inside a {{% for %}} loop) does not see its parent, is treated as a root and rendered recursively on the spot - RecursionError at ~50 nesting levels, and no inherited root attributes")
    dm, df = proj.func("dependencies", "set_component_attrs_for_js_and_css")
    chk.analysed(fkey(dm, df))
    pc = [c for c in calls(df, "set_html_attributes")]
    rets = [r for r in stmts(df) if isinstance(r, ast.Return)]
    okr = len(pc) == 1 and len(rets) == 1 and rets[0] in df.body and enclosing_stmt(pc[0]) in df.body
    if okr and isinstance(rets[0].value, ast.Tuple) and len(rets[0].value.elts) == 2 and isinstance(enclosing_stmt(pc[0]), ast.Assign) and isinstance(enclosing_stmt(pc[0]).targets[0], ast.Tuple):
        okr = norm(rets[0].value.elts[1]) == norm(enclosing_stmt(pc[0]).targets[0].elts[1])
    chk.ob("S6", "dependencies:set_component_attrs_for_js_and_css:always-through-the-html-parser", dm.loc(rets[0]) if rets else dm.loc(df), okr,
           "one return; the child map it returns is the second result of set_html_attributes, which is called unconditionally" if okr else
           "the function can return without (or with something other than) the HTML parser's child map: a shortcut that derives the children from a regex match reports only part of the nested components, so the others' root elements lack the enclosing component's id")
    # list-content flow: what reaches set_html_attributes(root_attributes=...)
    from .markers import root_attr_elems

    _m, _f, _call, elems = root_attr_elems(proj)
    if elems is None:
        # a loop that copies the list through a filter: which attributes can it drop?
        filt = [lp for lp in ast.walk(df) if isinstance(lp, ast.For) and any(isinstance(i, ast.If) and any(isinstance(c_, ast.Call) and isinstance(c_.func, ast.Attribute) and c_.func.attr in ("lower", "casefold", "upper") for c_ in ast.walk(i.test)) for i in ast.walk(lp))]
        if filt:
            chk.violated("S6", "dependencies:set_component_attrs_for_js_and_css:root-attribute-list", dm.loc(filt[0]),
                         f"`for {short(filt[0].target)} in {short(filt[0].iter)}` drops attributes that are equal up to LETTER CASE before they are applied: render ids are case-sensitive ([0-9a-zA-Z]), so a component whose id equals an inherited id up to case (p7XmB2 / P7xMb2) loses its own marker - the shared root carries one id instead of both")
        else:
            chk.undecided("S6", "dependencies:set_component_attrs_for_js_and_css:root-attribute-list", dm.loc(pc[0]) if pc else dm.loc(df), "construction of the root-attribute list not understood")
    else:
        ps = params(df)
        inherited = [e for e in elems if e.opaque and any(isinstance(x, ast.Name) and x.id in ps for x in ast.walk(e.expr))]
        oki = bool(inherited) and all(not e.kills and all(pol and isinstance(t, ast.Name) and t.id == norm(e.expr) for t, pol in e.cond) for e in inherited)
        chk.ob("S6", "dependencies:set_component_attrs_for_js_and_css:inherited-attributes-kept", dm.loc(inherited[0].expr) if inherited else dm.loc(df), oki,
               f"everything in `{norm(inherited[0].expr)}` (the ids handed down by the parents) is put on this component's roots" if oki else
               "the attributes handed down by the parent do not reach the root-attribute list on every path: a root element of a nested component lacks the enclosing components' ids")
        own = [e for e in elems if not e.opaque]
        for e in own:
            names = {x.id for x in ast.walk(e.expr) if isinstance(x, ast.Name)} & set(ps)
            extra = [(t, pol) for t, pol in e.cond if not (pol and isinstance(t, ast.Name) and t.id in names)]
            okown = not extra and not e.kills
            why = ""
            if e.kills:
                why = "it is replaced when `" + " and ".join(("" if pol else "not ") + norm(t) for t, pol in e.kills[0]) + "`"
            elif extra:
                why = "it is added only if additionally `" + ("" if extra[0][1] else "not ") + norm(extra[0][0]) + "`"
            chk.ob("S6", f"dependencies:set_component_attrs_for_js_and_css:own-attribute-{norm(e.expr)[:40]}", dm.loc(e.expr), okown,
                   f"`{norm(e.expr)}` is on the root list whenever `{'/'.join(sorted(names)) or 'always'}` is given" if okown else
                   f"`{norm(e.expr)}` does not always reach the root elements: {why} - e.g. a component with CSS variables (get_css_data) has no `data-djc-id-<render id>` on any of its roots, and a nested component that is one of its roots does not inherit the id either")
        chk.floor("S6-own-attributes", len(own), 2)
    pm, pf = proj.func("perfutil.component", "component_post_render")
    loopfn = None
    for c in calls(pf):
        tg = w.cg.resolve_callee(pm, c, c.func)
        if tg is not None and isinstance(tg[1], ast.FunctionDef) and any(isinstance(x, ast.While) for x in ast.walk(tg[1])):
            loopfn = tg
    if loopfn is None and any(isinstance(x, ast.While) for x in ast.walk(pf)):
        loopfn = (pm, pf)
    if loopfn is None:
        raise AnalysisError("queue loop not found")
    lm, lf = loopfn
    chk.analysed(fkey(lm, lf))
    loop = next(x for x in ast.walk(lf) if isinstance(x, ast.While))
    pops = [x for x in ast.walk(loop) if isinstance(x, ast.Assign) and isinstance(x.value, ast.Call) and isinstance(x.value.func, ast.Attribute) and x.value.func.attr in ("pop", "get") and norm(x.value.func.value) == "child_component_attrs"]
    if not pops:
        # conditional form: any store from child_component_attrs
        pops = [x for x in ast.walk(loop) if isinstance(x, ast.Assign) and "child_component_attrs" in norm(x.value)]
    okp = False
    whyp = "no lookup of child_component_attrs in the loop"
    if pops:
        var = norm(pops[0].targets[0])
        uncond = [x for x in pops if x in loop.body]
        users = [c for c in ast.walk(loop) if isinstance(c, ast.Call) and any(isinstance(a, ast.Name) and a.id == var for a in c.args)]
        okp = bool(uncond) and all(u.lineno > uncond[0].lineno for u in users) and len(x_ := [x for x in pops[0].value.args]) == 2
        whyp = f"`{short(pops[0])}`" + ("" if pops[0] in loop.body else " is conditional")
    chk.ob("S6", "perfutil.component:queue-loop:child-attributes-looked-up-every-iteration", lm.loc(pops[0]) if pops else lm.loc(loop), okp,
           "the attributes of the component being processed are popped (with a default) unconditionally at the start of each iteration" if okp else
           f"the attributes handed to the renderer are not re-read unconditionally in each iteration ({whyp}): a component for which the parent recorded nothing (e.g. one the HTML parser could not see) inherits the attributes of the component processed just before it, so its roots carry a foreign id")

    # hand-over renderer -> attribute step: the inherited list arrives unchanged
    km = proj.mod("component")
    rs = [(q, fn) for q, fn in sorted(km.defs.items()) if isinstance(fn, ast.FunctionDef) and any(enclosing_func(c_) is fn for c_ in calls(fn, "set_component_attrs_for_js_and_css"))]
    dps = params(df)
    ra_name = next((p_ for p_ in dps if "root" in p_), None)
    if ra_name is None:
        raise AnalysisError("anchor vanished: the root-attribute parameter of set_component_attrs_for_js_and_css")
    if not rs:
        raise AnalysisError("anchor vanished: renderer(root_attributes) calling set_component_attrs_for_js_and_css")
    for q, fn in rs:
        chk.analysed(fkey(km, fn))
        for c in calls(fn, "set_component_attrs_for_js_and_css"):
            if enclosing_func(c) is not fn:
                continue
            val = next((k.value for k in c.keywords if k.arg == ra_name), None)
            if val is None and dps.index(ra_name) < len(c.args):
                val = c.args[dps.index(ra_name)]
            bad = None
            if not (isinstance(val, ast.Name) and val.id in params(fn)):
                bad = (c, f"the call passes `{ra_name}={short(val) if val is not None else '<nothing>'}`, not the list the parent handed to the renderer")
            pname = val.id if isinstance(val, ast.Name) else ""
            for x in ast.walk(fn):
                if bad:
                    break
                tg = []
                if isinstance(x, ast.Assign):
                    tg = x.targets
                elif isinstance(x, (ast.AugAssign, ast.AnnAssign)):
                    tg = [x.target]
                elif isinstance(x, ast.Delete):
                    tg = x.targets
                for t in tg:
                    for y in ast.walk(t):
                        if isinstance(y, ast.Name) and y.id == pname:
                            bad = (x, f"`{short(x)}` replaces or cuts the inherited list before it is applied")
                if isinstance(x, ast.Call) and isinstance(x.func, ast.Attribute) and isinstance(x.func.value, ast.Name) and x.func.value.id == pname and x.func.attr in ("pop", "clear", "remove", "sort", "reverse", "insert"):
                    bad = (x, f"`{short(x)}` mutates the inherited list before it is applied")
            chk.ob("S6", f"component:{q.split('.')[-2] if '.' in q else q}.renderer:inherited-attributes-handed-over-unchanged", km.loc(bad[0]) if bad else km.loc(c), bad is None,
                   "the renderer passes the `root_attributes` it received to set_component_attrs_for_js_and_css without reassigning, cutting or mutating it" if bad is None else
                   f"{bad[1]}: in a chain of components that are each other's root (every level's root is the next component) the ids of the outer instances that were dropped are missing from the shared root element although Component.id reports them - at any depth the cut can reach")


_FIXTURE_DEEPCOPY = "import copy\ndef snap(ctx_dict):\n    return copy.deepcopy(ctx_dict['forloop'])\n"


def _deepcopy_sites(tree: ast.AST) -> List[ast.Call]:
    return [c for c in ast.walk(tree) if isinstance(c, ast.Call) and last_attr(c.func) in ("deepcopy",) or (isinstance(c, ast.Call) and (dotted(c.func) or "").startswith("pickle."))]


def s5(chk: Check, proj: Project, w) -> None:
    chk.rule("S5", "no Python recursion that grows with nesting: the component's template is rendered only inside the deferred renderer closure, the renderer is called only from the queue loop, the render-reachable in-package call graph has no cycle, and the context snapshot walks the forloop/parentloop chain with a loop (no deepcopy / pickle)")
    # (a) eager template render
    n = 0
    for q in ("Component._render", "Component._render_impl", "Component._render_with_id", "Component._gen_component_renderer"):
        r = proj.try_func("component", q)
        if r is None:
            continue
        mm, ff = r
        n += 1
        eager = [c for c in ast.walk(ff) if isinstance(c, ast.Call) and isinstance(c.func, ast.Attribute) and c.func.attr == "render" and isinstance(c.func.value, ast.Name) and "template" in c.func.value.id.lower() and enclosing_func(c) is ff]
        chk.ob("S5", f"component:{q}:no-eager-template-render", mm.loc(eager[0]) if eager else mm.loc(ff), not eager,
               "the component's template is not rendered in this frame (only in the deferred closure)" if not eager else
               f"`{short(eager[0])}` renders the component's template in the frame of the {{% component %}} tag: one Python recursion per nesting level (RecursionError at ~60 levels)")
    chk.floor("S5", n, 3)
    # (b) renderer invoked only from the queue machinery
    m, f = proj.func("perfutil.component", "component_post_render")
    selfcalls = [c for c in ast.walk(f) if isinstance(c, ast.Call) and last_attr(c.func) == "component_post_render"]
    chk.ob("S5", "perfutil.component:component_post_render:not-self-recursive", m.loc(selfcalls[0]) if selfcalls else m.loc(f), not selfcalls, "component_post_render never calls itself")
    # (c) in-package cycles on the render-reachable graph
    reach = set(w.render_reachable())
    idx: Dict[str, int] = {}
    low: Dict[str, int] = {}
    stack: List[str] = []
    on: Set[str] = set()
    cyc: List[List[str]] = []
    counter = [0]

    def succs(v: str) -> List[str]:
        return sorted({e[0] for e in w.cg.edges.get(v, ()) if e[0] in reach})

    for root in sorted(reach):
        if root in idx:
            continue
        work = [(root, iter(succs(root)))]
        idx[root] = low[root] = counter[0]
        counter[0] += 1
        stack.append(root)
        on.add(root)
        while work:
            v, it = work[-1]
            adv = False
            for t in it:
                if t not in idx:
                    idx[t] = low[t] = counter[0]
                    counter[0] += 1
                    stack.append(t)
                    on.add(t)
                    work.append((t, iter(succs(t))))
                    adv = True
                    break
                elif t in on:
                    low[v] = min(low[v], idx[t])
            if adv:
                continue
            work.pop()
            if work:
                low[work[-1][0]] = min(low[work[-1][0]], low[v])
            if low[v] == idx[v]:
                comp = []
                while True:
                    x = stack.pop()
                    on.discard(x)
                    comp.append(x)
                    if x == v:
                        break
                if len(comp) > 1 or v in succs(v):
                    cyc.append(sorted(comp))
    chk.extra["render_reachable_functions"] = len(reach)
    if len(reach) < 80:
        raise AnalysisError(f"render-reachable set collapsed to {len(reach)} functions")
    chk.ob("S5", "render-call-graph:acyclic", m.loc(f), not cyc, f"no cycle among the {len(reach)} render-reachable in-package functions" if not cyc else
           f"render-reachable functions call each other in a cycle {cyc[0][:4]}: Python recursion on the render path, depth-limited")
    # (c2) no explicit depth limit either
    lim = []
    for fk in sorted(reach):
        fm, ffn = w.cg.funcs[fk]
        for r in [x for x in body_walk(ffn) if isinstance(x, ast.Raise)]:
            guarded = any(re.search(r"len\((\w+\.)*\w*(path|depth|nesting|stack)\w*\)\s*(>|>=)", t) for t, pol in cond_atoms(r) if pol)
            explicit = isinstance(r.exc, ast.Call) and norm(r.exc.func).split(".")[-1] == "RecursionError"
            if guarded or explicit:
                lim.append((fm, r))
    chk.ob("S5", "render-path:no-explicit-depth-limit", lim[0][0].loc(lim[0][1]) if lim else m.loc(f), not lim,
           "no raise on the render path depends on the length of the component path / a nesting counter" if not lim else
           f"`{short(lim[0][1], 70)}` refuses to render beyond a fixed nesting depth: the property asks for any depth (the queue exists to have no limit); a chain of 1300 components fails although nothing recursed")
    # (d) chain copy is iterative
    fx = _deepcopy_sites(ast.parse(_FIXTURE_DEEPCOPY))
    if len(fx) != 1:
        raise AnalysisError("deepcopy lint lost its positive fixture")
    cm = proj.mod("util.context")
    sites = []
    for fk in sorted(reach | {k for k in w.cg.funcs if k.startswith("django_components.util.context:")}):
        fm, ffn = w.cg.funcs[fk]
        for c in _deepcopy_sites(ffn):
            if enclosing_func(c) is ffn or fk.startswith("django_components.util.context:"):
                sites.append((fm, c))
    ok = not sites
    chk.ob("S5", "render-path:no-structural-recursion-helpers", sites[0][0].loc(sites[0][1]) if sites else cm.loc(cm.tree), ok,
           "no deepcopy / pickle on the render path or in the context snapshot" if ok else
           f"`{short(sites[0][1])}` copies by structural recursion: the forloop -> parentloop chain (and any per-level structure) grows with nesting, so deep pages raise RecursionError where the loop-based copy does not")


SINKS = [
    # (module, function qualname, callee last name, keyword / positional index)
    ("component", "Component._render_with_id", "MetadataItem", "render_id"),
    ("component", "Component._render_with_id", "ComponentContext", "component_id"),
    ("component", "Component._render_with_id", "_gen_component_renderer", "render_id"),
    ("component", "Component._render_with_id", "component_post_render", "render_id"),
    ("component", "Component._render_with_id", "register_provide_reference", 1),
    ("component", "Component._gen_component_renderer.renderer", "set_component_attrs_for_js_and_css", "component_id"),
    ("component", "Component._gen_component_renderer.renderer", "insert_component_dependencies_comment", "component_id"),
]


def s1(chk: Check, proj: Project, w) -> None:
    chk.rule("S1", "exactly one gen_id() per render; every use of the render id is that value (def-use through parameters/closures); Component.id reads the top of a LIFO metadata stack")
    m = proj.mod("component")
    # one generation site on the render entry chain
    gens = []
    for q in ("Component._render", "Component._render_impl", "Component._render_with_id", "Component._gen_component_renderer", "Component._gen_component_renderer.renderer"):
        r = proj.try_func("component", q)
        if r:
            gens += [(q, c) for c in calls(r[1], "gen_id")]
            chk.analysed(f"django_components.component:{q}")
    chk.ob("S1", "component:render-entry:single-gen_id", m.loc(gens[0][1]) if gens else m.loc(m.tree), len(gens) == 1,
           f"one gen_id() call on the render entry chain ({gens[0][0]})" if len(gens) == 1 else f"{len(gens)} gen_id() calls on the render entry chain ({[g[0] for g in gens]}): different parts of a render can get different ids")
    n = 0
    for mod, q, callee, arg in SINKS:
        r = proj.try_func(mod, q)
        if r is None:
            # tolerate the pre-split shape (everything in _render_impl)
            alt = q.replace("_render_with_id", "_render_impl")
            r = proj.try_func(mod, alt)
            if r is None:
                raise AnalysisError(f"anchor vanished: {mod}:{q}")
            q = alt
        mm, f = r
        cs = calls(f, callee)
        if not cs:
            raise AnalysisError(f"anchor vanished: call to {callee} in {q}")
        for c in cs:
            n += 1
            e = kwarg(c, arg) if isinstance(arg, str) else (c.args[arg] if len(c.args) > arg else None)
            ok, why = traces_to_gen_id(w, mm, f, e)
            chk.ob("S1", f"{mod}:{q}:{callee}({arg})", mm.loc(c), ok, f"{callee}({arg}=...) receives the render's gen_id() value" if ok else f"{callee}({arg}=`{short(e) if e is not None else 'missing'}`) is not the render's single gen_id() value: {why}")
    # context key and registry key
    r = proj.try_func("component", "Component._render_with_id") or proj.try_func("component", "Component._render_impl")
    mm, f = r  # type: ignore[misc]
    for d in [x for x in body_walk(f) if isinstance(x, ast.Dict)]:
        for k, v in zip(d.keys, d.values):
            if k is not None and norm(k) == "_COMPONENT_CONTEXT_KEY":
                n += 1
                ok, why = traces_to_gen_id(w, mm, f, v)
                chk.ob("S1", "component:render:context-key", mm.loc(d), ok, "the context key carries the render id" if ok else f"context key is `{short(v)}`: {why}")
    for a in w.summ.acc["perfutil.component:component_context_cache"]:
        if a.kind == "insert" and a.func is not None:
            n += 1
            ok, why = traces_to_gen_id(w, a.mod, a.func, a.key)
            chk.ob("S1", "component:render:registry-key", a.loc, ok, "ComponentContext is registered under the render id" if ok else f"registered under `{short(a.key)}`: {why}")
    chk.floor("S1", n, 9)
    # metadata stack LIFO
    mid, fid = proj.func("component", "Component.id")
    subs = [x for x in body_walk(fid) if isinstance(x, ast.Subscript) and isinstance(x.value, ast.Attribute) and norm(x.value.value) == "self"]
    if len({x.value.attr for x in subs}) != 1:
        chk.undecided("S1", "component:Component.id:stack-attribute", mid.loc(fid), "Component.id does not read `self.<stack>[...]`: the metadata stack attribute cannot be identified")
        return
    SA = subs[0].value.attr
    SELF_SA = f"self.{SA}"
    mw, fw = proj.func("component", "Component._with_metadata")
    pushes = [c for c in calls(fw) if isinstance(c.func, ast.Attribute) and norm(c.func.value) == SELF_SA and c.func.attr in ("append", "appendleft", "insert")]
    pops = [c for c in calls(fw) if isinstance(c.func, ast.Attribute) and norm(c.func.value) == SELF_SA and c.func.attr in ("pop", "popleft")]
    lifo = len(pushes) == 1 and len(pops) == 1 and ((pushes[0].func.attr == "append" and pops[0].func.attr == "pop" and not pops[0].args) or (pushes[0].func.attr == "appendleft" and pops[0].func.attr == "popleft"))
    chk.ob("S1", "component:Component._with_metadata:lifo", mw.loc(fw), lifo, "metadata is pushed and popped at the same end (stack)" if lifo else f"`{short(pushes[0]) if pushes else '?'}` / `{short(pops[0]) if pops else '?'}` do not form a stack: after a re-entrant render Component.id reports another render's id")
    # ... and the stack belongs to the instance: created fresh in __init__, never bound in a class body
    mi, fi = proj.func("component", "Component.__init__")
    own = [st for st in stmts(fi) if isinstance(st, (ast.Assign, ast.AnnAssign)) and any(norm(t) == SELF_SA for t, _v in assign_targets(st))]
    fresh = len(own) == 1 and own[0] in fi.body and isinstance(own[0].value, (ast.Call, ast.List)) and not any(isinstance(x, ast.Name) for x in ast.walk(own[0].value) if x is not getattr(own[0].value, "func", None))
    how = "created fresh in Component.__init__"
    if not own:
        # alternative: a property that lazily creates the container on an instance-owned threading.local holder
        cm0 = proj.mod("component")
        ccls = cm0.cls("Component")
        prop = next((x for x in ccls.body if isinstance(x, ast.FunctionDef) and x.name == SA and any((dotted(d) or "") == "property" for d in x.decorator_list)), None)
        holders = {t.attr for st in stmts(fi) for t, v in assign_targets(st) if isinstance(t, ast.Attribute) and norm(t.value) == "self" and isinstance(v, ast.Call) and (dotted(v.func) or "").endswith("local")}
        if prop is not None:
            uses_holder = any(isinstance(y, ast.Attribute) and norm(y.value) == "self" and y.attr in holders for y in ast.walk(prop))
            creates = any(isinstance(y, ast.Call) and norm(y.func) in ("deque", "list", "collections.deque") and not y.args for y in ast.walk(prop))
            other_src = [y for y in ast.walk(prop) if isinstance(y, ast.Attribute) and norm(y.value) in ("cls", "type(self)", "self.__class__")]
            fresh = uses_holder and creates and not other_src
            how = "a property that creates it per thread on a threading.local owned by the instance"
    shared = []
    for mm2 in proj.modules.values():
        for c in ast.walk(mm2.tree):
            if isinstance(c, ast.ClassDef):
                for st in c.body:
                    if isinstance(st, (ast.Assign, ast.AnnAssign)) and st.value is not None and any(norm(t) == SA for t, _v in assign_targets(st)):
                        shared.append((mm2, st))
    okown = fresh and not shared
    chk.ob("S1", "component:Component._metadata_stack:per-instance", shared[0][0].loc(shared[0][1]) if shared else (mi.loc(own[0]) if own else mi.loc(fi)), okown,
           f"the metadata stack is {how} and bound in no class body" if okown else
           "the metadata stack behind Component.id is not owned by the instance (bound in a class body / not created fresh in __init__): all instances push onto one stack, so a component handed to a child, or two threads, read each other's id")
    end = "[-1]" if pushes and pushes[0].func.attr == "append" else "[0]"
    for prop in ("id", "input", "is_filled"):
        r2 = proj.try_func("component", f"Component.{prop}")
        if r2 is None:
            continue
        reads = [x for x in body_walk(r2[1]) if isinstance(x, ast.Subscript) and norm(x.value) == SELF_SA]
        ok = bool(reads) and all(norm(x).endswith(end) for x in reads)
        chk.ob("S1", f"component:Component.{prop}:reads-top", r2[0].loc(r2[1]), ok, f"Component.{prop} reads the top of the stack ({end})" if ok else f"Component.{prop} does not read the end the stack is pushed at")


def s2(chk: Check, proj: Project, w) -> None:
    chk.rule("S2", "the id the generator can produce is matched by every reader pattern; the generator draws from os.urandom / secrets, never from the seedable global `random`")
    ev = Evaluator(proj, w.cg)
    gm, gf = proj.func("util.misc", "gen_id")
    ret = next((n for n in body_walk(gf) if isinstance(n, ast.Return)), None)
    idl = [simplify(a) for a in ev.eval(gm, gf, ret.value if ret else None)]
    exact = all(len(a) == 1 and a[0].kind == "field" and a[0].lo == a[0].hi for a in idl)
    chk.ob("S2", "util.misc:gen_id:shape", gm.loc(gf), exact, f"gen_id() yields {[show(a) for a in idl]}" if exact else f"cannot bound what gen_id() yields: {[show(a) for a in idl]}")
    pat, fl, _ = compiled_regex(proj, "perfutil.component", "render_id_pattern")
    lang = Lang(pat, fl)
    for a in idl:
        ok, wit = lang.accepts_all([Seg.lit('djc-render-id="')] + a + [Seg.lit('"')])
        chk.ob("S2", "perfutil.component:render_id_pattern", gm.loc(gf), ok, "render_id_pattern matches every id" if ok else f"render_id_pattern does not match id {wit!r}: the child is never substituted")
    rp, rloc = render_placeholder_writer(proj, ev)
    pat2, fl2, _ = compiled_regex(proj, "perfutil.component", "nested_comp_pattern")
    l2 = Lang(pat2, fl2)
    for a in rp:
        ok, wit = l2.accepts_all(a)
        chk.ob("S2", "perfutil.component:nested_comp_pattern", rloc, ok, "nested_comp_pattern matches the placeholder for every id" if ok else f"placeholder {wit!r} is not matched")
    # attribute carrying the id
    try:
        shapes, sloc = root_attr_shapes(proj, ev)
    except AnalysisError as e_:
        chk.undecided("S2", "dependencies:set_component_attrs_for_js_and_css:root-attribute-shapes", gm.loc(gf), f"root attribute shapes not derivable: {e_}")
        shapes, sloc = [], gm.loc(gf)
    # a placeholder that is the root of k nested root components carries k inherited id attributes (unbounded k):
    # writer language  <prefix>( <attr>="")*></template>  must be inside the reader's language
    tail = "></template>"
    attr_alts = [segs_regex(alt) for _e, v in shapes for alt in v]
    for a in rp:
        if not (a and a[-1].kind == "lit" and a[-1].text.endswith(tail)) or not attr_alts:
            chk.undecided("S2", "perfutil.component:nested_comp_pattern:any-number-of-root-attributes", rloc, "placeholder writer / attribute shapes not recognised")
            continue
        pre = list(a[:-1]) + [Seg.lit(a[-1].text[: -len(tail)])]
        wre = segs_regex(pre) + "(?: (?:" + "|".join(attr_alts) + ')="")*' + re.escape(tail)
        ok, wit = included(Lang(wre), l2)
        chk.ob("S2", "perfutil.component:nested_comp_pattern:any-number-of-root-attributes", rloc, ok,
               "the placeholder with ANY number of inherited root attributes is matched (a chain of components-as-roots of any length)" if ok else
               f"placeholder {wit!r} (a component that is the root of a chain of enclosing root components, one inherited attribute per link) is not matched by nested_comp_pattern: it stays in the page and everything below it is never rendered")
    idshape = [v for e, v in shapes if "component_id" in e]
    ok = bool(idshape) and all(alt and alt[0].kind == "lit" and alt[0].text == "data-djc-id-" and len(alt) == 2 and alt[1].alphabet <= ASCII_WORD for v in idshape for alt in v)
    chk.ob("S2", "dependencies:set_component_attrs_for_js_and_css:id-attribute", sloc, ok, "root attribute is `data-djc-id-<render id>`" if ok else f"root id attribute has an unexpected shape: {[show(a) for v in idshape for a in v]}")
    # entropy source
    nm, nf = proj.func("util.nanoid", "generate")
    uses_random = [n for n in ast.walk(nm.tree) if (isinstance(n, (ast.Import, ast.ImportFrom)) and any((a.name == "random" or (isinstance(n, ast.ImportFrom) and n.module == "random")) for a in n.names))]
    src_ok = any(isinstance(c.func, ast.Name) and c.func.id == "urandom" or (dotted(c.func) or "").startswith(("os.urandom", "secrets.")) for c in calls(nf))
    chk.ob("S2", "util.nanoid:generate:entropy-source", nm.loc(nf), src_ok and not uses_random,
           "ids are drawn from os.urandom / secrets" if src_ok and not uses_random else "ids are drawn from the global `random` module: application code that seeds it (random.seed(x)) during a render makes later ids repeat, so two instances share an id")
    # every id has the FULL length: a return is reached only under `len(id) == size`
    szp = params(nf)[1] if len(params(nf)) > 1 else "size"
    rets = [r for r in ast.walk(nf) if isinstance(r, ast.Return)]
    short_rets = [r for r in rets if not any(pol and re.fullmatch(rf"len\((\w+)\) (==|>=) {szp}", t) and r.value is not None and norm(r.value) == re.fullmatch(rf"len\((\w+)\) (==|>=) {szp}", t).group(1) for t, pol in cond_atoms(r))]
    fell = not always_exits(nf.body)
    chk.ob("S2", "util.nanoid:generate:full-length", nm.loc(short_rets[0]) if short_rets else nm.loc(nf), not short_rets and not fell and bool(rets),
           f"every return is guarded by `len(id) == {szp}` and the function cannot fall off its end: ids always have the length the reader patterns expect" if not short_rets and not fell and rets else
           f"`{short(short_rets[0]) if short_rets else 'end of function'}` can return an id with fewer than `{szp}` characters (when too many random bytes fall outside the alphabet, about 1 in 150 000 ids): the fixed-width reader patterns never match it, the instance's output vanishes and its placeholder stays in the page")
    # every coercion of a slot reference renders the slot AGAIN: its content may hold {% component %} tags and each rendering
    # of a tag is an instance with its own id and its own one-shot placeholder
    sm = proj.mod("slots")
    sr = sm.cls("SlotRef")
    st_ = next((x for x in sr.body if isinstance(x, ast.FunctionDef) and x.name == "__str__"), None)
    if st_ is None:
        chk.undecided("S2", "slots:SlotRef.__str__:renders-every-time", sm.loc(sr), "SlotRef.__str__ not found")
    else:
        chk.analysed(f"{sm.name}:SlotRef.__str__")
        memo = [x for x in ast.walk(st_) if isinstance(x, ast.Attribute) and isinstance(x.ctx, ast.Store)] + [r for r in ast.walk(st_) if isinstance(r, ast.Return) and r.value is not None and not any(isinstance(c, ast.Call) and last_attr(c.func) == "render" for c in ast.walk(r.value)) and not (isinstance(r.value, ast.Name) and any(isinstance(v, ast.Call) and any(last_attr(c.func) == "render" for c in ast.walk(v) if isinstance(c, ast.Call)) for _s, v in assignments(st_, r.value.id) if v is not None))]
        chk.ob("S2", "slots:SlotRef.__str__:renders-every-time", sm.loc(memo[0]) if memo else sm.loc(st_), not memo,
               "str(slot_ref) calls nodelist.render(...) on every use and keeps nothing" if not memo else
               f"`{short(memo[0] if isinstance(memo[0], ast.stmt) else enclosing_stmt(memo[0]))}` remembers the rendered slot: `{{{{ orig }}}}{{{{ orig }}}}` in a fill whose default content holds a {{% component %}} puts ONE instance (one id, one placeholder) at two places - the second substitution finds its renderer already consumed (KeyError)")


def s3(chk: Check, proj: Project, w) -> None:
    chk.rule("S3", "child_component_attrs is filled only from the HTML step's result of the parent being rendered and consumed by a point pop of the child being processed")
    n = 0
    for a in w.summ.acc["perfutil.component:child_component_attrs"]:
        n += 1
        key = f"perfutil.component:{qual_of(a.node)}:{short(a.stmt(), 70)}"
        if a.kind == "insert" and a.key is None:
            # update(<dict returned by the renderer>)
            arg = a.node.args[0] if isinstance(a.node, ast.Call) and a.node.args else None
            src = None
            if isinstance(arg, ast.Name) and a.func is not None:
                for st, v in assignments(a.func, arg.id):
                    if isinstance(v, ast.Call):
                        src = norm(v.func)
            ok = src is not None and "renderer" in src
            chk.ob("S3", key, a.loc, ok, f"filled from the result of `{src}(...)` (attributes reported for this parent's children)" if ok else f"`{short(a.stmt())}`: source of the inserted attributes is not the renderer's result")
        elif a.kind == "remove" and a.key is not None:
            chk.holds("S3", key, a.loc, f"point pop for `{short(a.key)}`", nontrivial=False)
        elif a.kind in ("read", "contains", "insert"):
            chk.holds("S3", key, a.loc, f"point {a.kind}", nontrivial=False)
        else:
            chk.violated("S3", key, a.loc, f"`{short(a.stmt())}` ({a.how}) affects the attributes recorded for ALL pending children, including those of other render trees in flight: their root elements lose the parent's id")
    chk.floor("S3", n, 2)


def s4(chk: Check, proj: Project, w) -> None:
    chk.rule("S4", "only the root component runs the queue loop (control-dependent on `parent_id is None`), `parent_id` is non-None exactly when the context carries the component key, and a component's own template context always carries it")
    m, f = proj.func("perfutil.component", "component_post_render")
    chk.analysed(fkey(m, f))
    loop_sites: List[ast.AST] = [x for x in body_walk(f) if isinstance(x, ast.While)]
    for c in calls(f):
        tg = w.cg.resolve_callee(m, c, c.func)
        if tg is not None and isinstance(tg[1], ast.FunctionDef) and any(isinstance(x, ast.While) for x in ast.walk(tg[1])):
            loop_sites.append(c)
    if not loop_sites:
        raise AnalysisError("component_post_render: queue loop not found")
    for ls in loop_sites:
        atoms = cond_atoms(enclosing_stmt(ls) if not isinstance(ls, ast.stmt) else ls)
        ok = any((t == "parent_id is not None" and not pol) or (t == "parent_id is None" and pol) for t, pol in atoms)
        chk.ob("S4", f"perfutil.component:component_post_render:queue-only-for-root:{short(ls, 40)}", m.loc(ls), ok, "the queue loop runs only when parent_id is None" if ok else "the queue loop can run for a nested component: composition becomes recursive (depth grows with nesting)")
    r = proj.try_func("component", "Component._render_with_id") or proj.try_func("component", "Component._render_impl")
    mm, ff = r  # type: ignore[misc]
    cpr = calls(ff, "component_post_render")
    pidv = norm(kwarg(cpr[0], "parent_id")) if cpr and kwarg(cpr[0], "parent_id") is not None else "parent_id"
    asg = assignments(ff, pidv)
    ok = len(asg) == 2
    if ok:
        conds = [cond_atoms(st) for st, _ in asg]
        vals = [norm(v) if v is not None else "" for _, v in asg]
        pos = [i for i, v in enumerate(vals) if v != "None"]
        ok = len(pos) == 1 and any(pol and "_COMPONENT_CONTEXT_KEY" in t for t, pol in conds[pos[0]]) and any((not pol) and "_COMPONENT_CONTEXT_KEY" in t for t, pol in conds[1 - pos[0]])
    chk.ob("S4", "component:render:parent_id-iff-context-key", mm.loc(asg[0][0]) if asg else mm.loc(ff), ok, "parent_id is set from the context key when present and None otherwise")
    # snapshot handed to the renderer is taken inside the `with context.update({KEY: render_id, ...})`
    snaps = [c for c in calls(ff, "snapshot_context") if c.args and norm(c.args[0]) == "context"]
    ok = False
    for c in snaps:
        for a in ancestors(c):
            if isinstance(a, ast.With) and any(isinstance(it.context_expr, ast.Call) and norm(it.context_expr.func) == "context.update" and it.context_expr.args and isinstance(it.context_expr.args[0], ast.Dict) and any(k is not None and norm(k) == "_COMPONENT_CONTEXT_KEY" for k in it.context_expr.args[0].keys) for it in a.items):
                st = enclosing_stmt(c)
                var = st.targets[0].id if isinstance(st, ast.Assign) and isinstance(st.targets[0], ast.Name) else None
                gr = calls(ff, "_gen_component_renderer")
                ok = var is not None and bool(gr) and norm(kwarg(gr[0], "context") or ast.Name(id="?", ctx=ast.Load())) == var
    chk.ob("S4", "component:render:own-template-context-has-key", mm.loc(snaps[0]) if snaps else mm.loc(ff), ok, "the context snapshot the component's template is rendered with is taken while the component key is pushed" if ok else "the deferred renderer's context is not the snapshot taken under the component key: nested components would see no parent and run the queue recursively")


MANIFEST = {
    "text": "Decides that one generated id per render is the value used everywhere (metadata behind Component.id, ComponentContext, context key, registries, deferred renderer, root-attribute step, marker), that the metadata stack is LIFO, that the id's alphabet/length is what the reader patterns match, that the generator's entropy is not the seedable global random, that root attributes are handed over per child without bulk operations, and that only the root runs the composition loop (no recursion growing with nesting depth). Also: the reader accepts the placeholder with ANY number of inherited root attributes (regex inclusion with a Kleene star), the metadata stack is per instance (or per instance and thread), no Python recursion grows with nesting (deferred template render, acyclic render call graph, no deepcopy/pickle on the render path), the isolated copy forwards the component key unconditionally, the root-attribute step always goes through the HTML parser, and child attributes are looked up afresh in every queue iteration. Round 4: no explicit nesting-depth limit on the render path. Round 5: list-content flow analysis of the root-attribute list (own id / css attributes reach the roots whenever given, inherited ones always); every id has the full length (returns only under len(id) == size, `while True` never falls through); a slot reference renders its slot on every coercion. Round 6: the nested placeholder is safe HTML (shared with C01-S6); the template and the template_rendered signal run inside _with_metadata.",
    "note": "Trusted: the external HTML parser sets root_attributes on exactly the top-level elements (its behaviour is outside the repository). Not decided: which elements are roots; absence of the id on other elements.",
    "technique": "static def-use / provenance through parameters and closures; regex language inclusion; control dependence",
}
