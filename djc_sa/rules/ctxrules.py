"""Rules about Django Context handling that several properties share (C03, C05)."""
from __future__ import annotations

import ast
from typing import List, Optional, Set, Tuple

from ..astq import assignments, calls, params, stmts
from ..cfg import flatten_conj, path_conditions
from ..report import Check
from ..source import AnalysisError, Module, Project, ancestors, body_walk, dotted, enclosing_stmt, last_attr, norm, parent, short


def forwarding_loops(f: ast.AST) -> List[Tuple[ast.For, ast.If, ast.AST, str, str]]:
    """`for k[, v] in <ctx>.flatten()[.items()|.keys()]: if k.startswith(_INJECT_CONTEXT_KEY_PREFIX): <tgt>[k] = ...`
    -> (loop, if, store, source-context text, target text)."""
    out = []
    for loop in [n for n in ast.walk(f) if isinstance(n, ast.For)]:
        it = loop.iter
        src = None
        e = it
        # allow an intermediate variable: context_keys = context.flatten().keys()
        if isinstance(e, ast.Name):
            fn = next((a for a in ancestors(loop) if isinstance(a, (ast.FunctionDef, ast.AsyncFunctionDef))), None)
            if fn is not None:
                a = assignments(fn, e.id)
                if len(a) == 1 and a[0][1] is not None:
                    e = a[0][1]
        if isinstance(e, ast.Call) and isinstance(e.func, ast.Attribute) and e.func.attr in ("items", "keys"):
            e = e.func.value
        if isinstance(e, ast.Call) and isinstance(e.func, ast.Attribute) and e.func.attr == "flatten":
            src = norm(e.func.value)
        if src is None and isinstance(e, ast.Name):
            # layer-wise form: `for layer in [reversed(]<ctx>.dicts[)]: for k, v in layer.items(): ...`
            outer = next((a for a in ancestors(loop) if isinstance(a, ast.For)), None)
            if outer is not None and norm(outer.target) == e.id:
                oe = outer.iter
                while isinstance(oe, ast.Call) and isinstance(oe.func, ast.Name) and oe.func.id in ("reversed", "list", "tuple") and oe.args:
                    oe = oe.args[0]
                if isinstance(oe, ast.Attribute) and oe.attr == "dicts":
                    src = norm(oe.value)
        if src is None:
            continue
        kvar = loop.target.elts[0] if isinstance(loop.target, ast.Tuple) else loop.target
        if not isinstance(kvar, ast.Name):
            continue
        for st in loop.body:
            if isinstance(st, ast.If):
                has_prefix = any(
                    isinstance(c, ast.Call) and isinstance(c.func, ast.Attribute) and c.func.attr == "startswith" and norm(c.func.value) == kvar.id
                    and c.args and "_INJECT_CONTEXT_KEY_PREFIX" in norm(c.args[0])
                    for c in ast.walk(st.test)
                )
                if not has_prefix:
                    continue
                for s2 in st.body:
                    if isinstance(s2, ast.Assign) and isinstance(s2.targets[0], ast.Subscript) and norm(s2.targets[0].slice) == kvar.id:
                        out.append((loop, st, s2, src, norm(s2.targets[0].value)))
    return out


def check_forwarding_condition(chk: Check, rule: str, m: Module, q: str, ifst: ast.If) -> None:
    """The forwarding condition must be the prefix test alone: an extra conjunct can suppress a provided key."""
    atoms = flatten_conj([(ifst.test, True)])
    extra = [a for a, pol in atoms if not (isinstance(a, ast.Call) and isinstance(a.func, ast.Attribute) and a.func.attr == "startswith")]
    key = f"{m.name.replace('django_components.', '')}:{q}:forwarding-condition"
    if isinstance(ifst.test, ast.BoolOp) and isinstance(ifst.test.op, ast.Or):
        chk.holds(rule, key, m.loc(ifst), "forwarding condition is a disjunction containing the prefix test (forwards at least all inject keys)")
    elif extra:
        chk.violated(rule, key, m.loc(ifst), f"inject keys are forwarded only if additionally `{short(extra[0])}`: a key provided nearer to the component can be dropped in favour of an outer / stale one")
    else:
        chk.holds(rule, key, m.loc(ifst), "every key with the inject prefix is forwarded unconditionally")


def isolated_copy_ops(chk: Check, rule: str, proj: Project) -> None:
    """make_isolated_context_copy and helpers that receive the fresh context: only key stores, `.update(<layer>)`
    (ContextDict copies the layer) and the render_context hand-over are allowed on the fresh Context. Direct access to
    `.dicts` of the fresh context aliases a live layer of the caller's context."""
    m, f = proj.func("context", "make_isolated_context_copy")
    fresh = None
    for n in body_walk(f):
        if isinstance(n, ast.Assign) and isinstance(n.value, ast.Call) and isinstance(n.value.func, ast.Attribute) and n.value.func.attr == "new" and isinstance(n.targets[0], ast.Name):
            fresh = n.targets[0].id
    if fresh is None:
        raise AnalysisError("make_isolated_context_copy: `<ctx>.new()` not found")
    todo: List[Tuple[ast.AST, str, str]] = [(f, fresh, "make_isolated_context_copy")]
    seen = set()
    count = 0
    while todo:
        fn, var, q = todo.pop()
        if (id(fn), var) in seen:
            continue
        seen.add((id(fn), var))
        for n in body_walk(fn):  # type: ignore[arg-type]
            if isinstance(n, ast.Name) and n.id == var and isinstance(n.ctx, ast.Load):
                p = parent(n)
                key = f"context:{q}:{short(enclosing_stmt(n), 80)}"
                if isinstance(p, ast.Subscript) and p.value is n and isinstance(p.ctx, ast.Store):
                    count += 1
                    chk.holds(rule, key, m.loc(n), "key store into the fresh context's own top layer", nontrivial=False)
                elif isinstance(p, ast.Attribute) and p.value is n:
                    pp = parent(p)
                    if p.attr == "update" and isinstance(pp, ast.Call):
                        count += 1
                        chk.holds(rule, key, m.loc(n), "`.update(layer)` pushes a COPY of the layer (ContextDict)", nontrivial=False)
                    elif p.attr == "render_context" and isinstance(p.ctx, ast.Store):
                        count += 1
                        chk.holds(rule, key, m.loc(n), "render_context hand-over (required for {% extends %})", nontrivial=False)
                    elif p.attr in ("dicts",):
                        count += 1
                        chk.violated(rule, key, m.loc(n), f"`{short(enclosing_stmt(n))}` touches `.dicts` of the isolated copy directly: a layer appended there is shared BY REFERENCE with the caller's live context, so later writes into the copy (inject keys, component key) leak into the surrounding template")
                    else:
                        count += 1
                        chk.undecided(rule, key, m.loc(n), f"unrecognised operation `.{p.attr}` on the isolated context copy")
                elif isinstance(p, ast.Call) and n in p.args:
                    # passed to a helper: follow it
                    r = proj.resolve_expr(m, p.func)
                    if r and r[0] == "def" and isinstance(r[2], (ast.FunctionDef, ast.AsyncFunctionDef)):
                        idx = p.args.index(n)
                        ps = params(r[2])
                        if idx < len(ps):
                            todo.append((r[2], ps[idx], r[2].name))
                elif isinstance(p, ast.Return):
                    pass
    chk.floor(rule + "-ops", count, 3)


def partial_stack_views(chk: Check, rule: str, proj: Project, funcs: List[Tuple[str, str]]) -> None:
    """Functions that enumerate / look up inject keys must look at the whole Context (`flatten()`, `in`, `[k]`);
    slicing or indexing `.dicts` gives a partial view that misses keys written by isolated copies (layer 0)."""
    for mod, q in funcs:
        m, f = proj.func(mod, q)
        bad = [n for n in body_walk(f) if isinstance(n, ast.Attribute) and n.attr == "dicts" and isinstance(parent(n), ast.Subscript)]
        key = f"{mod}:{q}:whole-context-view"
        if bad:
            chk.violated(rule, key, m.loc(bad[0]), f"`{short(enclosing_stmt(bad[0]))}` reads a slice / single layer of the context stack while looking for provided keys: keys stored in other layers (e.g. layer 0 of an isolated copy) are not seen")
        else:
            chk.holds(rule, key, m.loc(f), "looks at the whole context (no `.dicts[...]` view)")


def deferred_live_context(chk: Check, rule: str, proj: Project) -> None:
    """Code that runs in the deferred phase (on_render_before / on_render_after hooks defined in the package, the
    renderer and on_component_rendered closures) must not hand the LIVE input context (`*.input.context`) to a render:
    by then that Context has left the scopes ({% provide %}, {% with %}, {% for %}) that surrounded the tag."""
    n = 0
    for m, q, f in proj.all_funcs():
        last = q.split(".")[-1]
        if last not in ("on_render_before", "on_render_after", "renderer", "on_component_rendered"):
            continue
        if m.name.endswith("component") and last in ("on_render_before", "on_render_after") and q.startswith("Component."):
            continue  # the empty base hooks
        n += 1
        bad = None
        for c in calls(f):
            if last_attr(c.func) in ("render", "_render", "render_to_response"):
                for a in list(c.args) + [k.value for k in c.keywords]:
                    if norm(a).endswith(".input.context"):
                        bad = (c, a)
        key = f"{m.name.replace('django_components.', '')}:{q}:no-live-context-in-deferred-render"
        if bad:
            chk.violated(rule, key, m.loc(bad[0]), f"`{short(bad[1])}` (the live Context given to the render) is passed to `{short(bad[0].func)}(...)` from {last}, which runs in the deferred phase: the scopes that surrounded the tag ({{% provide %}}, {{% with %}}, {{% for %}}) are gone by then, so the inner component loses provided data and surrounding variables")
        else:
            chk.holds(rule, key, m.loc(f), "no live input context is handed to a render from deferred code")
    chk.floor(rule + "-deferred", n, 3)
